#!/venv/bin/python
"""Regenerates MANIFEST.json from the per-property metadata below (run after adding a rules module)."""
import json
import pathlib

HERE = pathlib.Path(__file__).resolve().parent
BASE = "cd /repo && /venv/bin/python -m pytest -ra -q -p no:cacheprovider --timeout=900 --continue-on-collection-errors"

META = {
    "C13": dict(
        technique="path rule over unmarshaller terms: subject of the earliest identity guard vs lossy text decoder, restricted to table rows whose acceptance set (abstract predicate evaluation) has a text-like member",
        text="Partial: for families with text-like members (StrEnum) the identity check runs on the raw input before serdes.load; serdes.load is the identity off text; classes with their own iteration strategy are never content-peeked. Returning an equal reconstruction instead of the same object is accepted. Equality for adversarial strings and idempotence on values are not decided.",
        note="Text-like members are searched in the stdlib catalogue only.",
        ref="DESIGN.md §4 C13",
    ),
    "C14": dict(
        technique="carrier-table cross-check + sink/source dataflow over unmarshaller paths (decode/load before every text-consuming sink) + call-site hashability rule for memoised decoders + path-order rule for strload",
        text="Partial: istexttype and decode agree on the carriers; every unmarshaller feeds its text-consuming sinks from decode()/load() unless a guard proves the input non-text; composite routines load text; memoised decoders only receive hashable carriers; strload tries JSON, literal_eval(decoded), decoded text in that order with covering suppress sets; one encoding everywhere. Equality of results across carriers on values is not decided.",
        note="Trusts the oracle's hashability table and json/ast decoders' documented error classes.",
        ref="DESIGN.md §4 C14",
    ),
    "C18": dict(
        technique="typestate rule for consumed iterators + guard-set agreement between sibling functions + comprehension filter rule over resolved terms",
        text="Partial: no unguarded next/peek on possibly empty iterators; after peekable() only the wrapper is handed on; classes with their own strategy are excluded before the content peek; every attribute-name source is filtered by the public-name test; itervalues projects the same strategy in the order mapping/namedtuple/iterable/fields; arguments are never mutated. Exact pairs for every x (ClassVar fields, custom Mappings) are not decided.",
        note="Trusts more_itertools.peekable and operator.methodcaller semantics.",
        ref="DESIGN.md §4 C18",
    ),
    "C01": dict(
        technique="abstract evaluation of dispatch predicates on a stdlib class catalogue (table reachability/precedence) + term classification of marshal wire forms vs unmarshal reader forms + path rules for temporal reconstruction",
        text="Partial: decides the structural necessary conditions of the round trip — every _HANDLERS row reachable and ordered specific-first in both directions, each scalar family's marshal wire form and unmarshal reader form an inverse pair, temporal reconstructions copy every constructor field, tzinfo re-attached after .time(), duration writer covers weeks. Value-level equality through str()/isoformat()/pendulum is not decided.",
        note="Trusts the stdlib hierarchy oracle and the curated inverse-pair table; pendulum/json parser behaviour and union value acceptance are out of reach (listed in evidence assumptions).",
        ref="DESIGN.md §4 C01",
    ),
    "C03": dict(
        technique="provenance (taint) analysis over symbolic terms of every unmarshaller path: raw members vs context-resolved member routines; dominating class guards on returns",
        text="Partial: every composite unmarshaller's output is shown to contain only members converted by context-resolved routines; every scalar/temporal return is class-guarded on its path, constructed from the target class or delegated; fixed tuples are arity-checked; Literal returns dominated by membership. Holds on every path, hence for every input that can take it. Required TypedDict keys and Enum membership semantics are not decided.",
        note="Trusts constructor semantics of the target classes and the oracle; NoOp routines are pass-through by contract.",
        ref="DESIGN.md §4 C03",
    ),
    "C04": dict(
        technique="whole-package call-site sweep (UTC discipline) + extraction of the ISO-8601 duration writer from f-string terms against the designator table + guarded-path dataflow",
        text="Partial: epoch readings are UTC at every fromtimestamp/now site, the duration writer's (component, designator) pairs, order, fraction width and week coverage are checked against the ISO table, numbers reach timedelta only as un-narrowed seconds=, temporal inputs to text/number types flow through isoformat/unixtime under the matching guard. Exact parse-back of str(v) by Python's/pendulum's parsers is not decided.",
        note="Trusts pendulum.Duration's attribute decomposition and the ISO designator table; one known finding ('PT'/'P1DT' language) pinned by an existing test.",
        ref="DESIGN.md §4 C04",
    ),
    "C05": dict(
        technique="dataflow of context keys in the routine factories + slot provenance analysis (constructor lookups by type argument) matched against the component each slot is applied to; sibling fact comparison",
        text="Partial: the context is keyed by annotation (type and unwrapped) never by field name; every member routine applied in a composite __call__ was resolved from the context by the right type argument / hint and meets its own component (keys/values/i-th member/field); both api siblings agree. Equality with independently built member routines on values is not decided.",
        note="Trusts graph.static_order's members-first order (C09) and zip/dict semantics.",
        ref="DESIGN.md §4 C05",
    ),
    "C06": dict(
        technique="return-shape classification of every marshaller's return term into a JSON-plain lattice + mutation/ambient effect analysis over paths",
        text="Partial: every marshaller returns str/isoformat/enum value/pattern/cast or a freshly built list/dict of converted members; no container row returns its input; no marshal path mutates the input or reads ambient state; Literal non-members raise ValueError. That str(v)/.value are JSON-encodable is assumed for U.",
        note="Trusts the lattice of accepted wire forms listed in the checker; subclass instances under Any are pass-through by contract.",
        ref="DESIGN.md §4 C06",
    ),
    "C08": dict(
        technique="order-transformer abstract domain over the member-stack expression + exception-coverage analysis (may-raise sets vs suppress tuple) + path rules for the None fast path and terminal raise",
        text="Partial: both union routines keep declared member order (identity or stable none-first), return the first acceptor, honour None first, raise ValueError when exhausted, suppress the same classes, and the suppress tuple covers every member family's may-raise set. Which member accepts a given value is not decided.",
        note="Trusts the curated raise-set table of stdlib constructors (oracle.RAISE_SETS).",
        ref="DESIGN.md §4 C08",
    ),
    "C17": dict(
        technique="constant-table cross-check against the runtime's ABC hierarchy + abstract evaluation of each predicate on a stdlib catalogue",
        text="Narrow partial claim: GENERIC_TYPE_MAP kinds and spelling parity, the class set each class-valued predicate tests versus its contract base, origin() normalisation, raising predicates only behind the special-form filters, BUILTIN/STDLIB table derivation, and agreement of the abstractly evaluated predicates with issubclass on the catalogue. The differential over every object of every predicate's domain is a runtime comparison and is not decided.",
        note="Trusts the frozen contract table (predicate -> base) in the checker and the stdlib oracle.",
        ref="DESIGN.md §4 C17",
    ),
    "C10": dict(
        technique="abstract interpretation of binder return expressions to effect summaries + exhaustive table cross-check (32 rows x concrete call shapes) over the AST",
        text="Decides the whole dispatch statically: every AbstractBinding.__call__ is reduced to an effect summary, _get_binding is evaluated per parameter kind, and all 32 _BINDING_CLS_MATRIX rows are simulated on those summaries for every call shape Python accepts (1-2 parameters per kind, 0-2 extras) against Python's own binding rule. Holds for every signature whose kinds fall in a row because binders never look at anything but kind-level facts.",
        note="Trusts Python's argument binding rule and inspect's parameter order; unmarshal itself is C03; TypeError parity on rejected calls not decided.",
        ref="DESIGN.md §4 C10",
    ),
}

PENDING = "check not yet built in this round (see DESIGN.md §4 for the rules planned)"


def main():
    props = [json.loads(l) for l in (HERE / "properties.jsonl").read_text().splitlines() if l.strip()]
    checks, na = [], []
    for p in props:
        pid = p["id"]
        have = (HERE / "tlverif" / "rules" / f"{pid.lower()}.py").exists()
        m = META.get(pid)
        if not have or not m:
            na.append({"property_id": pid, "reason": PENDING})
            continue
        checks.append(
            {
                "property_id": pid,
                "quick_cmd": f"/venv/bin/python -m tlverif {pid} --tier quick",
                "thorough_cmd": f"/venv/bin/python -m tlverif {pid} --tier thorough",
                "evidence_file": f"/verif/evidence/{pid}.json",
                "replay_cmd_template": f"/venv/bin/python -m tlverif {pid} --replay {{path}}",
                "engine": "tlverif",
                "level_claimed": {"category": "other", "text": m["text"], "design_ref": m["ref"]},
                "level_note": m["note"],
                "technique": m["technique"],
            }
        )
    man = {
        "version": 1,
        "setup_cmd": "/venv/bin/python -m compileall -q tlverif && /venv/bin/python -c \"import tlverif.model as m; m.Program()\"",
        "hooks": {
            "guard": "TYPELIB_VERIF",
            "enable": "no hooks: nothing in /repo is instrumented; the analysis reads source only",
            "baseline_off_cmd": BASE,
            "source_commits": [],
            "add_only": True,
        },
        "engines": [
            {
                "name": "tlverif",
                "path": "/verif/tlverif",
                "serves_properties": [c["property_id"] for c in checks],
                "kind_free_text": "repository-specific static analyser: ast loader with import/alias resolution, symbolic term evaluation, acyclic path enumeration with guards, per-property rule modules, stdlib fact oracle",
            }
        ],
        "checks": checks,
        "not_applicable": na,
        "notes": "Static analysis only: every verdict is computed from /repo's current source (ast) on each run; typelib is never imported or executed. Exit 0 held / 1 VIOLATION / 2 ANALYSIS-ERROR or UNDECIDED.",
    }
    (HERE / "MANIFEST.json").write_text(json.dumps(man, indent=1) + "\n")
    print(f"claimed={len(checks)} not_applicable={len(na)}")


if __name__ == "__main__":
    main()
