#!/venv/bin/python
"""Regenerates MANIFEST.json from the per-property metadata below (run after adding a rules module)."""
import json
import pathlib

HERE = pathlib.Path(__file__).resolve().parent
BASE = "cd /repo && /venv/bin/python -m pytest -ra -q -p no:cacheprovider --timeout=900 --continue-on-collection-errors"

META = {
    "C10": dict(
        technique="abstract interpretation of binder return expressions to effect summaries + exhaustive table cross-check (32 rows x concrete call shapes) over the AST",
        text="Decides the whole dispatch statically: every AbstractBinding.__call__ is reduced to an effect summary, _get_binding is evaluated per parameter kind, and all 32 _BINDING_CLS_MATRIX rows are simulated on those summaries for every call shape Python accepts (1-2 parameters per kind, 0-2 extras) against Python's own binding rule. Holds for every signature whose kinds fall in a row because binders never look at anything but kind-level facts.",
        note="Trusts Python's argument binding rule and inspect's parameter order; unmarshal itself is C03; TypeError parity on rejected calls not decided.",
        ref="DESIGN.md §4 C10",
    ),
}

PENDING = "check not yet built in this round (see DESIGN.md §4 for the rules planned)"


def main():
    props = [json.loads(l) for l in (HERE / "properties.jsonl").read_text().splitlines() if l.strip()]
    checks, na = [], []
    for p in props:
        pid = p["id"]
        have = (HERE / "tlverif" / "rules" / f"{pid.lower()}.py").exists()
        m = META.get(pid)
        if not have or not m:
            na.append({"property_id": pid, "reason": PENDING})
            continue
        checks.append(
            {
                "property_id": pid,
                "quick_cmd": f"/venv/bin/python -m tlverif {pid} --tier quick",
                "thorough_cmd": f"/venv/bin/python -m tlverif {pid} --tier thorough",
                "evidence_file": f"/verif/evidence/{pid}.json",
                "replay_cmd_template": f"/venv/bin/python -m tlverif {pid} --replay {{path}}",
                "engine": "tlverif",
                "level_claimed": {"category": "other", "text": m["text"], "design_ref": m["ref"]},
                "level_note": m["note"],
                "technique": m["technique"],
            }
        )
    man = {
        "version": 1,
        "setup_cmd": "/venv/bin/python -m compileall -q tlverif && /venv/bin/python -c \"import tlverif.model as m; m.Program()\"",
        "hooks": {
            "guard": "TYPELIB_VERIF",
            "enable": "no hooks: nothing in /repo is instrumented; the analysis reads source only",
            "baseline_off_cmd": BASE,
            "source_commits": [],
            "add_only": True,
        },
        "engines": [
            {
                "name": "tlverif",
                "path": "/verif/tlverif",
                "serves_properties": [c["property_id"] for c in checks],
                "kind_free_text": "repository-specific static analyser: ast loader with import/alias resolution, symbolic term evaluation, acyclic path enumeration with guards, per-property rule modules, stdlib fact oracle",
            }
        ],
        "checks": checks,
        "not_applicable": na,
        "notes": "Static analysis only: every verdict is computed from /repo's current source (ast) on each run; typelib is never imported or executed. Exit 0 held / 1 VIOLATION / 2 ANALYSIS-ERROR or UNDECIDED.",
    }
    (HERE / "MANIFEST.json").write_text(json.dumps(man, indent=1) + "\n")
    print(f"claimed={len(checks)} not_applicable={len(na)}")


if __name__ == "__main__":
    main()
