#!/venv/bin/python
"""Regenerates MANIFEST.json from the per-property metadata below (run after adding a rules module)."""
import json
import pathlib

HERE = pathlib.Path(__file__).resolve().parent
BASE = "cd /repo && /venv/bin/python -m pytest -ra -q -p no:cacheprovider --timeout=900 --continue-on-collection-errors"

META = {
    "C02": dict(
        technique="dataflow facts over return terms of the four entry points and of the codec() factory (parameter-to-role flow, guard dominance of the identity coders, default-argument backend resolution)",
        text="Partial: Codec.encode/decode and api.encode/decode are exactly encoder∘marshal and unmarshal∘decoder with every parameter flowing to its role; codec() wires supplied-or-generated routines, the caller's coders and codec_cls-or-Codec, identity coders only under isbytestype(t); all default coders are dumps/loads of one backend. That the bytes are valid JSON and decode∘encode = id depends on orjson/json and C01 and is not decided.",
        note="Trusts dataclass keyword construction and the resolved backend import in compat.",
        ref="DESIGN.md §4 C02",
    ),
    "C07": dict(
        technique="worklist/visited typestate rule over get_type_graph paths + call-graph reachability (no build-time path into memoised factories) + proxy dataflow + taint rule of C03 in both directions",
        text="Partial: the graph walk pushes a node only together with recording it visited and never re-pushes a revisited cyclic node (termination for finite type graphs); forward references dispatch first to a lazy proxy that resolves through the same-direction factory and delegates every call; no routine constructor can reach a memoised factory; composite routines pass no level through raw. Depth-d correctness on values is not decided.",
        note="Assumes finitely many distinct annotations reachable; root-dependent generic-root failures are the C09 known finding.",
        ref="DESIGN.md §4 C07",
    ),
    "C09": dict(
        technique="path rules over get_type_graph (predecessor contribution, skip-only continue, flag/ForwardRef/revisit equivalence) + provenance analysis of the synthesised forward reference (drops-subscript summary, module source) + shape rules for _level/static_order/itertypes",
        text="Partial: every non-skipped child contributes a predecessor and every parent is added; ForwardRef node ⇔ cyclic flag ⇔ revisit; _level = args ∪ hints of the unwrapped parent; reference roots delegate to the memoised self; the deferred node's name/module provenance is checked (one known finding: parameterised generics are deferred by their bare origin name). Duplicate-freeness and sequence equality across spellings are not decided.",
        note="Trusts graphlib.TopologicalSorter.",
        ref="DESIGN.md §4 C09",
    ),
    "C11": dict(
        technique="branch-coverage and fixpoint rule over unwrap()'s loop paths + shared dispatch/context/graph facts + purity (ambient-read) analysis of memoised reference resolvers",
        text="Partial: unwrap peels ClassVar/Final/TypeAliasType (value and string)/NewType and re-enters its loop after every peel; dispatch and construction use node.unwrapped; the context is double-keyed and falls back through unwrap then forward reference; graph nodes carry (annotation, unwrapped); memoised resolvers must be pure (one known finding: _resolve_module_name reads the call stack). Behavioural identity of W(T) and T routines on inputs is not decided.",
        note="Resolution of bare names from arbitrary caller modules is dynamic by nature.",
        ref="DESIGN.md §4 C11",
    ),
    "C12": dict(
        technique="effect analysis: call-time state writes read back, alias analysis of memoised results to routine returns, representation-exposure candidates of memoised functions vs a frozen triage table, transitive ambient reads of memoised functions, in-place mutation of cached results",
        text="Partial: no call-time state is written and read back outside two reasoned latches; memoised mutable results never reach a routine/API return un-rebuilt; memoised functions are pure and fine-keyed except the listed known findings (union-order-insensitive keys of the four factories and unwrap; stack-reading module resolver); no mutable defaults, no module-level container mutated outside the slotted guard, no input mutation, no consumer mutates a cached helper result. Equality with a cold process per operation is not decided.",
        note="Trusts functools.cache keying on ==/hash and the oracle's coarse-equality table.",
        ref="DESIGN.md §4 C12",
    ),
    "C15": dict(
        technique="abstract evaluation of both dispatch tables and of the graph walk's leaf/cut guards on descriptors of the grammar's special forms (TypeVar, type[X], parameterised Callable, Ellipsis, tuple[()]); producer/consumer table agreement (graph skip set vs seeded context keys, constructor arity vs routed forms); type-flow rule in refs.forwardref; totality of dispatch paths",
        text="Partial: no dispatch predicate raises on a form of the grammar before a row takes it (PredEval with origin() interpreted from source, 10 forms x 2 tables); routine constructors unpack no more type arguments than the forms routed to them have; annotations whose arguments are not annotations are leaves of the graph walk; a non-string reference never reaches the string-splitting module resolver; every legal annotation the graph skips (typing.Any) is seeded with a pass-through routine (or lookups are tolerant); unresolvable/None rows are routed, dispatch ends in an unconditional fallback, TypeVars are normalised, empty graphs and unknown field types fall back to no-ops. Error-freeness for every annotation to depth 3 and repeatability after cache clearing are not decided.",
        note="constants.empty is treated as a sentinel, not a legal type argument. Four genuine defects found by R15.4-R15.6 were repaired (fix: commits 1ba9f66, ef70579, a8a3446, 66ac1a8).",
        ref="DESIGN.md §4 C15, §5 repairs 21-24",
    ),
    "C16": dict(
        technique="dominance/path rules over the 20-line dict subclass (lookup order, recursion guard, handler coverage, memo write shape, absence of shadowing hooks)",
        text="Partial: __missing__ tries the unwrapped key before the forward reference, raises KeyError for a missed ForwardRef before any recursive lookup, writes only the looked-up value under the queried key; get() covers KeyError, returns the hit and the default; dict's own lookup is not shadowed. Agreement with the reference model over operation sequences is not decided.",
        note="Trusts dict semantics (__missing__ only for absent keys).",
        ref="DESIGN.md §4 C16",
    ),
    "C19": dict(
        technique="acquire/release pairing over closure paths + provenance rules for the rebuilt class dictionary and slot tuple + guard rule for the pickle hook",
        text="Partial: the module-level re-entrancy guard is released on every normal exit; __slots__ = fields(cls) names (+flags under their guards) − inherited slots with field defaults removed; the class is rebuilt from metaclass/name/bases/copied dict with __qualname__ propagated; the frozen pickle hook is installed only without user hooks. Instance-level equivalence (eq/hash/repr/copy/pickle) is not decided.",
        note="Trusts type(name, bases, dict) and dataclasses.fields.",
        ref="DESIGN.md §4 C19",
    ),
    "C20": dict(
        technique="traversal-completeness rule per NodeTransformer override against the interpreter's ast grammar + loop-guard and operand-order rules for |-chain flattening + constant-table check against typing aliases",
        text="Partial: every visit_X override visits all expression-valued fields of ast.X on every path (or defers to generic_visit); the left walk descends only through BitOr nodes and collects operands in source order; _GENERICS maps builtins to the typing alias whose __origin__ they are, with no value a key; transform() runs the transformer with the caller's union name over the whole tree; no BitOr BinOp is constructed. Structural equality of the evaluated types is not decided.",
        note="Trusts ast.NodeTransformer.generic_visit and ast.parse/unparse.",
        ref="DESIGN.md §4 C20",
    ),
    "C13": dict(
        technique="path rule over unmarshaller terms: subject of the earliest identity guard vs lossy text decoder, restricted to table rows whose acceptance set (abstract predicate evaluation) has a text-like member",
        text="Partial: for families with text-like members (StrEnum) the identity check runs on the raw input before serdes.load; serdes.load is the identity off text; classes with their own iteration strategy are never content-peeked. Returning an equal reconstruction instead of the same object is accepted. Equality for adversarial strings and idempotence on values are not decided.",
        note="Text-like members are searched in the stdlib catalogue only.",
        ref="DESIGN.md §4 C13",
    ),
    "C14": dict(
        technique="carrier-table cross-check + sink/source dataflow over unmarshaller paths (decode/load before every text-consuming sink) + call-site hashability rule for memoised decoders + path-order rule for strload",
        text="Partial: istexttype and decode agree on the carriers; every unmarshaller feeds its text-consuming sinks from decode()/load() unless a guard proves the input non-text; composite routines load text; memoised decoders only receive hashable carriers; strload tries JSON, literal_eval(decoded), decoded text in that order with covering suppress sets; one encoding everywhere. Equality of results across carriers on values is not decided.",
        note="Trusts the oracle's hashability table and json/ast decoders' documented error classes.",
        ref="DESIGN.md §4 C14",
    ),
    "C18": dict(
        technique="typestate rule for consumed iterators + guard-set agreement between sibling functions + comprehension filter rule over resolved terms",
        text="Partial: no unguarded next/peek on possibly empty iterators; after peekable() only the wrapper is handed on; classes with their own strategy are excluded before the content peek; every attribute-name source is filtered by the public-name test; itervalues projects the same strategy in the order mapping/namedtuple/iterable/fields; arguments are never mutated. Exact pairs for every x (ClassVar fields, custom Mappings) are not decided.",
        note="Trusts more_itertools.peekable and operator.methodcaller semantics.",
        ref="DESIGN.md §4 C18",
    ),
    "C01": dict(
        technique="abstract evaluation of dispatch predicates on a stdlib class catalogue (table reachability/precedence) + term classification of marshal wire forms vs unmarshal reader forms + path rules for temporal reconstruction",
        text="Partial: decides the structural necessary conditions of the round trip — every _HANDLERS row reachable and ordered specific-first in both directions, each scalar family's marshal wire form and unmarshal reader form an inverse pair, temporal reconstructions copy every constructor field, tzinfo re-attached after .time(), duration writer covers weeks. Value-level equality through str()/isoformat()/pendulum is not decided.",
        note="Trusts the stdlib hierarchy oracle and the curated inverse-pair table; pendulum/json parser behaviour and union value acceptance are out of reach (listed in evidence assumptions).",
        ref="DESIGN.md §4 C01",
    ),
    "C03": dict(
        technique="provenance (taint) analysis over symbolic terms of every unmarshaller path: raw members vs context-resolved member routines; dominating class guards on returns",
        text="Partial: every composite unmarshaller's output is shown to contain only members converted by context-resolved routines; every scalar/temporal return is class-guarded on its path, constructed from the target class or delegated; fixed tuples are arity-checked; Literal returns dominated by membership. Holds on every path, hence for every input that can take it. Required TypedDict keys and Enum membership semantics are not decided.",
        note="Trusts constructor semantics of the target classes and the oracle; NoOp routines are pass-through by contract.",
        ref="DESIGN.md §4 C03",
    ),
    "C04": dict(
        technique="whole-package call-site sweep (UTC discipline) + extraction of the ISO-8601 duration writer from f-string terms against the designator table + guarded-path dataflow",
        text="Partial: epoch readings are UTC at every fromtimestamp/now site, the duration writer's (component, designator) pairs, order, fraction width and week coverage are checked against the ISO table, numbers reach timedelta only as un-narrowed seconds=, temporal inputs to text/number types flow through isoformat/unixtime under the matching guard. Exact parse-back of str(v) by Python's/pendulum's parsers is not decided.",
        note="Trusts pendulum.Duration's attribute decomposition and the ISO designator table; one known finding ('PT'/'P1DT' language) pinned by an existing test.",
        ref="DESIGN.md §4 C04",
    ),
    "C05": dict(
        technique="dataflow of context keys in the routine factories + slot provenance analysis (constructor lookups by type argument) matched against the component each slot is applied to; sibling fact comparison",
        text="Partial: the context is keyed by annotation (type and unwrapped) never by field name; every member routine applied in a composite __call__ was resolved from the context by the right type argument / hint and meets its own component (keys/values/i-th member/field); both api siblings agree. Equality with independently built member routines on values is not decided.",
        note="Trusts graph.static_order's members-first order (C09) and zip/dict semantics.",
        ref="DESIGN.md §4 C05",
    ),
    "C06": dict(
        technique="return-shape classification of every marshaller's return term into a JSON-plain lattice + mutation/ambient effect analysis over paths",
        text="Partial: every marshaller returns str/isoformat/enum value/pattern/cast or a freshly built list/dict of converted members; no container row returns its input; no marshal path mutates the input or reads ambient state; Literal non-members raise ValueError. That str(v)/.value are JSON-encodable is assumed for U.",
        note="Trusts the lattice of accepted wire forms listed in the checker; subclass instances under Any are pass-through by contract.",
        ref="DESIGN.md §4 C06",
    ),
    "C08": dict(
        technique="order-transformer abstract domain over the member-stack expression + exception-coverage analysis (may-raise sets vs suppress tuple) + path rules for the None fast path and terminal raise",
        text="Partial: both union routines keep declared member order (identity or stable none-first), return the first acceptor, honour None first, raise ValueError when exhausted, suppress the same classes, and the suppress tuple covers every member family's may-raise set. Which member accepts a given value is not decided.",
        note="Trusts the curated raise-set table of stdlib constructors (oracle.RAISE_SETS).",
        ref="DESIGN.md §4 C08",
    ),
    "C17": dict(
        technique="constant-table cross-check against the runtime's ABC hierarchy + abstract evaluation of each predicate on a stdlib catalogue",
        text="Narrow partial claim: GENERIC_TYPE_MAP kinds and spelling parity, the class set each class-valued predicate tests versus its contract base, origin() normalisation, raising predicates only behind the special-form filters, BUILTIN/STDLIB table derivation, and agreement of the abstractly evaluated predicates with issubclass on the catalogue. The differential over every object of every predicate's domain is a runtime comparison and is not decided.",
        note="Trusts the frozen contract table (predicate -> base) in the checker and the stdlib oracle.",
        ref="DESIGN.md §4 C17",
    ),
    "C10": dict(
        technique="abstract interpretation of binder return expressions to effect summaries + exhaustive table cross-check (32 rows x concrete call shapes) over the AST",
        text="Decides the whole dispatch statically: every AbstractBinding.__call__ is reduced to an effect summary, _get_binding is evaluated per parameter kind, and all 32 _BINDING_CLS_MATRIX rows are simulated on those summaries for every call shape Python accepts (1-2 parameters per kind, 0-2 extras) against Python's own binding rule. Holds for every signature whose kinds fall in a row because binders never look at anything but kind-level facts.",
        note="Trusts Python's argument binding rule and inspect's parameter order; unmarshal itself is C03; TypeError parity on rejected calls not decided.",
        ref="DESIGN.md §4 C10",
    ),
}

PENDING = "check not yet built in this round (see DESIGN.md §4 for the rules planned)"


# rules added after the seeding / false-alarm / defect-hunt rounds (DESIGN §10): appended to the texts above
EXTRA = {
    "C11": " Also: every exit of the string-alias branch is the forward reference in the alias's module; the graph's revisit test consults the annotation and its unwrapped form; refs.forwardref/_resolve_module_name naming rules; helper contracts of refs.evaluate, inspection.args, get_type_hints.",
    "C12": " Also: closures that outlive their maker never write captured variables; no memoised one-shot objects; memoised renderers only of exact-equality parameters; a function memoised on == of an annotation does not read the annotation's members into its result (get_args / args / __args__ / getattr(t, '__args__')).",
    "C02": " Also: a hand-rolled memo of codec() holds every configuration parameter itself in its key (a projection of a coder -- its qualified name, an id -- is not the coder).",
    "C13": " Also: every named constructor parameter yields a signature hint (guards on parameter kinds evaluated on the IntEnum order); a result rebuilt from attributes of the input reads a set that determines the class (Pattern: pattern+flags).",
    "C14": " Also: a Literal text member is matched on the decoded text of every carrier before the loader may re-type it; memoryview decoded from its own bytes.",
    "C16": " Also: the unwrap rules (R11.1) and the forwardref naming rules (R11.7) are shared in, since the lookup keys are built by them; the reference consulted last is built from the queried key itself (R16.8).",
    "C17": " Also: a raw-membership table lists a typing alias together with its runtime origin; qualname()/name() name a class by its own qualified name and cut text only for typing forms; origin() interpreted on the catalogue (Callable forms included) and peeling nested wrappers to a fixpoint (R17.13).",
    "C10": " Also: no binder pairs all positional arguments off with a stored sequence through a truncating zip (a rejected call stays rejected).",
    "C15": " Also: a TypeVar attribute other than bound/constraints is handed out only behind the NoDefault sentinel; constant indexing of type arguments only under a non-emptiness fact; every call of a package function, class or inspectable builtin in the anchor files binds its arguments (R<nn>.0 calls-bind, all properties).",
    "C18": " Also: an iterable of pairs is iterated as it is, anything else goes through exactly one strategy.",
    "C19": " Also: nothing reaches __slots__ outside the inherited-slots filter; the bases' layout is asked of any base; the class's own annotations are read with a default; the pickle hook restores (name, value) entries; a member is handed back unchanged only when every cell is; the pickle-hook guard is checked as a truth table over {user __getstate__, user __setstate__, frozen}.",
}
for _k, _v in EXTRA.items():
    META[_k]["text"] = META[_k]["text"] + _v


def main():
    props = [json.loads(l) for l in (HERE / "properties.jsonl").read_text().splitlines() if l.strip()]
    checks, na = [], []
    for p in props:
        pid = p["id"]
        have = (HERE / "tlverif" / "rules" / f"{pid.lower()}.py").exists()
        m = META.get(pid)
        if not have or not m:
            na.append({"property_id": pid, "reason": PENDING})
            continue
        checks.append(
            {
                "property_id": pid,
                "quick_cmd": f"/venv/bin/python -m tlverif {pid} --tier quick",
                "thorough_cmd": f"/venv/bin/python -m tlverif {pid} --tier thorough",
                "evidence_file": f"/verif/evidence/{pid}.json",
                "replay_cmd_template": f"/venv/bin/python -m tlverif {pid} --replay {{path}}",
                "engine": "tlverif",
                "level_claimed": {"category": "other", "text": m["text"], "design_ref": m["ref"]},
                "level_note": m["note"],
                "technique": m["technique"],
            }
        )
    man = {
        "version": 1,
        "setup_cmd": "/venv/bin/python -m compileall -q tlverif && /venv/bin/python -c \"import tlverif.model as m; m.Program()\"",
        "hooks": {
            "guard": "TYPELIB_VERIF",
            "enable": "no hooks: nothing in /repo is instrumented; the analysis reads source only",
            "baseline_off_cmd": BASE,
            "source_commits": [],
            "add_only": True,
        },
        "engines": [
            {
                "name": "tlverif",
                "path": "/verif/tlverif",
                "serves_properties": [c["property_id"] for c in checks],
                "kind_free_text": "repository-specific static analyser: ast loader with import/alias resolution, symbolic term evaluation, acyclic path enumeration with guards, per-property rule modules, stdlib fact oracle",
            }
        ],
        "checks": checks,
        "not_applicable": na,
        "notes": "Static analysis only: every verdict is computed from /repo's current source (ast) on each run; typelib is never imported or executed. Exit 0 held / 1 VIOLATION / 2 ANALYSIS-ERROR or UNDECIDED.",
    }
    (HERE / "MANIFEST.json").write_text(json.dumps(man, indent=1) + "\n")
    print(f"claimed={len(checks)} not_applicable={len(na)}")


if __name__ == "__main__":
    main()
