#!/venv/bin/python
"""Apply mutants (ids) of a mutants.jsonl to a scratch copy of /repo/src and run the checks on it.

usage: mut_try.py mutants.jsonl id [id ...] [--props C03,C13]
Discovery helper for the mutation survey (tools/mutate.py); nothing of it runs in a check."""
import json, os, pathlib, re, shutil, subprocess, sys, tempfile, concurrent.futures as cf

VERIF = pathlib.Path(__file__).resolve().parent.parent


def one(m, props):
    root = pathlib.Path(tempfile.mkdtemp(prefix="mut-try-"))
    try:
        shutil.copytree("/repo/src", root / "src")
        f = root / m["file"]
        src = f.read_text()
        assert src[m["start"]:m["end"]] == m["old"], "stale mutant"
        f.write_text(src[:m["start"]] + m["new"] + src[m["end"]:])
        env = dict(os.environ, TLVERIF_REPO=str(root), TLVERIF_NO_EVIDENCE="1")
        out = ""
        for p in props or ["all"]:
            r = subprocess.run(["/venv/bin/python", "-W", "ignore", "-m", "tlverif", p], cwd=VERIF, env=env, capture_output=True, text=True)
            out += r.stdout + r.stderr
        viol = sorted(set(re.findall(r"rule (\S+) at \S+ (\S+)", out)))
        und = sorted(set(re.findall(r"(?:UNDECIDED|ANALYSIS-ERROR) property=(\S+ \S+)", out)))
        return m["id"], f"{m['file']}:{m['line']} {m['func']} [{m['op']}] {m['what'][:70]}", viol[:4], und[:3]
    finally:
        shutil.rmtree(root, ignore_errors=True)


if __name__ == "__main__":
    a = sys.argv[1:]
    props = None
    if "--props" in a:
        i = a.index("--props")
        props = a[i + 1].split(",")
        a = a[:i] + a[i + 2:]
    ms = {json.loads(l)["id"]: json.loads(l) for l in open(a[0])}
    ids = a[1:]
    with cf.ThreadPoolExecutor(8) as ex:
        for mid, what, viol, und in ex.map(lambda i: one(ms[i], props), ids):
            print(mid, "CAUGHT" if viol else ("UNDECIDED" if und else "silent"), what, viol, und)
