#!/venv/bin/python
"""Regenerates the table of §11 in DESIGN.md from /verif/seeded/*/meta.json."""
import json
import pathlib

V = pathlib.Path(__file__).resolve().parent.parent
rows = []
for m in sorted((V / "seeded").glob("*/meta.json")):
    d = json.loads(m.read_text())
    caught = d.get("caught_by", [])
    keys = []
    for p in caught:
        for k in d["checks_on_repo_with_patch"].get(p, {}).get("violations", [])[:1]:
            keys.append(k.split("@")[0] + "@…" + k.split("@")[1][-45:])
    rows.append(f"| {d['seed_id']} | {d['property']} | {d.get('what', '')} | {d.get('needs_to_manifest', '')} | {', '.join(caught) or '**missed**'} | {'; '.join(keys)} | {d.get('history', '')} |")
table = "| seed | aimed at | change | needs, to manifest | caught by | first obligation reported | notes |\n|---|---|---|---|---|---|---|\n" + "\n".join(rows)
p = V / "DESIGN.md"
s = p.read_text()
a, b = s.index("<!-- SEED-TABLE-BEGIN -->"), s.index("<!-- SEED-TABLE-END -->")
s = s[: a + len("<!-- SEED-TABLE-BEGIN -->")] + "\n" + table + "\n" + s[b:]
p.write_text(s)
print(f"{len(rows)} seeds")
