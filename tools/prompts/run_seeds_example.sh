#!/bin/bash
cd /verif
for P in "$@"; do
  for k in ${KS:-1 2 3}; do
    d=/tmp/wt/out3/$P/s$k
    [ -f $d/patch.diff ] || { echo "[$P-r10s$k] no patch"; continue; }
    what=$(/venv/bin/python -c "import json;print(json.load(open('$d/note.json')).get('what',''))" 2>/dev/null)
    needs=$(/venv/bin/python -c "import json;print(json.load(open('$d/note.json')).get('needs',''))" 2>/dev/null)
    sed -i "s#/tmp/wt/out3/#/tmp/wt/out/#g" $d/demo.py 2>/dev/null
    SEED_SKIP_CLEAN=1 timeout 900 /venv/bin/python tools/seed.py $d/patch.diff $d/demo.py $P $P-r10s$k --what "$what" --needs "$needs" 2>&1 | grep -v "^\s*$" | cut -c1-220
  done
done
