#!/bin/bash
# usage: run_neutral8.sh <k> ...
cd /verif
declare -A PROP=([1]=C04 [3]=C04 [4]=C17 [5]=C15 [6]=C09 [7]=C10 [2]=C03 [8]=C19 [9]=C06 [10]=C02)
for k in "$@"; do
  for j in ${JS:-1 2 3 4}; do
    d=/tmp/wt/nout3/nv$k/n$j
    [ -f $d/patch.diff ] || { echo "[nv$k n$j] no patch"; continue; }
    what=$(cat $d/what.txt 2>/dev/null | tr '\n' ' ' | cut -c1-400)
    timeout 900 /venv/bin/python tools/neutral.py $d/patch.diff ${PROP[$k]} ${PROP[$k]}-v${k}n$j --what "$what" 2>&1 | grep -v "^\s*$" | cut -c1-260
  done
done
