#!/venv/bin/python
"""Mutation survey: which small edits of /repo survive the pinned suite *and* all 20 checks?

This is a discovery tool for gaps in the rules (like the seeding rounds of DESIGN §11, but mechanical), not a check.
It never touches /repo's working tree: every worker owns a scratch git worktree under /tmp/mut (removed at the end).

usage: mutate.py gen  > mutants.jsonl
       mutate.py run  mutants.jsonl results.jsonl [--jobs 14] [--only FILE_SUBSTR] [--ops a,b]
       mutate.py report results.jsonl

operators (all keep the file syntactically valid):
  cmp        comparison operator replaced (== != ; is / is not ; in / not in ; < <= ; > >=)
  boolop     `and` <-> `or`
  not        `not x` -> `x`
  const      True <-> False ; 0 <-> 1 ; -1 -> 0
  drop-elt   one element removed from a tuple / list / set display of two or more (exception and class tuples)
  swap-args  the first two positional arguments of a call swapped
  del-stmt   an expression statement or a plain assignment that is not the last statement of its block replaced by `pass`
  memo       `@compat.cache` added to an undecorated module-level function of one hashable-looking parameter
  unmemo     a memoising decorator removed
  ifexp      `a if c else b` -> `b if c else a`
  return-arg `return f(x)` -> `return x` for single-argument calls
  (second generation, `gen2`)
  drop-kw    one keyword argument removed from a call
  drop-opnd  one operand removed from an `and` / `or`
  del-guard  an `if` without `else` whose body ends in return / raise / continue / break removed entirely
  if-true    an `if` test with an else/elif replaced by True / False (one arm made unreachable)
  slice      a constant slice bound or index changed (1 <-> 0 handled by const; here `[a:]` -> `[:]`, `[:b]` -> `[:]`, `-1` <-> `0`)
  method     a method replaced by its usual sibling (append/appendleft, add/discard, get(k, d) -> [k], items/values, startswith/endswith, any/all, update/setdefault …)
  name-swap  a loaded local name replaced by another local of the same function read at the same kind of position (call argument)
"""
from __future__ import annotations

import ast
import concurrent.futures as cf
import json
import os
import pathlib
import re
import subprocess
import sys
import threading

REPO = pathlib.Path("/repo")
VERIF = pathlib.Path(__file__).resolve().parent.parent
PY = "/venv/bin/python"
SRC = "src/typelib"

CMP = {ast.Eq: "!=", ast.NotEq: "==", ast.Is: "is not", ast.IsNot: "is", ast.In: "not in", ast.NotIn: "in", ast.Lt: "<=", ast.LtE: "<", ast.Gt: ">=", ast.GtE: ">"}


def seg(src: str, node) -> tuple[int, int]:
    lines = src.splitlines(keepends=True)
    off = [0]
    for ln in lines:
        off.append(off[-1] + len(ln.encode("utf-8")))
    b = src.encode("utf-8")

    def pos(line, col):
        return off[line - 1] + col

    s, e = pos(node.lineno, node.col_offset), pos(node.end_lineno, node.end_col_offset)
    # byte offsets -> str offsets
    return len(b[:s].decode("utf-8")), len(b[:e].decode("utf-8"))


class Gen(ast.NodeVisitor):
    def __init__(self, rel, src):
        self.rel, self.src, self.out = rel, src, []
        self.fn = []
        self.in_doc = set()

    def add(self, node, new, op, what):
        s, e = seg(self.src, node)
        old = self.src[s:e]
        if old == new:
            return
        self.out.append({"file": self.rel, "start": s, "end": e, "old": old, "new": new, "op": op, "what": what, "func": ".".join(self.fn), "line": node.lineno})

    def text(self, node):
        s, e = seg(self.src, node)
        return self.src[s:e]

    def visit_FunctionDef(self, node):
        self.fn.append(node.name)
        # decorators
        memo = [d for d in node.decorator_list if re.search(r"\b(cache|lru_cache)\b", self.text(d))]
        for d in memo:
            s, e = seg(self.src, d)
            # remove the whole decorator line
            ls = self.src.rfind("\n", 0, s) + 1
            le = self.src.find("\n", e) + 1
            self.out.append({"file": self.rel, "start": ls, "end": le, "old": self.src[ls:le], "new": "", "op": "unmemo", "what": f"decorator {self.text(d)} removed", "func": ".".join(self.fn), "line": d.lineno})
        if not node.decorator_list and len(self.fn) == 1 and len(node.args.args) == 1 and not node.args.vararg and not node.args.kwarg and not node.args.kwonlyargs and "compat" in self.src and not any(isinstance(n, (ast.Yield, ast.YieldFrom)) for n in ast.walk(node)):
            s, _ = seg(self.src, node)
            ls = self.src.rfind("\n", 0, s) + 1
            self.out.append({"file": self.rel, "start": ls, "end": ls, "old": "", "new": "@compat.cache\n", "op": "memo", "what": f"{node.name} memoised", "func": ".".join(self.fn), "line": node.lineno})
        self.block(node.body)
        self.generic_visit(node)
        self.fn.pop()

    visit_AsyncFunctionDef = visit_FunctionDef

    def visit_ClassDef(self, node):
        self.fn.append(node.name)
        self.generic_visit(node)
        self.fn.pop()

    def block(self, body):
        for i, st in enumerate(body[:-1]):
            if isinstance(st, ast.Expr) and isinstance(st.value, ast.Constant):
                continue
            if isinstance(st, (ast.Expr, ast.Assign, ast.AugAssign)) and self.fn:
                self.add(st, "pass", "del-stmt", f"statement `{self.text(st)[:50]}` removed")

    def visit_If(self, node):
        self.gen2_If(node)
        self.block(node.body)
        self.block(node.orelse)
        self.generic_visit(node)

    def visit_For(self, node):
        self.block(node.body)
        self.generic_visit(node)

    def visit_While(self, node):
        self.block(node.body)
        self.generic_visit(node)

    def visit_With(self, node):
        self.block(node.body)
        self.generic_visit(node)

    def visit_Try(self, node):
        self.block(node.body)
        for h in node.handlers:
            self.block(h.body)
        self.generic_visit(node)

    def visit_Compare(self, node):
        if self.fn and len(node.ops) == 1 and type(node.ops[0]) in CMP:
            l, r = self.text(node.left), self.text(node.comparators[0])
            self.add(node, f"{l} {CMP[type(node.ops[0])]} {r}", "cmp", f"`{self.text(node)[:50]}` comparator replaced")
        self.generic_visit(node)

    def visit_BoolOp(self, node):
        self.gen2_BoolOp(node)
        if self.fn:
            op = " or " if isinstance(node.op, ast.And) else " and "
            parts = []
            for v in node.values:
                t = self.text(v)
                parts.append(f"({t})" if isinstance(v, (ast.BoolOp, ast.IfExp, ast.Lambda, ast.NamedExpr)) else t)
            self.add(node, "(" + op.join(parts) + ")", "boolop", f"`{self.text(node)[:50]}` and<->or")
        self.generic_visit(node)

    GEN2 = False

    def gen2_If(self, node):
        if not (self.GEN2 and self.fn):
            return
        if not node.orelse and node.body and isinstance(node.body[-1], (ast.Return, ast.Raise, ast.Continue, ast.Break)):
            self.add(node, "pass", "del-guard", f"guard `if {self.text(node.test)[:50]}` removed with its exit")
        if node.orelse:
            t = node.test
            self.add(t, "True", "if-true", f"`if {self.text(t)[:50]}` always taken")
            self.add(t, "False", "if-true", f"`if {self.text(t)[:50]}` never taken")

    def gen2_BoolOp(self, node):
        if not (self.GEN2 and self.fn):
            return
        op = " and " if isinstance(node.op, ast.And) else " or "
        for i, v in enumerate(node.values):
            rest = []
            for j, x in enumerate(node.values):
                if j != i:
                    t = self.text(x)
                    rest.append(f"({t})" if isinstance(x, (ast.BoolOp, ast.IfExp, ast.Lambda, ast.NamedExpr)) else t)
            self.add(node, "(" + op.join(rest) + ")", "drop-opnd", f"operand `{self.text(v)[:40]}` dropped from `{self.text(node)[:50]}`")

    SIBLING = {"append": "appendleft", "appendleft": "append", "add": "discard", "items": "values", "values": "keys", "startswith": "endswith", "endswith": "startswith", "update": "setdefault", "extend": "append", "rstrip": "strip", "lstrip": "strip", "strip": "rstrip", "partition": "rpartition", "rpartition": "partition", "split": "rsplit", "rsplit": "split", "setdefault": "get", "pop": "get", "discard": "add", "issubset": "issuperset", "find": "rfind", "popleft": "pop", "timetz": "time", "total_seconds": "seconds"}
    FSIB = {"any": "all", "all": "any", "isinstance": "issubclass", "min": "max", "max": "min", "sorted": "list", "tuple": "list", "frozenset": "set", "getattr": "hasattr", "reversed": "iter", "len": "bool"}

    def gen2_Call(self, node):
        if not (self.GEN2 and self.fn):
            return
        for k in node.keywords:
            if k.arg is None:
                continue
            parts = [self.text(a) for a in node.args] + [(f"{x.arg}={self.text(x.value)}" if x.arg else f"**{self.text(x.value)}") for x in node.keywords if x is not k]
            self.add(node, f"{self.text(node.func)}({', '.join(parts)})", "drop-kw", f"keyword `{k.arg}=` dropped from `{self.text(node.func)[:40]}(…)`")
        f = node.func
        if isinstance(f, ast.Attribute) and f.attr in self.SIBLING:
            s, e = seg(self.src, f)
            vs, ve = seg(self.src, f.value)
            new = self.src[s:ve] + "." + self.SIBLING[f.attr]
            self.add(f, new, "method", f"`.{f.attr}` -> `.{self.SIBLING[f.attr]}` in `{self.text(node)[:40]}`")
        if isinstance(f, ast.Attribute) and f.attr == "get" and len(node.args) == 2 and not node.keywords:
            self.add(node, f"{self.text(f.value)}[{self.text(node.args[0])}]", "method", f"`{self.text(node)[:40]}` -> subscript")
        if isinstance(f, ast.Name) and f.id in self.FSIB:
            self.add(f, self.FSIB[f.id], "method", f"`{f.id}` -> `{self.FSIB[f.id]}` in `{self.text(node)[:40]}`")

    def visit_Subscript(self, node):
        if self.GEN2 and self.fn and isinstance(node.ctx, ast.Load):
            sl = node.slice
            if isinstance(sl, ast.Slice):
                lo = self.text(sl.lower) if sl.lower else ""
                hi = self.text(sl.upper) if sl.upper else ""
                st = (":" + self.text(sl.step)) if sl.step else ""
                v = self.text(node.value)
                if lo:
                    self.add(node, f"{v}[:{hi}{st}]", "slice", f"lower bound dropped from `{self.text(node)[:40]}`")
                if hi:
                    self.add(node, f"{v}[{lo}:{st}]", "slice", f"upper bound dropped from `{self.text(node)[:40]}`")
            elif isinstance(sl, ast.UnaryOp) and isinstance(sl.op, ast.USub) and isinstance(sl.operand, ast.Constant) and sl.operand.value == 1:
                self.add(sl, "0", "slice", f"index -1 -> 0 in `{self.text(node)[:40]}`")
            elif isinstance(sl, ast.Constant) and sl.value == 0 and type(sl.value) is int:
                self.add(sl, "-1", "slice", f"index 0 -> -1 in `{self.text(node)[:40]}`")
        self.generic_visit(node)

    def visit_UnaryOp(self, node):
        if self.fn and isinstance(node.op, ast.Not):
            self.add(node, f"({self.text(node.operand)})", "not", f"`{self.text(node)[:50]}` negation dropped")
        self.generic_visit(node)

    def visit_Constant(self, node):
        if self.fn:
            v = node.value
            if v is True:
                self.add(node, "False", "const", "True -> False")
            elif v is False:
                self.add(node, "True", "const", "False -> True")
            elif type(v) is int and v in (0, 1):
                self.add(node, str(1 - v), "const", f"{v} -> {1 - v}")

    def _display(self, node):
        if self.fn and len(node.elts) >= 2 and isinstance(getattr(node, "ctx", ast.Load()), ast.Load) and not any(isinstance(e, ast.Starred) for e in node.elts):
            for i, e in enumerate(node.elts):
                rest = [self.text(x) for j, x in enumerate(node.elts) if j != i]
                if isinstance(node, ast.Tuple):
                    body = ", ".join(rest) + ("," if len(rest) == 1 else "")
                    full = self.text(node)
                    new = f"({body})" if full.startswith("(") else body
                    if not full.startswith("(") and len(rest) == 1:
                        continue  # bare one-element tuple text is fragile in context
                elif isinstance(node, ast.List):
                    new = "[" + ", ".join(rest) + "]"
                else:
                    new = "{" + ", ".join(rest) + "}"
                self.add(node, new, "drop-elt", f"`{self.text(e)[:40]}` dropped from `{self.text(node)[:50]}`")
        self.generic_visit(node)

    visit_Tuple = visit_List = visit_Set = _display

    def visit_Call(self, node):
        self.gen2_Call(node)
        if self.fn and len(node.args) >= 2 and not any(isinstance(a, ast.Starred) for a in node.args[:2]):
            a0, a1 = node.args[0], node.args[1]
            s0, e0 = seg(self.src, a0)
            s1, e1 = seg(self.src, a1)
            ns, ne = seg(self.src, node)
            t = self.src
            new = t[ns:s0] + t[s1:e1] + t[e0:s1] + t[s0:e0] + t[e1:ne]
            self.add(node, new, "swap-args", f"first two arguments of `{self.text(node.func)[:40]}(…)` swapped")
        self.generic_visit(node)

    def visit_IfExp(self, node):
        if self.fn:
            self.add(node, f"{self.text(node.orelse)} if {self.text(node.test)} else {self.text(node.body)}", "ifexp", f"`{self.text(node)[:50]}` arms swapped")
        self.generic_visit(node)

    def visit_Return(self, node):
        v = node.value
        if self.fn and isinstance(v, ast.Call) and len(v.args) == 1 and not v.keywords and not isinstance(v.args[0], ast.Starred):
            self.add(v, self.text(v.args[0]), "return-arg", f"`return {self.text(v)[:40]}` returns its argument")
        self.generic_visit(node)


def gen():
    out = []
    for p in sorted((REPO / SRC).rglob("*.py")):
        rel = str(p.relative_to(REPO))
        src = p.read_text()
        try:
            tree = ast.parse(src)
        except SyntaxError:
            continue
        g = Gen(rel, src)
        g.visit(tree)
        for m in g.out:
            new_src = src[: m["start"]] + m["new"] + src[m["end"] :]
            try:
                ast.parse(new_src)
            except SyntaxError:
                continue
            out.append(m)
    for i, m in enumerate(out):
        m["id"] = f"m{i:05d}"
        print(json.dumps(m))


_local = threading.local()
_wts = []
_lock = threading.Lock()


def sh(cmd, cwd=None, env=None, timeout=600):
    try:
        r = subprocess.run(cmd, shell=True, cwd=cwd, env=env, capture_output=True, text=True, timeout=timeout)
        return r.returncode, r.stdout + r.stderr
    except subprocess.TimeoutExpired:
        return 124, "timeout"


def worktree():
    wt = getattr(_local, "wt", None)
    if wt is None:
        with _lock:
            wt = pathlib.Path(f"/tmp/mut/w{len(_wts)}")
            _wts.append(wt)
        sh(f"git -C {REPO} worktree remove --force {wt}")
        c, o = sh(f"git -C {REPO} worktree add -q --detach {wt} HEAD")
        if c:
            raise RuntimeError(o)
        _local.wt = wt
    return wt


KNOWN_SURVIVORS: set = set()  # recheck mode: ids the suite is already known to let through


def run_one(m):
    wt = worktree()
    f = wt / m["file"]
    src = f.read_text()
    assert src[m["start"] : m["end"]] == m["old"], m["id"]
    f.write_text(src[: m["start"]] + m["new"] + src[m["end"] :])
    try:
        if m["id"] in KNOWN_SURVIVORS:
            survived, tail = True, "(suite result taken from the earlier run)"
        else:
            env = dict(os.environ, PYTHONPATH=f"{wt}/src", PYTHONDONTWRITEBYTECODE="1")
            c, o = sh(f"{PY} -m pytest -q -x -p no:cacheprovider --timeout=120 2>&1 | tail -3", cwd=wt, env=env, timeout=400)
            tail = o.strip().splitlines()[-1] if o.strip() else ""
            survived = bool(re.search(r"\b\d+ passed", tail)) and "failed" not in tail and "error" not in tail
        res = {"id": m["id"], "suite": tail[:120], "survived": survived}
        if survived:
            env2 = dict(os.environ, TLVERIF_REPO=str(wt), TLVERIF_NO_EVIDENCE="1")
            c2, o2 = sh(f"{PY} -W ignore -m tlverif all", cwd=VERIF, env=env2, timeout=400)
            flagged = sorted(set(re.findall(r"VIOLATION property=(C\d\d)", o2)))
            broken = sorted(set(re.findall(r"(?:UNDECIDED|ANALYSIS-ERROR) property=(C\d\d)", o2)))
            rules = sorted(set(re.findall(r"rule (R[\d.]+) at", o2)))
            res.update({"flagged": flagged, "undecided": broken, "rules": rules[:6]})
        return res
    finally:
        f.write_text(src)


def run(mfile, rfile, jobs, only, ops):
    ms = [json.loads(l) for l in open(mfile)]
    if only:
        ms = [m for m in ms if only in m["file"]]
    if ops:
        ms = [m for m in ms if m["op"] in ops]
    done = set()
    if os.path.exists(rfile):
        done = {json.loads(l)["id"] for l in open(rfile)}
    ms = [m for m in ms if m["id"] not in done]
    print(f"{len(ms)} mutants to run", flush=True)
    pathlib.Path("/tmp/mut").mkdir(exist_ok=True)
    n = 0
    try:
        with open(rfile, "a") as out, cf.ThreadPoolExecutor(jobs) as ex:
            for r in ex.map(run_one, ms):
                out.write(json.dumps(r) + "\n")
                out.flush()
                n += 1
                if n % 50 == 0:
                    print(n, flush=True)
    finally:
        for wt in _wts:
            sh(f"git -C {REPO} worktree remove --force {wt}")
        sh(f"git -C {REPO} worktree prune")


def report(mfile, rfile):
    ms = {json.loads(l)["id"]: json.loads(l) for l in open(mfile)}
    rs = [json.loads(l) for l in open(rfile)]
    surv = [r for r in rs if r["survived"]]
    silent = [r for r in surv if not r.get("flagged") and not r.get("undecided")]
    print(f"mutants run={len(rs)} killed by the suite={len(rs) - len(surv)} survived={len(surv)} of which flagged by a check={len(surv) - len(silent)} silent={len(silent)}")
    by = {}
    for r in surv:
        m = ms[r["id"]]
        k = m["op"]
        by.setdefault(k, [0, 0])
        by[k][0] += 1
        by[k][1] += bool(r.get("flagged") or r.get("undecided"))
    for k, (a, b) in sorted(by.items()):
        print(f"  {k:10s} survived={a:4d} flagged={b:4d}")
    for r in silent:
        m = ms[r["id"]]
        print(f"SILENT {r['id']} {m['file']}:{m['line']} {m['func']} [{m['op']}] {m['what']}")


if __name__ == "__main__":
    a = sys.argv[1:]
    if a[0] == "gen":
        gen()
    elif a[0] == "gen2":
        # second-generation operators only (ids g00000…)
        Gen.GEN2 = True
        import io, contextlib
        buf = io.StringIO()
        with contextlib.redirect_stdout(buf):
            gen()
        n = 0
        for l in buf.getvalue().splitlines():
            m = json.loads(l)
            if m["op"] in ("drop-kw", "drop-opnd", "del-guard", "if-true", "slice", "method"):
                m["id"] = f"g{n:05d}"
                n += 1
                print(json.dumps(m))
    elif a[0] == "run":
        jobs, only, ops = 14, None, None
        rest = a[3:]
        while rest:
            if rest[0] == "--jobs":
                jobs = int(rest[1])
            elif rest[0] == "--only":
                only = rest[1]
            elif rest[0] == "--ops":
                ops = set(rest[1].split(","))
            rest = rest[2:]
        run(a[1], a[2], jobs, only, ops)
    elif a[0] == "recheck":
        # mutate.py recheck mutants.jsonl old_results.jsonl new_results.jsonl [--jobs N]: re-run the checks on the mutants the suite let through
        old = [json.loads(l) for l in open(a[2])]
        KNOWN_SURVIVORS.update(r["id"] for r in old if r["survived"])
        ms = [json.loads(l) for l in open(a[1])]
        tmp = a[3] + ".mutants"
        with open(tmp, "w") as fh:
            for m in ms:
                if m["id"] in KNOWN_SURVIVORS:
                    fh.write(json.dumps(m) + "\n")
        jobs = int(a[a.index("--jobs") + 1]) if "--jobs" in a else 14
        run(tmp, a[3], jobs, None, None)
        os.remove(tmp)
    elif a[0] == "report":
        report(a[1], a[2])
