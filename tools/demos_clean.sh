#!/bin/bash
# Run the demonstration of every kept seeded change against the *unchanged* tree (default /repo): each must exit 0.
# A demonstration that fails here shows a regression of the tree itself (e.g. of a repair), not a seeded defect.
root=${1:-/repo}
fail=0; n=0
for d in /verif/seeded/*/; do
  id=$(basename "$d"); n=$((n+1))
  out=$(cd /tmp && PYTHONPATH=$root/src timeout 180 /venv/bin/python -W ignore "$d/demo.py" 2>&1); rc=$?
  if [ $rc -ne 0 ]; then echo "== $id exit=$rc"; echo "$out" | tail -3 | cut -c1-250; fail=$((fail+1)); fi
done
# ... and the reproductions of the defects repaired after the third hunt (written by the hunters, kept under /verif/repaired):
# each exits 1 while its defect is present and 0 on the repaired tree.
for r in /verif/repaired/*/*.py; do
  [ -e "$r" ] || continue
  n=$((n+1))
  out=$(cd /tmp && PYTHONPATH=$root/src timeout 180 /venv/bin/python -W ignore "$r" 2>&1); rc=$?
  if [ $rc -ne 0 ]; then echo "== $r exit=$rc"; echo "$out" | tail -3 | cut -c1-250; fail=$((fail+1)); fi
done
echo "demonstrations: $n, failing on the unchanged tree: $fail"
[ $fail -eq 0 ]
