#!/bin/bash
# Re-confirm every kept seeded change against the current /repo HEAD and the current checks.
cd /verif
for d in seeded/*/; do
  id=$(basename $d)
  prop=$(/venv/bin/python -c "import json;print(json.load(open('$d/meta.json'))['property'])")
  what=$(/venv/bin/python -c "import json;print(json.load(open('$d/meta.json')).get('what',''))")
  needs=$(/venv/bin/python -c "import json;print(json.load(open('$d/meta.json')).get('needs_to_manifest',''))")
  hist=$(/venv/bin/python -c "import json;print(json.load(open('$d/meta.json')).get('history',''))")
  cp $d/patch.diff /tmp/_p_$id.diff; cp $d/demo.py /tmp/_d_$id.py
  /venv/bin/python tools/seed.py /tmp/_p_$id.diff /tmp/_d_$id.py $prop $id --what "$what" --needs "$needs" 2>&1 | grep "caught_by\|confirmed=False\|NOT APPLY" | cut -c1-200
  /venv/bin/python - <<PY
import json
p='/verif/seeded/$id/meta.json'
d=json.load(open(p)); d['history']="""$hist"""; json.dump(d,open(p,'w'),indent=1)
PY
  rm -f /tmp/_p_$id.diff /tmp/_d_$id.py
done
