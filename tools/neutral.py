#!/venv/bin/python
"""Run the registered checks against a behaviour-preserving change (false-alarm test).

usage: neutral.py <patch> <property> <neutral-id> [--what "..."] [--skip-suite]

The patch is applied in a scratch git worktree of /repo (under /tmp, removed afterwards); the pinned suite must still give
the baseline result; every registered quick check is run against the worktree (TLVERIF_REPO) and must exit 0.
/verif/neutral/<neutral-id>/{patch.diff,meta.json} is written.
"""
import argparse
import concurrent.futures as cf
import json
import os
import pathlib
import re
import shutil
import subprocess
import sys

VERIF = pathlib.Path(__file__).resolve().parent.parent
REPO = pathlib.Path("/repo")
PY = "/venv/bin/python"


def sh(cmd, cwd=None, env=None):
    r = subprocess.run(cmd, shell=True, cwd=cwd, env=env, capture_output=True, text=True)
    return r.returncode, (r.stdout + r.stderr)


def run_checks(repo_path):
    man = json.loads((VERIF / "MANIFEST.json").read_text())
    env = dict(os.environ, TLVERIF_NO_EVIDENCE="1", TLVERIF_REPO=str(repo_path))
    res = {}
    with cf.ThreadPoolExecutor(8) as ex:
        futs = {ex.submit(sh, c["quick_cmd"], VERIF, env): c["property_id"] for c in man["checks"]}
        for f in cf.as_completed(futs):
            c, o = f.result()
            res[futs[f]] = (c, o)
    return res


def main():
    ap = argparse.ArgumentParser()
    ap.add_argument("patch")
    ap.add_argument("prop")
    ap.add_argument("nid")
    ap.add_argument("--what", default="")
    ap.add_argument("--skip-suite", action="store_true")
    a = ap.parse_args()
    a.patch = str(pathlib.Path(a.patch).resolve())
    wt = pathlib.Path(f"/tmp/neutralwt-{a.nid}")
    sh(f"git -C {REPO} worktree remove --force {wt}")
    code, out = sh(f"git -C {REPO} worktree add -q --detach {wt} HEAD")
    if code:
        print(out)
        return 2
    try:
        code, out = sh(f"git apply --3way {a.patch} 2>&1 || git apply {a.patch}", cwd=wt)
        if code:
            print(f"[{a.nid}] PATCH DOES NOT APPLY\n" + out[-500:])
            return 2
        patch_text = sh("git diff HEAD -- src", cwd=wt)[1]
        suite = "skipped"
        if not a.skip_suite:
            env = dict(os.environ, PYTHONPATH=f"{wt}/src")
            suite = sh(f"{PY} -m pytest -q -p no:cacheprovider 2>&1 | tail -1", cwd=wt, env=env)[1].strip()
            if not (re.search(r"\b1434 passed", suite) and "failed" not in suite):
                print(f"[{a.nid}] suite changed: {suite}")
                return 3
        res = run_checks(wt)
        alarms = {p: (c, o) for p, (c, o) in res.items() if c != 0}
        print(f"[{a.nid}] suite='{suite}' alarms={ {p: c for p, (c, _) in sorted(alarms.items())} }")
        for p, (c, o) in sorted(alarms.items()):
            for line in o.splitlines():
                if re.search(r"VIOLATION|UNDECIDED|ANALYSIS-ERROR|rule \S+ at", line):
                    print("    " + line[:260])
        out_dir = VERIF / "neutral" / a.nid
        out_dir.mkdir(parents=True, exist_ok=True)
        (out_dir / "patch.diff").write_text(patch_text)
        old = {}
        if (out_dir / "meta.json").exists():
            try:
                old = json.loads((out_dir / "meta.json").read_text())
            except ValueError:
                old = {}
        if suite == "skipped" and old.get("suite_with_change", "skipped") != "skipped":
            suite = old["suite_with_change"] + " (earlier run; checks re-run only)"
        meta = {
            **old,
            "neutral_id": a.nid,
            "property": a.prop,
            "what": a.what or old.get("what", ""),
            "suite_with_change": suite,
            "checks_not_silent": {p: c for p, (c, _) in sorted(alarms.items())},
            "source": "independent sub-agent given only the property text and a scratch worktree, asked for a behaviour-preserving refactoring",
        }
        (out_dir / "meta.json").write_text(json.dumps(meta, indent=1) + "\n")
        return 1 if alarms else 0
    finally:
        sh(f"git -C {REPO} worktree remove --force {wt}")
        shutil.rmtree(wt, ignore_errors=True)


if __name__ == "__main__":
    sys.exit(main())
