#!/bin/bash
# usage: ntry.sh <neutral-id> [props...]  -> applies the kept neutral patch to a scratch copy and runs the given checks (default: those recorded as not silent)
id=$1; shift
root=/tmp/wt/ntry-$id; rm -rf $root; mkdir -p $root; cp -r /repo/src $root/src; (cd $root && patch -p1 -s < /verif/neutral/$id/patch.diff) || exit 2
props="$@"; [ -z "$props" ] && props=$(/venv/bin/python -c "import json;print(' '.join(json.load(open('/verif/neutral/$id/meta.json'))['checks_not_silent']))")
cd /verif; for p in $props; do TLVERIF_REPO=$root TLVERIF_NO_EVIDENCE=1 /venv/bin/python -m tlverif $p 2>&1 | grep "^\[C\|rule R\|UNDEC\|ANALYSIS\|Trace" -A1 | grep -v "^--" | cut -c1-${W:-300}; done
rm -rf $root
