#!/venv/bin/python
"""Confirm a seeded change and run the registered checks against it.

usage: seed.py <patch> <demo> <property> <seed-id> [--needs "..."]

1. In a scratch git worktree of /repo (under /tmp, removed afterwards): the patch applies, the pinned suite still gives the
   baseline result, the demonstration fails with the change and passes without it.
2. The patch is applied to /repo itself, every registered quick check is run, and the patch is undone straight afterwards.
3. /verif/seeded/<seed-id>/{patch.diff,demo.py,meta.json} is written.
NOTE: the patch is applied to /repo itself for the duration of the run: never run two of these at once, and never while a
self-test (which copies /repo/src for every patch it tries) is running -- the two must not overlap.
"""
import argparse
import json
import pathlib
import re
import shutil
import subprocess
import sys

VERIF = pathlib.Path(__file__).resolve().parent.parent
REPO = pathlib.Path("/repo")
PY = "/venv/bin/python"


def sh(cmd, cwd=None, env=None):
    r = subprocess.run(cmd, shell=True, cwd=cwd, env=env, capture_output=True, text=True)
    return r.returncode, (r.stdout + r.stderr)


def main():
    ap = argparse.ArgumentParser()
    ap.add_argument("patch")
    ap.add_argument("demo")
    ap.add_argument("prop")
    ap.add_argument("seed_id")
    ap.add_argument("--needs", default="")
    ap.add_argument("--what", default="")
    a = ap.parse_args()
    import os

    wt = pathlib.Path(f"/tmp/seedwt-{a.seed_id}")
    sh(f"git -C {REPO} worktree remove --force {wt}")
    code, out = sh(f"git -C {REPO} worktree add -q --detach {wt} HEAD")
    if code:
        print(out)
        return 2
    ran = []
    try:
        env = dict(os.environ, PYTHONPATH=f"{wt}/src")
        code, out = sh(f"git apply --3way {a.patch} 2>&1 || git apply {a.patch}", cwd=wt)
        ran.append(f"git apply (scratch worktree at {sh(f'git -C {REPO} rev-parse --short HEAD')[1].strip()}): exit {code}")
        if code:
            print("PATCH DOES NOT APPLY\n" + out)
            return 2
        patch_text = sh("git diff HEAD -- src", cwd=wt)[1]
        code, out = sh(f"{PY} -m pytest -q -p no:cacheprovider 2>&1 | tail -1", cwd=wt, env=env)
        suite = out.strip()
        ran.append(f"suite with change: {suite}")
        ok_suite = bool(re.search(r"\b1434 passed", suite)) and "failed" not in suite
        demo_src = pathlib.Path(a.demo).read_text()
        demo_tmp = wt / "_demo.py"
        demo_tmp.write_text(demo_src.replace("/tmp/wt/" + a.prop, str(wt)))
        code_with, out_with = sh(f"{PY} {demo_tmp}", cwd=wt, env=env)
        ran.append(f"demo with change: exit {code_with}")
        sh("git reset -q --hard HEAD", cwd=wt)
        code_without, out_without = sh(f"{PY} {demo_tmp}", cwd=wt, env=env)
        ran.append(f"demo without change: exit {code_without}")
        confirmed = ok_suite and code_with != 0 and code_without == 0
        print(f"[{a.seed_id}] suite='{suite}' demo_with={code_with} demo_without={code_without} confirmed={confirmed}")
        if not confirmed:
            print(out_with[-800:])
            print(out_without[-800:])
            return 3
        # run the checks on /repo itself
        pf = wt / "_patch.diff"
        pf.write_text(patch_text)
        if sh("git status --porcelain", cwd=REPO)[1].strip():
            print("/repo is not clean; refusing")
            return 2
        man0 = json.loads((VERIF / "MANIFEST.json").read_text())
        env0 = dict(os.environ, TLVERIF_NO_EVIDENCE="1")
        import concurrent.futures as cf

        def _par(cmds, env):
            with cf.ThreadPoolExecutor(10) as ex:
                return list(ex.map(lambda c: sh(c, cwd=VERIF, env=env), cmds))

        if os.environ.get("SEED_SKIP_CLEAN"):
            dirty = []
        else:
            dirty = [c["property_id"] for c, r in zip(man0["checks"], _par([c["quick_cmd"] for c in man0["checks"]], env0)) if r[0] != 0]
        if dirty:
            print(f"checks {dirty} are not silent on the unchanged tree; fix that first")
            return 2
        code, out = sh(f"git apply {pf}", cwd=REPO)
        if code:
            print("cannot apply to /repo: " + out)
            return 2
        results = {}
        try:
            man = json.loads((VERIF / "MANIFEST.json").read_text())
            env2 = dict(os.environ, TLVERIF_NO_EVIDENCE="1")
            for chk, (c, o) in zip(man["checks"], _par([c["quick_cmd"] for c in man["checks"]], env2)):
                pid = chk["property_id"]
                viol = re.findall(r"rule (\S+) at (\S+): (\S+)", o)
                results[pid] = {"exit": c, "violations": [v[2] for v in viol], "undecided": re.findall(r"UNDECIDED property=\S+ (\S+)", o), "errors": re.findall(r"ANALYSIS-ERROR property=\S+ (.*)", o)[:2]}
        finally:
            sh("git checkout -- .", cwd=REPO)
        assert not sh("git status --porcelain", cwd=REPO)[1].strip()
        caught = {p: r for p, r in results.items() if r["exit"] == 1}
        broken = {p: r for p, r in results.items() if r["exit"] not in (0, 1)}
        print(f"[{a.seed_id}] caught_by={sorted(caught)} analysis_broken={sorted(broken)}")
        for p, r in caught.items():
            print(f"    {p}: {r['violations'][:3]}")
        for p, r in broken.items():
            print(f"    {p}: undecided={r['undecided'][:2]} errors={r['errors'][:1]}")
        out_dir = VERIF / "seeded" / a.seed_id
        out_dir.mkdir(parents=True, exist_ok=True)
        (out_dir / "patch.diff").write_text(patch_text)
        (out_dir / "demo.py").write_text(demo_src)
        meta = {
            "seed_id": a.seed_id,
            "property": a.prop,
            "what": a.what,
            "needs_to_manifest": a.needs,
            "ran": ran,
            "confirmed": confirmed,
            "checks_on_repo_with_patch": {p: {"exit": r["exit"], "violations": r["violations"][:5], "undecided": r["undecided"][:3]} for p, r in results.items() if r["exit"] != 0},
            "caught_by": sorted(caught),
            "source": "independent sub-agent given only the property text and a scratch worktree",
        }
        prev_file = out_dir / "meta.json"
        if prev_file.exists():
            # a re-run keeps the hand-written annotations
            prev = json.loads(prev_file.read_text())
            for k in ("what", "needs_to_manifest", "history"):
                if not meta.get(k) and prev.get(k):
                    meta[k] = prev[k]
        (out_dir / "meta.json").write_text(json.dumps(meta, indent=1) + "\n")
        return 0 if caught else 1
    finally:
        sh(f"git -C {REPO} worktree remove --force {wt}")
        shutil.rmtree(wt, ignore_errors=True)


if __name__ == "__main__":
    sys.exit(main())
