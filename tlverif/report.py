"""Obligations, verdicts, evidence files, known findings."""

from __future__ import annotations

import dataclasses
import hashlib
import json
import os
import pathlib
import time

VERIF = pathlib.Path(__file__).resolve().parent.parent
KNOWN_FILE = VERIF / "known_findings.json"


@dataclasses.dataclass
class Obligation:
    rule: str
    key: str  # rule@construct#detail — never a line number
    status: str  # held | violated | undecided
    loc: str
    text: str
    facts: dict = dataclasses.field(default_factory=dict)
    nontrivial: bool = True  # discharged by a path / table / dataflow fact, not a mere presence

    def as_json(self):
        return {
            "rule": self.rule,
            "key": self.key,
            "status": self.status,
            "loc": self.loc,
            "text": self.text,
            "facts": self.facts,
        }


class Report:
    def __init__(self, prop: str, tier: str):
        self.prop = prop
        self.tier = tier
        self.obligations: list[Obligation] = []
        self.rules: dict[str, dict] = {}
        self.notes: list[str] = []
        self.counters: dict[str, int] = {}
        self.errors: list[str] = []
        self.t0 = time.time()
        self.extra: dict = {}

    # ---------------------------------------------------------------- recording
    def rule(self, rid: str, text: str, floor: int = 1):
        self.rules[rid] = {"text": text, "floor": floor, "instances": 0}

    def _add(self, rule, construct, status, loc, text, facts, detail, nontrivial):
        if rule not in self.rules:
            raise KeyError(f"rule {rule} not declared")
        key = f"{rule}@{construct}" + (f"#{detail}" if detail else "")
        self.rules[rule]["instances"] += 1
        ob = Obligation(rule, key, status, loc, text, facts or {}, nontrivial)
        self.obligations.append(ob)
        return ob

    def held(self, rule, construct, loc, text, facts=None, detail=None, nontrivial=True):
        return self._add(rule, construct, "held", loc, text, facts, detail, nontrivial)

    def violated(self, rule, construct, loc, text, facts=None, detail=None):
        return self._add(rule, construct, "violated", loc, text, facts, detail, True)

    def undecided(self, rule, construct, loc, text, facts=None, detail=None):
        return self._add(rule, construct, "undecided", loc, text, facts, detail, True)

    def check(self, cond, rule, construct, loc, text_ok, text_bad=None, facts=None, detail=None):
        if cond:
            return self.held(rule, construct, loc, text_ok, facts, detail)
        return self.violated(rule, construct, loc, text_bad or ("NOT: " + text_ok), facts, detail)

    def count(self, name: str, n: int = 1):
        self.counters[name] = self.counters.get(name, 0) + n

    def error(self, msg: str):
        self.errors.append(msg)

    # ---------------------------------------------------------------- verdict
    def finish(self, prog, seed: int, assumptions: list[str], trusted_base: list[str], explanation: str, exhaustive: bool = False) -> int:
        known = load_known()
        open_keys = {e["key"]: e for e in known.get("open", []) if e.get("property") == self.prop}
        for rid, r in self.rules.items():
            if r["instances"] < r["floor"]:
                self.error(f"rule {rid} matched {r['instances']} instances, floor is {r['floor']} (vacuity guard)")
        viol = [o for o in self.obligations if o.status == "violated"]
        und = [o for o in self.obligations if o.status == "undecided"]
        held = [o for o in self.obligations if o.status == "held"]
        unknown_viol = [o for o in viol if o.key not in open_keys]
        known_viol = [o for o in viol if o.key in open_keys]
        lines = []
        for o in known_viol:
            lines.append(f"KNOWN-FINDING: property={self.prop} {o.key} ({o.loc}) {open_keys[o.key].get('what', o.text)}")
        code = 0
        replay_dir = VERIF / "replay"
        quiet = bool(os.environ.get("TLVERIF_NO_EVIDENCE"))
        for o in unknown_viol:
            h = hashlib.sha1(o.key.encode()).hexdigest()[:10]
            rp = replay_dir / f"{self.prop}-{h}.json"
            if not quiet:
                replay_dir.mkdir(exist_ok=True)
                rp.write_text(json.dumps({"property": self.prop, **o.as_json()}, indent=1, default=str))
            lines.append(f"VIOLATION property={self.prop} replay={rp}")
            lines.append(f"  rule {o.rule} at {o.loc}: {o.key}")
            lines.append(f"  {o.text}")
            code = 1
        for o in und:
            lines.append(f"UNDECIDED property={self.prop} {o.key} ({o.loc}): {o.text}")
        for e in self.errors:
            lines.append(f"ANALYSIS-ERROR property={self.prop} {e}")
        if (und or self.errors) and code == 0:
            code = 2
        # stale known entries are reported (informational): a fixed defect keeps no suppression
        stale = [k for k in open_keys if k not in {o.key for o in viol}]
        for k in stale:
            lines.append(f"NOTE property={self.prop} known-finding entry {k} no longer reproduces (entry is inert)")
        wall = time.time() - self.t0
        nontrivial_keys = {o.key for o in self.obligations if o.nontrivial}
        samples = [o.as_json() for o in (unknown_viol + known_viol + und)[:6]]
        per_rule_seen = set()
        for o in held:
            if o.rule not in per_rule_seen and len(samples) < 24:
                per_rule_seen.add(o.rule)
                samples.append(o.as_json())
        ev = {
            "property_id": self.prop,
            "tier": self.tier,
            "seed": seed,
            "level": "other",
            "coverage": {
                "explanation": explanation,
                "evaluations": len(self.obligations),
                "distinct_nontrivial": len(nontrivial_keys),
                "rule": "one obligation per (rule, construct) instance filled from the repository's own source; "
                "distinct = distinct obligation keys; non-trivial = discharged by a path, dataflow or table fact "
                "rather than by mere presence of a symbol",
                "obligations": len(self.obligations),
                "discharged": len(held),
                "violated_known": len(known_viol),
                "violated_new": len(unknown_viol),
                "undecided": len(und),
                "rules": {rid: {"instances": r["instances"], "floor": r["floor"], "text": r["text"]} for rid, r in self.rules.items()},
                "modules_parsed": len(prog.modules) if prog else 0,
                "functions_indexed": len(prog.functions) if prog else 0,
                "classes_indexed": len(prog.classes) if prog else 0,
                "counters": self.counters,
                "samples": samples,
                "checker_cmd": f"/venv/bin/python -m tlverif {self.prop} --tier {self.tier}",
                "trusted_base": trusted_base,
                "exhaustive": exhaustive,
                "source_digests": prog.digests() if prog else {},
                "notes": self.notes,
                **self.extra,
            },
            "assumptions": assumptions,
            "wall_s": round(wall, 3),
            "violations": len(unknown_viol),
        }
        if not quiet:
            evdir = VERIF / "evidence"
            evdir.mkdir(exist_ok=True)
            (evdir / f"{self.prop}.json").write_text(json.dumps(ev, indent=1, default=str) + "\n")
        print(
            f"[{self.prop}] tier={self.tier} rules={len(self.rules)} obligations={len(self.obligations)} "
            f"held={len(held)} known={len(known_viol)} new-violations={len(unknown_viol)} undecided={len(und)} "
            f"errors={len(self.errors)} wall={wall:.2f}s"
        )
        for rid, r in self.rules.items():
            print(f"  {rid}: {r['instances']} instance(s) (floor {r['floor']}) — {r['text']}")
        for ln in lines:
            print(ln)
        return code


def load_known() -> dict:
    if not KNOWN_FILE.exists():
        return {"open": [], "fixed": []}
    return json.loads(KNOWN_FILE.read_text())


def write_failure_evidence(prop: str, tier: str, seed: int, msg: str):
    if os.environ.get("TLVERIF_NO_EVIDENCE"):
        return
    ev = {
        "property_id": prop,
        "tier": tier,
        "seed": seed,
        "level": "other",
        "coverage": {"explanation": "analysis could not be carried out: " + msg, "evaluations": 0, "distinct_nontrivial": 0},
        "assumptions": [],
        "wall_s": 0.0,
        "violations": 0,
    }
    evdir = VERIF / "evidence"
    evdir.mkdir(exist_ok=True)
    (evdir / f"{prop}.json").write_text(json.dumps(ev, indent=1) + "\n")


def seed_from_env() -> int:
    try:
        return int(os.environ.get("VERIF_SEED", "0"))
    except ValueError:
        return 0


def absorb(rep: "Report", sub: "Report", mapping: dict[str, str]):
    """Copy the obligations a shared rule function recorded in `sub` into `rep` under this property's rule ids."""
    for o in sub.obligations:
        new = mapping.get(o.rule)
        if new is None:
            continue
        o.key = o.key.replace(o.rule + "@", new + "@", 1)
        o.rule = new
        rep.obligations.append(o)
        rep.rules[new]["instances"] += 1
