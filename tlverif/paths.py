"""Symbolic evaluation of expressions to terms and enumeration of acyclic paths of a function.

A *path* is one way control can run through a function body with loops taken zero or one
time, every `if` decided, a `with contextlib.suppress(...)` body either completing or being
abandoned at one of its statements, and a `try` body either completing or being abandoned
at one of its statements into each handler.  Along the path we record *events* over terms:

    ('assign', name, term)
    ('guard', term, polarity)          branch condition known true / false on this path
    ('eval', term)                     expression statement
    ('setattr', base, attr, value)
    ('setitem', base, index, value)
    ('delete', term)
    ('enter', ctxterm) / ('exit', ctxterm)
    ('loop', iterterm, taken)          a for loop was entered (taken=1) or skipped (0)
    ('suppressed', ctxterm, stmt_index)    control left a suppress body abnormally
    ('caught', handler_type_term)      control entered an except handler
    ('yield', term)

and the way the path leaves: exit = ('return', term) | ('raise', term) | ('fall',).
"""

from __future__ import annotations

import ast
import os
import dataclasses
import typing as t

from . import terms as T
from .model import AnalysisError, FuncInfo, Module, Program

MAX_PATHS = 4096

_CMP = {
    ast.Eq: "==", ast.NotEq: "!=", ast.Lt: "<", ast.LtE: "<=", ast.Gt: ">", ast.GtE: ">=",
    ast.Is: "is", ast.IsNot: "isnot", ast.In: "in", ast.NotIn: "notin",
}  # fmt: skip
_BIN = {
    ast.Add: "+", ast.Sub: "-", ast.Mult: "*", ast.Div: "/", ast.FloorDiv: "//", ast.Mod: "%",
    ast.Pow: "**", ast.BitOr: "|", ast.BitAnd: "&", ast.BitXor: "^", ast.LShift: "<<",
    ast.RShift: ">>", ast.MatMult: "@",
}  # fmt: skip
_UN = {ast.USub: "-", ast.UAdd: "+", ast.Invert: "~"}


@dataclasses.dataclass
class Path:
    events: list
    exit: tuple
    env: dict

    def guards(self, upto: int | None = None) -> list[tuple]:
        ev = self.events if upto is None else self.events[:upto]
        return [(e[1], e[2]) for e in ev if e[0] == "guard"]

    def all_terms(self) -> t.Iterator[tuple]:
        for e in self.events:
            for x in e[1:]:
                if isinstance(x, tuple) and x and isinstance(x[0], str):
                    yield x
        if len(self.exit) > 1 and self.exit[1] is not None:
            yield self.exit[1]

    def calls(self) -> list[tuple]:
        out = []
        for tm in self.all_terms():
            out.extend(T.calls_in(tm))
        return out


# private helpers that rules analyse by name (their own paths, guards and yields): a call to them stays a call
ANCHORED_TABLES = {"_UNRESOLVABLE", "_COLLECTIONS", "_UNWRAPPABLE", "_MAPPING_TYPES", "BUILTIN_TYPES", "STDLIB_TYPES", "BUILTIN_TYPES_TUPLE", "STDLIB_TYPES_TUPLE", "GENERIC_TYPE_MAP", "_GENERICS", "_HANDLERS", "_BINDING_CLS_MATRIX", "_stack"}
NOT_INLINED = {"typelib.graph._level", "typelib.serdes._make_fields_iterator", "typelib.serdes._is_iterable_of_pairs", "typelib.binding._get_binding", "typelib.py.inspection._hints_from_signature", "typelib.py.refs._resolve_module_name", "typelib.serdes._isoformat_duration"}


def _int_constant(prog: Program, dotted: str, _depth: int = 0):
    """The value of a private module-level name of the package that is bound once to an integer literal or to +, -, *, //
    of such names and literals; None for anything else."""
    if not dotted.startswith("typelib.") or _depth > 4:
        return None
    mn, _, nm = dotted.rpartition(".")
    mod = prog.modules.get(mn)
    if mod is None or nm not in mod.assigns or not nm.startswith("_") or nm in mod.functions or nm in mod.classes:
        return None

    def ev(e):
        if isinstance(e, ast.Constant) and type(e.value) is int:
            return e.value
        if isinstance(e, ast.Name):
            return _int_constant(prog, prog.resolve_name(mod, e.id), _depth + 1)
        if isinstance(e, ast.BinOp) and isinstance(e.op, (ast.Add, ast.Sub, ast.Mult, ast.FloorDiv)):
            a, b = ev(e.left), ev(e.right)
            if a is None or b is None or (isinstance(e.op, ast.FloorDiv) and b == 0):
                return None
            return {ast.Add: a + b, ast.Sub: a - b, ast.Mult: a * b, ast.FloorDiv: a // b if b else None}[type(e.op)]
        return None

    return ev(mod.assigns[nm])


class Evaluator:
    """Evaluates expressions of one function (or of module level) to terms."""

    def __init__(self, prog: Program, mod: Module, func: FuncInfo | None = None, outer_env: dict | None = None):
        self.prog = prog
        self.mod = mod
        self.func = func
        self.params = set(func.params) if func else set()
        self.outer_env = outer_env or {}
        self.self_class = (func.bound or func.cls) if func else None

    # -------------------------------------------------------------- names
    def name(self, n: str, env: dict) -> tuple:
        if n in env:
            return env[n]
        if n in self.params:
            return T.param(n)
        if n in self.outer_env:
            return self.outer_env[n]
        full = self.prog.resolve_name(self.mod, n)
        k = _int_constant(self.prog, full)
        if k is not None:
            return T.const(k)  # (an integer that has been given a name at module level: `_USEC_PER_DAY = 86_400 * _USEC_PER_SECOND`)
        return T.ref(full)

    # -------------------------------------------------------------- expressions
    def expr(self, e: ast.expr | None, env: dict) -> tuple | None:
        if e is None:
            return None
        m = getattr(self, "e_" + type(e).__name__, None)
        if m is None:
            return ("unknown", type(e).__name__)
        return m(e, env)

    def e_Name(self, e, env):
        return self.name(e.id, env)

    def e_Constant(self, e, env):
        return T.const(e.value)

    def e_Attribute(self, e, env):
        base = self.expr(e.value, env)
        # a self attribute stored earlier on this path reads back as the stored value
        if base == ("param", "self") and ("self." + e.attr) in env:
            return env["self." + e.attr]
        if base == ("param", "self") and self.self_class is not None:
            v = self._class_attr(e.attr)
            if v is not None:
                return v
        if base[0] == "ref":
            # attribute of a module-level *variable* of the package stays an attribute access
            # (`_stack.add`), everything else (modules, classes, stdlib objects) folds into a dotted name
            mn, _, nm = base[1].rpartition(".")
            mod = self.prog.modules.get(mn)
            if mod is not None and nm in mod.assigns and nm not in mod.functions and nm not in mod.classes:
                return T.attr(base, e.attr)
            return T.ref(self.prog.canonical(f"{base[1]}.{e.attr}"))
        return T.attr(base, e.attr)

    def _class_attr(self, attr: str):
        """`self.x` where x is a plain class-level constant of the concrete class (nearest definition in its MRO) and no
        method of those classes ever stores self.x: the constant itself (`staticmethod(f)` reads back as f)."""
        if attr.startswith("__"):
            return None
        mro = self.prog.mro(self.self_class)
        for c in mro:
            for m in c.methods.values():
                for n in ast.walk(m.node):
                    if isinstance(n, ast.Attribute) and isinstance(n.ctx, ast.Store) and n.attr == attr and isinstance(n.value, ast.Name) and n.value.id == "self":
                        return None
        for c in mro:
            if attr in c.methods:
                return None
            if attr in c.assigns:
                v = Evaluator(self.prog, c.module).expr(c.assigns[attr], {})
                if v is not None and T.is_call_to(v, "builtins.staticmethod") and len(v[2]) == 1:
                    v = v[2][0]
                return v
        return None

    def e_Call(self, e, env):
        f = self.expr(e.func, env)
        args = tuple(self.expr(a, env) for a in e.args)
        kw = tuple((k.arg, self.expr(k.value, env)) for k in e.keywords)
        # f(**dict(a=x, b=y)) / f(**{"a": x}) passes the keywords a=x, b=y
        if any(k is None for k, _ in kw):
            flat = []
            for k, v in kw:
                if k is None and T.is_call_to(v, "builtins.dict") and not v[2] and all(kk for kk, _ in v[3]):
                    flat.extend(v[3])
                elif k is None and v[0] == "dict" and v[1] and all(kv[0] is not None and kv[0][0] == "const" and isinstance(kv[0][1], str) for kv in v[1]):
                    flat.extend((kv[0][1], kv[1]) for kv in v[1])
                else:
                    flat.append((k, v))
            kw = tuple(flat)
        # typing.cast(T, x) is the identity on values
        if f == ("ref", "typing.cast") and len(args) == 2:
            return args[1]
        # f(*CONST) where CONST is a module-level tuple/list display of the package: the elements themselves
        if any(a[0] == "star" for a in args):
            out = []
            for a in args:
                items = self._const_display(a[1]) if a[0] == "star" else None
                out.extend(items if items is not None else (a,))
            args = tuple(out)
        inl = self._inline_helper(f, args, kw)
        if inl is not None:
            return inl
        fn = f[1] if f[0] == "ref" else None
        # "…{}…{:06}…".format(a, b) is the f-string with the same fields
        if f[0] == "attr" and f[2] == "format" and f[1][0] == "const" and isinstance(f[1][1], str) and not kw and not any(a[0] == "star" for a in args):
            fs = T.format_to_fstr(f[1][1], args)
            if fs is not None:
                return fs
        # x.__getitem__(k) is x[k]
        if f[0] == "attr" and f[2] == "__getitem__" and len(args) == 1 and not kw:
            return ("sub", f[1], args[0])
        # map(f, xs) is the generator (f(x) for x in xs)
        if fn == "builtins.map" and len(args) == 2 and not kw and args[0][0] != "lambda":
            callee = args[0]
            body = ("sub", callee[1], T.elem(args[1])) if callee[0] == "attr" and callee[2] == "__getitem__" else ("call", callee, (T.elem(args[1]),), ())
            return ("comp", "gen", body, ((args[1], "_"),), ())
        # tuple(<generator>) is (*<generator>,); list(<generator>) / set(<generator>) are the comprehensions
        if fn in ("builtins.tuple", "builtins.list", "builtins.set") and len(args) == 1 and not kw and args[0][0] == "comp" and args[0][1] == "gen":
            g = args[0]
            if fn == "builtins.tuple":
                return ("tuple", (("star", g),))
            return ("comp", fn.rsplit(".", 1)[1], g[2], g[3], g[4])
        # class tuples hoisted into module-level constants of the package read like the literal tuple
        if (fn in ("builtins.isinstance", "builtins.issubclass") or fn in self.prog.safe_subclass_helpers()) and len(args) == 2 and not kw:
            cl = args[1]
            if cl[0] == "ref" and cl[1].startswith("typelib.") or (cl[0] == "tuple" and any(x[0] == "star" for x in cl[1])):
                items = flatten_display(self.prog, cl)
                if items is not None and not any(x[0] == "star" for x in items):
                    args = (args[0], ("tuple", tuple(items)))
        return ("call", f, args, kw)

    def _const_display(self, t):
        if t[0] != "ref":
            return None
        mn, _, nm = t[1].rpartition(".")
        mod = self.prog.modules.get(mn)
        if mod is None or nm not in mod.assigns or nm in mod.functions or nm in mod.classes:
            return None
        items = flatten_display(self.prog, t)
        if items is not None and not any(x[0] == "star" for x in items):
            return items
        return None

    def _inline_helper(self, f, args, kw, _depth=[0]):
        """A call to a private, undecorated, module-level helper of the package whose body is one `return <expr>` is
        replaced by that expression (extracting such a helper, or inlining it, is not a change of behaviour)."""
        static = None
        if f[0] == "attr" and f[1] == ("param", "self") and self.self_class is not None and f[2].startswith("_") and not f[2].startswith("__") and _depth[0] <= 3:
            # ... likewise a private @staticmethod of the class, called on self (it cannot touch the instance)
            m = self.prog.lookup_method(self.self_class, f[2])
            if m is not None and [d for d in m.decorators if d] == ["builtins.staticmethod"] and len(m.node.decorator_list) == 1:
                static = m
        if static is None and (f[0] != "ref" or not f[1].startswith("typelib.") or _depth[0] > 3):
            return None
        if static is not None:
            nm, mod, fi = static.name, static.module, static
        else:
            mn, _, nm = f[1].rpartition(".")
            mod = self.prog.modules.get(mn)
            if mod is None or not nm.startswith("_") or nm.startswith("__") or f[1] in NOT_INLINED:
                return None
            fi = mod.functions.get(nm)
        if fi is None or (fi.node.decorator_list and static is None) or isinstance(fi.node, ast.AsyncFunctionDef):
            return None
        body = [st for st in fi.node.body if not (isinstance(st, ast.Expr) and isinstance(st.value, ast.Constant))]
        # straight-line helpers: plain local assignments followed by one `return <expr>`
        if not body or not isinstance(body[-1], ast.Return) or body[-1].value is None:
            return None
        for st in body[:-1]:
            is_names = lambda tg: isinstance(tg, ast.Name) or (isinstance(tg, ast.Tuple) and tg.elts and all(isinstance(x, ast.Name) for x in tg.elts))  # noqa: E731
            if not (isinstance(st, ast.Assign) and len(st.targets) == 1 and is_names(st.targets[0])) and not (isinstance(st, ast.AnnAssign) and isinstance(st.target, ast.Name) and st.value is not None):
                # ... or a helper whose only other statement is a collector loop (`out = ""` / `for …: out += f"…"` / `return out`):
                # one path, no test, the loop read as the comprehension it equals
                if static is None and isinstance(st, ast.For) and _depth[0] <= 2 and not any(x[0] == "star" for x in args) and not kw:
                    _depth[0] += 1
                    try:
                        hps = paths_of(self.prog, fi)
                    except AnalysisError:
                        hps = []
                    finally:
                        _depth[0] -= 1
                    if len(hps) == 1 and hps[0].exit[0] == "return" and not list(hps[0].guards()) and not any(e[0] in ("loop", "while") for e in hps[0].events) and len(args) == len(fi.params):
                        return substitute(hps[0].exit[1], dict(zip(fi.params, args)))
                return None
        a = fi.node.args
        if a.vararg or a.kwarg or any(x[0] == "star" for x in args) or any(k is None for k, _ in kw):
            return None
        for st in body:
            for n in ast.walk(st.value):
                if isinstance(n, (ast.Yield, ast.YieldFrom, ast.Await, ast.NamedExpr, ast.Lambda)):
                    return None
                if isinstance(n, ast.Name) and n.id == nm:
                    return None  # recursive
        pos = [x.arg for x in a.posonlyargs + a.args]
        if len(args) > len(pos):
            return None
        env = dict(zip(pos, args))
        allowed = set(x.arg for x in a.args + a.kwonlyargs)
        for k, v in kw:
            if k not in allowed or k in env:
                return None
            env[k] = v
        callee = Evaluator(self.prog, mod, fi)
        defaults = dict(zip(pos[len(pos) - len(a.defaults):], a.defaults))
        for x, d in zip(a.kwonlyargs, a.kw_defaults):
            if d is not None:
                defaults[x.arg] = d
        for name in pos + [x.arg for x in a.kwonlyargs]:
            if name not in env:
                if name not in defaults:
                    return None
                env[name] = callee.expr(defaults[name], {})
        _depth[0] += 1
        try:
            for st in body[:-1]:
                tg = st.targets[0] if isinstance(st, ast.Assign) else st.target
                if isinstance(tg, ast.Tuple):
                    # `a, b = x, y`: the right-hand side is evaluated first, then unpacked
                    callee.bind_target(tg, callee.expr(st.value, env), env)
                else:
                    env[tg.id] = callee.expr(st.value, env)
            return callee.expr(body[-1].value, env)
        finally:
            _depth[0] -= 1

    def e_Subscript(self, e, env):
        return ("sub", self.expr(e.value, env), self.expr(e.slice, env))

    def e_Slice(self, e, env):
        return ("slice", self.expr(e.lower, env), self.expr(e.upper, env), self.expr(e.step, env))

    def e_Starred(self, e, env):
        return ("star", self.expr(e.value, env))

    def e_Tuple(self, e, env):
        return ("tuple", tuple(self.expr(x, env) for x in e.elts))

    def e_List(self, e, env):
        items = tuple(self.expr(x, env) for x in e.elts)
        if len(items) == 1 and items[0][0] == "star" and items[0][1][0] == "comp" and items[0][1][1] == "gen":
            g = items[0][1]
            return ("comp", "list", g[2], g[3], g[4])  # [*(f(x) for x in xs)] is [f(x) for x in xs]
        return ("list", items)

    def e_Set(self, e, env):
        items = tuple(self.expr(x, env) for x in e.elts)
        if len(items) == 1 and items[0][0] == "star" and items[0][1][0] == "comp" and items[0][1][1] == "gen":
            g = items[0][1]
            return ("comp", "set", g[2], g[3], g[4])
        return ("set", items)

    def e_Dict(self, e, env):
        return ("dict", tuple((self.expr(k, env) if k is not None else None, self.expr(v, env)) for k, v in zip(e.keys, e.values)))

    def e_IfExp(self, e, env):
        return ("ifexp", self.expr(e.test, env), self.expr(e.body, env), self.expr(e.orelse, env))

    def e_BoolOp(self, e, env):
        return T.merge_class_tests(("boolop", "and" if isinstance(e.op, ast.And) else "or", tuple(self.expr(v, env) for v in e.values)))

    def e_UnaryOp(self, e, env):
        if isinstance(e.op, ast.Not):
            return ("not", self.expr(e.operand, env))
        v = self.expr(e.operand, env)
        if isinstance(e.op, ast.USub) and v[0] == "const" and isinstance(v[1], (int, float)):
            return T.const(-v[1])
        return ("unop", _UN.get(type(e.op), "?"), v)

    def e_BinOp(self, e, env):
        left, right = self.expr(e.left, env), self.expr(e.right, env)
        if isinstance(e.op, ast.Add):
            cat = T.concat_text(left, right)
            if cat is not None:
                return cat
        return ("binop", _BIN.get(type(e.op), "?"), left, right)

    def e_Compare(self, e, env):
        left = self.expr(e.left, env)
        parts = []
        for op, c in zip(e.ops, e.comparators):
            right = self.expr(c, env)
            if isinstance(op, (ast.In, ast.NotIn)) and right[0] == "ref" and right[1].startswith("typelib.") and right[1].rsplit(".", 1)[-1] not in ANCHORED_TABLES:
                # membership in a display that has been given a name at module level (`child in _UNTYPED`) is membership in
                # that display; the tables rules anchor on by name stay names
                items = flatten_display(self.prog, right)
                if items is not None and 1 <= len(items) <= 12 and not any(x[0] == "star" for x in items):
                    right = ("tuple", tuple(items))
            parts.append(("cmp", _CMP[type(op)], left, right))
            left = right
        return parts[0] if len(parts) == 1 else ("boolop", "and", tuple(parts))

    def e_JoinedStr(self, e, env):
        parts = []
        for v in e.values:
            if isinstance(v, ast.Constant):
                parts.append(T.const(v.value))
            else:
                spec = self.expr(v.format_spec, env) if v.format_spec is not None else None
                parts.append(("fmt", self.expr(v.value, env), v.conversion, spec))
        return ("fstr", tuple(parts))

    def e_FormattedValue(self, e, env):
        spec = self.expr(e.format_spec, env) if e.format_spec is not None else None
        return ("fmt", self.expr(e.value, env), e.conversion, spec)

    def e_Lambda(self, e, env):
        a = e.args
        names = [x.arg for x in a.posonlyargs + a.args + a.kwonlyargs]
        if a.vararg:
            names.append(a.vararg.arg)
        if a.kwarg:
            names.append(a.kwarg.arg)
        env2 = dict(env)
        for n in names:
            env2[n] = ("param", n)
        return ("lambda", tuple(names), self.expr(e.body, env2))

    def e_NamedExpr(self, e, env):
        v = self.expr(e.value, env)
        env[e.target.id] = v
        return v

    def e_Await(self, e, env):
        return ("await", self.expr(e.value, env))

    def e_Yield(self, e, env):
        return ("yield", self.expr(e.value, env))

    def e_YieldFrom(self, e, env):
        return ("yield", T.elem(self.expr(e.value, env)))

    def _comp(self, kind, e, elt_fn, env):
        env2 = dict(env)
        gens = []
        conds = []
        for g in e.generators:
            it = self.expr(g.iter, env2)
            self.bind_target(g.target, T.elem(it), env2)
            gens.append((it, ast.unparse(g.target)))
            for c in g.ifs:
                conds.append(self.expr(c, env2))
        return ("comp", kind, elt_fn(env2), tuple(gens), tuple(conds))

    def e_ListComp(self, e, env):
        return self._comp("list", e, lambda en: self.expr(e.elt, en), env)

    def e_SetComp(self, e, env):
        return self._comp("set", e, lambda en: self.expr(e.elt, en), env)

    def e_GeneratorExp(self, e, env):
        return self._comp("gen", e, lambda en: self.expr(e.elt, en), env)

    def e_DictComp(self, e, env):
        return self._comp("dict", e, lambda en: ("pair", self.expr(e.key, en), self.expr(e.value, en)), env)

    # -------------------------------------------------------------- targets
    def bind_target(self, tgt: ast.expr, val: tuple, env: dict, events: list | None = None):
        if isinstance(tgt, ast.Name):
            env[tgt.id] = val
            if events is not None:
                events.append(("assign", tgt.id, val))
        elif isinstance(tgt, (ast.Tuple, ast.List)):
            n = len(tgt.elts)
            starred = any(isinstance(x, ast.Starred) for x in tgt.elts)
            for i, x in enumerate(tgt.elts):
                if isinstance(x, ast.Starred):
                    self.bind_target(x.value, ("unpack", val, i, None), env, events)
                else:
                    self.bind_target(x, T.mk_unpack(val, i, None if starred else n), env, events)
        elif isinstance(tgt, ast.Attribute):
            base = self.expr(tgt.value, env)
            if events is not None:
                events.append(("setattr", base, tgt.attr, val))
            if base == ("param", "self"):
                env["self." + tgt.attr] = val
        elif isinstance(tgt, ast.Subscript):
            base = self.expr(tgt.value, env)
            idx = self.expr(tgt.slice, env)
            local = tgt.value.id if isinstance(tgt.value, ast.Name) and tgt.value.id in env else None
            if events is not None:
                events.append(("setitem", base, idx, val, local))
            # a local dict display accumulates what is stored into it
            if local is not None and base[0] == "dict":
                env[local] = ("dict", base[1] + ((idx, val),))
        elif isinstance(tgt, ast.Starred):
            self.bind_target(tgt.value, val, env, events)


class _State:
    __slots__ = ("env", "events")

    def __init__(self, env, events):
        self.env = env
        self.events = events

    def fork(self):
        return _State(dict(self.env), list(self.events))


def _split_guards(ev: Evaluator, test: ast.expr, env: dict) -> tuple[list, list]:
    """Return (facts when true, facts when false) as lists of (term, polarity)."""
    if isinstance(test, ast.UnaryOp) and isinstance(test.op, ast.Not):
        tt, ff = _split_guards(ev, test.operand, env)
        return ff, tt
    if isinstance(test, ast.BoolOp):
        # (evaluated on a scratch copy: an assignment expression inside the test binds once, when its operand is split below)
        whole = ev.expr(test, dict(env))
        if isinstance(test.op, ast.And):
            tt = []
            for v in test.values:
                tt += _split_guards(ev, v, env)[0]
            return tt, [(whole, False)]
        if whole[0] != "boolop":
            return [(whole, True)], [(whole, False)]  # isinstance(x, A) or isinstance(x, B) == isinstance(x, (A, B))
        ff = []
        group = None  # adjacent class tests on one subject are one fact
        for v in test.values:
            tm = ev.expr(v, dict(env))
            if T._class_test(tm):
                if group is not None and group[1] == tm[1] and group[2][0] == tm[2][0]:
                    group = T.merge_class_tests(("boolop", "or", (group, tm)))
                    ff[-1] = (group, False)
                    continue
                group = tm
            else:
                group = None
            ff += _split_guards(ev, v, env)[1]
        return [(whole, True)], ff
    tm = ev.expr(test, env)
    if tm[0] == "cmp" and tm[1] in _NEG_CMP:
        # `a is not b` holding is `a is b` failing: guards carry the positive comparator only
        tm = ("cmp", _NEG_CMP[tm[1]], tm[2], tm[3])
        return [(tm, False)], [(tm, True)]
    if tm[0] == "not":
        return [(tm[1], False)], [(tm[1], True)]
    return [(tm, True)], [(tm, False)]


_NEG_CMP = {"isnot": "is", "notin": "in", "!=": "=="}


class PathEnumerator:
    def __init__(self, prog: Program, func: FuncInfo, outer_env: dict | None = None):
        self.prog = prog
        self.func = func
        self.ev = Evaluator(prog, func.module, func, outer_env)
        self.count = 0
        self.nested: dict[str, ast.FunctionDef] = {}

    def paths(self) -> list[Path]:
        st = _State({}, [])
        # defaults of parameters are facts too
        out = []
        for s, status in self._block(self.func.node.body, st):
            if status[0] in ("break", "continue"):
                status = ("fall",)
            if status[0] == "normal":
                status = ("fall",)
            out.append(Path(s.events, status, s.env))
        return out

    def _collector_loop(self, s: ast.For, st: _State) -> bool:
        """`acc = []` … `for x in S: [if C:] acc.append(E)` is the comprehension `[E for x in S if C]` (same for
        set.add and dict item stores, for several accumulators filled under exclusive conditions, and for the
        `if C: continue` spelling of a filter).  Such a loop is evaluated to the comprehension terms, so that a rule
        sees one spelling.  Anything else in the body: not a collector loop, enumerated as a loop."""
        if s.orelse:
            return False
        ev = self.ev
        env2 = dict(st.env)
        it = ev.expr(s.iter, env2)
        ev.bind_target(s.target, T.elem(it), env2)
        records: list[tuple] = []  # (container, kind, conds, payload asts, env snapshot)
        aliases: dict[str, list] = {}

        def container(name):
            v = env2.get(name)
            if v in (("list", ()), ("set", ()), ("dict", ())):
                return v[0]
            if v == ("const", ""):
                return "str"  # `out = ""` … `out += f"…"`: the text "".join(…) builds
            if v is not None and T.is_call_to(v, "builtins.list", "builtins.set", "builtins.dict") and not v[2] and not v[3]:
                return T.refname(v[1]).rsplit(".", 1)[-1]
            # a list an earlier collector loop filled: this loop extends it (`[*first, *second]`)
            if v is not None and v[0] == "comp" and v[1] == "list":
                return "list"
            if v is not None and v[0] == "list" and v[1] and all(x[0] == "star" and x[1][0] == "comp" and x[1][1] == "list" for x in v[1]):
                return "list"
            return None

        def scan(stmts, conds) -> bool:
            for i, b in enumerate(stmts):
                if isinstance(b, ast.Expr) and isinstance(b.value, ast.Constant):
                    continue
                if (not conds and isinstance(b, ast.If) and not b.orelse and len(b.body) == 1 and isinstance(b.body[0], ast.Assign) and len(b.body[0].targets) == 1
                        and isinstance(b.body[0].targets[0], ast.Name) and b.body[0].targets[0].id in env2 and container(b.body[0].targets[0].id) is None
                        and b.body[0].targets[0].id not in aliases
                        and not any(isinstance(n, (ast.Yield, ast.YieldFrom, ast.Await, ast.NamedExpr)) for n in ast.walk(b))):  # fmt: skip
                    # `if C: x = f(x)` (nothing else in the branch): from here on x is `f(x) if C else x`
                    nm = b.body[0].targets[0].id
                    env2[nm] = ("ifexp", ev.expr(b.test, env2), ev.expr(b.body[0].value, env2), env2[nm])
                    continue
                if isinstance(b, ast.If):
                    body = list(b.body)
                    if body and isinstance(body[-1], ast.Continue) and not b.orelse:
                        if not scan(body[:-1], conds + [(b.test, True, dict(env2))]):
                            return False
                        return scan(stmts[i + 1 :], conds + [(b.test, False, dict(env2))])
                    if not scan(body, conds + [(b.test, True, dict(env2))]):
                        return False
                    if not scan(b.orelse, conds + [(b.test, False, dict(env2))]):
                        return False
                    continue
                if isinstance(b, ast.Expr) and isinstance(b.value, ast.Call) and isinstance(b.value.func, ast.Attribute) and isinstance(b.value.func.value, ast.Name) and len(b.value.args) == 1 and not b.value.keywords:
                    name, meth = b.value.func.value.id, b.value.func.attr
                    targets = aliases.get(name) or [(name, [])]
                    for tname, extra in targets:
                        kind = container(tname)
                        if (kind, meth) not in (("list", "append"), ("set", "add")):
                            return False
                        records.append((tname, kind, conds + extra, (b.value.args[0],), dict(env2)))
                    continue
                if isinstance(b, ast.AugAssign) and isinstance(b.op, ast.Add) and isinstance(b.target, ast.Name) and container(b.target.id) == "str" and isinstance(b.value, ast.JoinedStr):
                    records.append((b.target.id, "str", list(conds), (b.value,), dict(env2)))
                    continue
                if isinstance(b, ast.Assign) and len(b.targets) == 1 and isinstance(b.targets[0], ast.Subscript) and isinstance(b.targets[0].value, ast.Name) and container(b.targets[0].value.id) == "dict":
                    records.append((b.targets[0].value.id, "dict", list(conds), (b.targets[0].slice, b.value), dict(env2)))
                    continue
                if isinstance(b, (ast.Assign, ast.AnnAssign)) and (isinstance(b, ast.AnnAssign) or len(b.targets) == 1):
                    tg = b.target if isinstance(b, ast.AnnAssign) else b.targets[0]
                    if not isinstance(tg, ast.Name) or b.value is None or container(tg.id) is not None:
                        return False
                    v = b.value
                    if isinstance(v, ast.IfExp) and isinstance(v.body, ast.Name) and isinstance(v.orelse, ast.Name) and container(v.body.id) and container(v.orelse.id):
                        aliases[tg.id] = [(v.body.id, [(v.test, True, dict(env2))]), (v.orelse.id, [(v.test, False, dict(env2))])]
                        continue
                    if any(isinstance(n, (ast.Yield, ast.YieldFrom, ast.Await, ast.NamedExpr)) for n in ast.walk(v)):
                        return False
                    if conds:
                        # a local re-bound under a condition (`if C: x = f(x)` … `acc[k] = x`) has a different value on
                        # each branch: not the straight-line body of a comprehension -- enumerate the loop instead
                        return False
                    env2[tg.id] = ev.expr(v, env2)
                    aliases.pop(tg.id, None)
                    continue
                return False
            return True

        if not scan(list(s.body), []) or not records:
            return False
        names = [r[0] for r in records]
        tsrc = ast.unparse(s.target)

        def element(kind, payload, envr):
            if kind == "dict":
                return ("pair", ev.expr(payload[0], envr), ev.expr(payload[1], envr))
            return ev.expr(payload[0], envr)

        built = []
        done = set()
        for n, (name, kind, conds, payload, envr) in enumerate(records):
            if n in done:
                continue
            elt = element(kind, payload, envr)
            if names.count(name) == 2:
                # `if C: acc.append(X)` / `else: acc.append(Y)`: one element per item, chosen by C
                m = next(k for k in range(len(records)) if k != n and records[k][0] == name)
                _, kind2, conds2, payload2, envr2 = records[m]
                if not (m > n and kind2 == kind and kind != "str" and conds and conds2 and len(conds) == len(conds2)
                        and all(a[0] is b[0] and a[1] == b[1] for a, b in zip(conds[:-1], conds2[:-1]))
                        and conds[-1][0] is conds2[-1][0] and conds[-1][1] is True and conds2[-1][1] is False):  # fmt: skip
                    return False
                elt2 = element(kind2, payload2, envr2)
                test = ev.expr(conds[-1][0], conds[-1][2])
                if kind == "dict":
                    if elt[1] != elt2[1]:
                        return False
                    elt = ("pair", elt[1], ("ifexp", test, elt[2], elt2[2]))
                else:
                    elt = ("ifexp", test, elt, elt2)
                conds = conds[:-1]
                done.add(m)
            elif names.count(name) != 1:
                return False
            cterms = []
            for test, pol, envc in conds:
                tm = ev.expr(test, envc)
                cterms.append(tm if pol else T.negate(tm))
            comp = ("comp", kind, elt, ((it, tsrc),), tuple(cterms))
            if kind == "str":
                comp = ("call", ("attr", ("const", ""), "join"), (("comp", "gen", elt, ((it, tsrc),), tuple(cterms)),), ())
            prior = st.env.get(name)
            if kind == "list" and prior is not None and prior[0] == "comp":
                comp = ("list", (("star", prior), ("star", comp)))
            elif kind == "list" and prior is not None and prior[0] == "list" and prior[1]:
                comp = ("list", prior[1] + (("star", comp),))
            built.append((name, comp))
        for name, comp in built:
            st.env[name] = comp
            st.events.append(("assign", name, comp))
        return True

    # status: ('normal',) ('return', term) ('raise', term) ('break',) ('continue',)
    def _block(self, stmts: list[ast.stmt], st: _State) -> list[tuple[_State, tuple]]:
        states = [(st, ("normal",))]
        for s in stmts:
            nxt = []
            for cur, status in states:
                if status[0] != "normal":
                    nxt.append((cur, status))
                    continue
                nxt.extend(self._stmt(s, cur))
            states = nxt
            self.count = max(self.count, len(states))
            if len(states) > MAX_PATHS:
                raise AnalysisError(f"path bound exceeded in {self.func.qualname}")
        return states

    def _stmt(self, s: ast.stmt, st: _State) -> list[tuple[_State, tuple]]:
        ev = self.ev
        N = ("normal",)
        if isinstance(s, ast.Expr):
            if isinstance(s.value, ast.Constant):
                return [(st, N)]
            tm = ev.expr(s.value, st.env)
            if tm[0] == "yield":
                st.events.append(("yield", tm[1]))
            else:
                # `s.update((a, b))` on a set is `s.add(a); s.add(b)`
                if (
                    tm[0] == "call" and tm[1][0] == "attr" and tm[1][2] == "update" and len(tm[2]) == 1 and not tm[3]
                    and tm[2][0][0] in ("tuple", "list", "set") and (tm[1][1][0] == "set" or T.is_call_to(tm[1][1], "builtins.set"))
                    and not any(x[0] == "star" for x in tm[2][0][1])
                ):  # fmt: skip
                    for x in tm[2][0][1]:
                        st.events.append(("eval", ("call", ("attr", tm[1][1], "add"), (x,), ())))
                else:
                    st.events.append(("eval", tm))
                self._accumulate(s.value, tm, st)
            return [(st, N)]
        if isinstance(s, ast.Assign):
            v = ev.expr(s.value, st.env)
            for tg in s.targets:
                ev.bind_target(tg, v, st.env, st.events)
            return [(st, N)]
        if isinstance(s, ast.AnnAssign):
            if s.value is not None:
                v = ev.expr(s.value, st.env)
                ev.bind_target(s.target, v, st.env, st.events)
            return [(st, N)]
        if isinstance(s, ast.AugAssign):
            cur = ev.expr(s.target, st.env)
            v = ("binop", _BIN.get(type(s.op), "?") + "=", cur, ev.expr(s.value, st.env))
            ev.bind_target(s.target, v, st.env, st.events)
            return [(st, N)]
        if isinstance(s, ast.Return):
            v = ev.expr(s.value, st.env) if s.value is not None else T.const(None)
            return [(st, ("return", v))]
        if isinstance(s, ast.Raise):
            v = ev.expr(s.exc, st.env) if s.exc is not None else ("unknown", "reraise")
            return [(st, ("raise", v))]
        if isinstance(s, ast.Pass):
            return [(st, N)]
        if isinstance(s, ast.Break):
            return [(st, ("break",))]
        if isinstance(s, ast.Continue):
            return [(st, ("continue",))]
        if isinstance(s, (ast.Global, ast.Nonlocal)):
            st.events.append(("scope", type(s).__name__.lower(), tuple(s.names)))
            return [(st, N)]
        if isinstance(s, (ast.Import, ast.ImportFrom)):
            for a in s.names:
                local = a.asname or a.name.split(".")[0]
                full = a.name if isinstance(s, ast.Import) else f"{s.module}.{a.name}"
                st.env[local] = T.ref(full if a.asname or isinstance(s, ast.ImportFrom) else a.name.split(".")[0])
            return [(st, N)]
        if isinstance(s, ast.Delete):
            for tg in s.targets:
                st.events.append(("delete", ev.expr(tg, st.env)))
            return [(st, N)]
        if isinstance(s, ast.Assert):
            tt, _ = _split_guards(ev, s.test, st.env)
            for g in tt:
                st.events.append(("guard", g[0], g[1]))
            return [(st, N)]
        if isinstance(s, ast.FunctionDef):
            q = f"{self.func.qualname}.<locals>.{s.name}"
            self.nested[q] = s
            st.env[s.name] = ("closure", q)
            st.events.append(("assign", s.name, ("closure", q)))
            decs = [ev.expr(d, st.env) for d in s.decorator_list]
            if decs:
                st.events.append(("decorate", ("closure", q), tuple(decs)))
            return [(st, N)]
        if isinstance(s, ast.ClassDef):
            st.env[s.name] = ("closure", f"{self.func.qualname}.<locals>.{s.name}")
            return [(st, N)]
        if isinstance(s, ast.If):
            tt, ff = _split_guards(ev, s.test, st.env)
            a = st.fork()
            for g in tt:
                a.events.append(("guard", g[0], g[1]))
            b = st
            for g in ff:
                b.events.append(("guard", g[0], g[1]))
            return self._block(s.body, a) + self._block(s.orelse, b)
        if isinstance(s, ast.For):
            if self._collector_loop(s, st):
                return [(st, N)]
            it = ev.expr(s.iter, st.env)
            if it[0] == "ref" and it[1].startswith("typelib."):
                # ... also when the display has been given a name at module level (`for name in _ERASED: ...`)
                flat = flatten_display(self.prog, it)
                if flat is not None and 1 <= len(flat) <= 6 and all(x[0] in ("const", "ref") for x in flat):
                    it = ("tuple", tuple(flat))
            if it[0] in ("tuple", "list") and 1 <= len(it[1]) <= 6 and not any(x[0] == "star" for x in it[1]):
                # a loop over a short display written in place (a table of rows scanned in order) is unrolled exactly
                out = []
                live = [st]
                for elt in it[1]:
                    nxt = []
                    for cur0 in live:
                        ev.bind_target(s.target, elt, cur0.env, cur0.events)
                        for cur, status in self._block(s.body, cur0):
                            if status[0] in ("normal", "continue"):
                                nxt.append(cur)
                            elif status[0] == "break":
                                out.append((cur, N))
                            else:
                                out.append((cur, status))
                    live = nxt
                for cur in live:
                    if s.orelse:
                        out.extend(self._block(s.orelse, cur))
                    else:
                        out.append((cur, N))
                return out
            skip = st.fork()
            skip.events.append(("loop", it, 0))
            out = list(self._block(s.orelse, skip)) if s.orelse else [(skip, N)]
            if it[0] in ("tuple", "list") and any(x[0] != "star" for x in it[1]):
                out = []  # a display with a plain element is never empty: the body runs at least once
            st.events.append(("loop", it, 1))
            ev.bind_target(s.target, T.elem(it), st.env, st.events)
            for cur, status in self._block(s.body, st):
                if status[0] in ("normal", "continue"):
                    cur.events.append(("loopend", it))
                    if s.orelse:
                        out.extend(self._block(s.orelse, cur))
                    else:
                        out.append((cur, N))
                elif status[0] == "break":
                    cur.events.append(("loopend", it))
                    out.append((cur, N))
                else:
                    out.append((cur, status))
            return out
        if isinstance(s, ast.While):
            tt, ff = _split_guards(ev, s.test, st.env)
            skip = st.fork()
            skip.events.append(("while", ev.expr(s.test, st.env), 0))
            for g in ff:
                skip.events.append(("guard", g[0], g[1]))
            out = [(skip, N)]
            st.events.append(("while", ev.expr(s.test, st.env), 1))
            for g in tt:
                st.events.append(("guard", g[0], g[1]))
            for cur, status in self._block(s.body, st):
                if status[0] in ("normal", "continue", "break"):
                    cur.events.append(("whileend",))
                    out.append((cur, N))
                else:
                    out.append((cur, status))
            return out
        if isinstance(s, ast.With):
            ctxs = []
            for item in s.items:
                c = ev.expr(item.context_expr, st.env)
                ctxs.append(c)
                st.events.append(("enter", c))
                if item.optional_vars is not None:
                    ev.bind_target(item.optional_vars, ("enter", c), st.env, st.events)
            sup = [c for c in ctxs if T.is_call_to(c, "contextlib.suppress")]
            out = []
            if sup:
                # abandoned at statement i (only statements that can raise: any with a call/subscript/attr)
                for i, b in enumerate(s.body):
                    if _may_raise(b):
                        pre = st.fork()
                        ok = True
                        for cur, status in self._block(s.body[:i], pre):
                            if status[0] == "normal":
                                cur2 = cur.fork()
                                # the abandoned statement's evaluation is still recorded as an attempted event
                                self._record_attempt(b, cur2)
                                cur2.events.append(("suppressed", sup[0], i))
                                for c in ctxs:
                                    cur2.events.append(("exit", c))
                                out.append((cur2, N))
                        del ok
            for cur, status in self._block(s.body, st):
                for c in ctxs:
                    cur.events.append(("exit", c))
                out.append((cur, status))
            return out
        if isinstance(s, ast.Try):
            out = []
            # normal completion
            body_done = self._block(s.body, st.fork())
            for cur, status in body_done:
                if status[0] == "normal" and s.orelse:
                    for c2, s2 in self._block(s.orelse, cur):
                        out.append((c2, s2))
                else:
                    out.append((cur, status))
            # abandoned at statement i into each handler
            for i, b in enumerate(s.body):
                if not _may_raise(b):
                    continue
                for cur, status in self._block(s.body[:i], st.fork()):
                    if status[0] != "normal":
                        continue
                    for h in s.handlers:
                        c2 = cur.fork()
                        self._record_attempt(b, c2)
                        ht = ev.expr(h.type, c2.env) if h.type is not None else T.ref("builtins.BaseException")
                        if ht[0] == "ref" and self.prog.modules.get(ht[1].rpartition(".")[0]) is not None:
                            # `except _EXHAUSTION:` with the class tuple hoisted into a module-level constant
                            items = flatten_display(self.prog, ht)
                            if items is not None and all(x[0] == "ref" for x in items):
                                ht = ("tuple", tuple(items))
                        c2.events.append(("caught", ht, i))
                        if h.name:
                            c2.env[h.name] = ("exc", ht)
                        for c3, s3 in self._block(h.body, c2):
                            if s3[0] == "raise" and s3[1] == ("unknown", "reraise"):
                                s3 = ("raise", ("exc", ht))
                            out.append((c3, s3))
            if s.finalbody:
                fin = []
                for cur, status in out:
                    for c2, s2 in self._block(s.finalbody, cur):
                        fin.append((c2, s2 if s2[0] != "normal" else status))
                out = fin
            return out
        if isinstance(s, ast.Match):
            raise AnalysisError(f"match statement not in idiom set ({self.func.qualname})")
        raise AnalysisError(f"statement {type(s).__name__} not in idiom set ({self.func.qualname}:{s.lineno})")

    def _accumulate(self, e: ast.expr, tm: tuple, st: _State):
        """`x.append(v)` / `x.add(v)` / `x.appendleft(v)` on a local display keeps its contents visible."""
        if not (isinstance(e, ast.Call) and isinstance(e.func, ast.Attribute) and isinstance(e.func.value, ast.Name)):
            return
        local = e.func.value.id
        if local not in st.env or len(tm[2]) != 1 or tm[3]:
            return
        cur = st.env[local]
        meth = e.func.attr
        arg = tm[2][0]
        if cur[0] in ("list", "set") and meth in ("append", "add"):
            st.env[local] = (cur[0], cur[1] + (arg,))
        elif cur[0] == "list" and meth == "extend":
            st.env[local] = ("list", cur[1] + (("star", arg),))
        elif cur[0] == "call" and T.refname(cur[1]) == "collections.deque" and meth in ("append", "appendleft"):
            inner = cur[2][0] if cur[2] else ("list", ())
            if inner[0] in ("list", "tuple"):
                items = inner[1] + (arg,) if meth == "append" else (arg,) + inner[1]
                st.env[local] = ("call", cur[1], ((inner[0], items),), cur[3])

    def _record_attempt(self, b: ast.stmt, st: _State):
        """Record the expression a statement was evaluating when it was abandoned."""
        ev = self.ev
        val = getattr(b, "value", None)
        if isinstance(b, (ast.Expr, ast.Assign, ast.AnnAssign, ast.Return, ast.AugAssign)) and val is not None:
            st.events.append(("attempt", ev.expr(val, dict(st.env))))
        # a compound statement abandoned while its header was being evaluated (`if (x := f(v)).attr ...:`)
        head = b.test if isinstance(b, (ast.If, ast.While, ast.Assert)) else (b.iter if isinstance(b, ast.For) else None)
        if head is not None and any(isinstance(n, (ast.Call, ast.Subscript, ast.Attribute, ast.BinOp, ast.Compare)) for n in ast.walk(head)):
            st.events.append(("attempt", ev.expr(head, dict(st.env))))


def _may_raise(s: ast.stmt) -> bool:
    for n in ast.walk(s):
        if isinstance(n, (ast.Call, ast.Subscript, ast.Attribute, ast.BinOp, ast.Raise, ast.Compare)):
            return True
    return False


_cache: dict[tuple, list[Path]] = {}


def paths_of(prog: Program, func: FuncInfo, outer_env: dict | None = None) -> list[Path]:
    key = (id(prog), func.qualname, id(outer_env) if outer_env else 0, func.bound.qualname if func.bound else None)
    if key not in _cache:
        pe = PathEnumerator(prog, func, outer_env)
        _cache[key] = _expand_super(prog, func, pe.paths())
    return _cache[key]


def _expand_super(prog: Program, func: FuncInfo, paths: list[Path], _depth: int = 0) -> list[Path]:
    """A path that ends in `return super().<same method>(args)` continues with the parent method's paths,
    so that splitting a routine into a subclass plus a super call is transparent to every rule."""
    if func.cls is None:
        return paths
    out = []
    for p in paths:
        r = p.exit[1] if p.exit[0] == "return" else None
        is_super = bool(r and r[0] == "call" and r[1][0] == "attr" and r[1][2] == func.name and T.is_call_to(r[1][1], "builtins.super"))
        # `return self._helper(...)`: a routine split into a private helper method continues in the helper
        is_helper = bool(r and r[0] == "call" and r[1][0] == "attr" and r[1][1] == ("param", "self") and r[1][2].startswith("_") and not r[1][2].startswith("__") and r[1][2] != func.name and _depth < 2)
        if not (is_super or is_helper):
            out.append(p)
            continue
        parent = None
        if is_super:
            for c in prog.mro(func.cls)[1:]:
                if func.name in c.methods:
                    parent = c.methods[func.name]
                    break
        else:
            parent = prog.lookup_method(func.cls, r[1][2])
            if parent is not None and any(d and (d.endswith("property") or d.endswith("abstractmethod")) for d in parent.decorators):
                parent = None
        if parent is None:
            out.append(p)
            continue
        names = [n for n in parent.params if n != "self"]
        sub = dict(zip(names, r[2]))
        sub.update({k: v for k, v in r[3] if k})

        def bind(tm, sub=sub):
            return T.rewrite(tm, lambda x: sub.get(x[1]) if x[0] == "param" and x[1] in sub else None)

        concrete = func.bound or func.cls
        if parent.cls is not None and concrete is not None and parent.cls is not concrete:
            import dataclasses as _dc

            parent = _dc.replace(parent, bound=concrete)
        for q in paths_of(prog, parent):
            exit_ = q.exit if len(q.exit) == 1 else (q.exit[0], bind(q.exit[1]))
            own = list(p.events)
            if is_helper and q.exit[0] == "return" and len(q.exit) > 1 and q.exit[1] is not None:
                # the same call may have been tested before it is returned (`x = self._h(v)` / `if x.__class__ is …: return x`):
                # on this continuation it has the value the helper returns here, wherever the path mentions it
                val_ = exit_[1]
                own = [tuple(T.rewrite(y, lambda z, r=r, val_=val_: val_ if z == r else None) if isinstance(y, tuple) and y and isinstance(y[0], str) and y[0] in T._OPS else y for y in e) for e in own]
            events = own + [tuple(bind(x) if isinstance(x, tuple) and x and isinstance(x[0], str) and x[0] in T._OPS else x for x in e) for e in q.events]
            out.append(Path(events, exit_, dict(p.env)))
    return out


def nested_function(prog: Program, func: FuncInfo, name: str) -> FuncInfo | None:
    """FuncInfo for a def nested (at any depth of statements) inside `func`."""
    for n in ast.walk(func.node):
        if isinstance(n, ast.FunctionDef) and n is not func.node and n.name == name:
            return FuncInfo(name, f"{func.qualname}.<locals>.{name}", func.module, n, cls=None)
    return None


def closure_env(prog: Program, outer: FuncInfo) -> dict:
    """Environment a closure defined in `outer` sees: outer parameters plus outer locals (joined over paths)."""
    env: dict = {n: T.param(n) for n in outer.params}
    seen: dict = {}
    for p in paths_of(prog, outer):
        for k, v in p.env.items():
            seen.setdefault(k, [])
            if v not in seen[k]:
                seen[k].append(v)
    for k, vs in seen.items():
        env[k] = vs[0] if len(vs) == 1 else ("phi", tuple(vs))
    return env


def closure_paths(prog: Program, outer: FuncInfo, name: str) -> tuple[FuncInfo, list[Path]]:
    fi = nested_function(prog, outer, name)
    if fi is None:
        raise AnalysisError(f"closure {name} not found in {outer.qualname}")
    return fi, PathEnumerator(prog, fi, outer_env=closure_env(prog, outer)).paths()


def _is_generator(fi: FuncInfo) -> bool:
    return any(isinstance(n, (ast.Yield, ast.YieldFrom)) for n in ast.walk(fi.node))


def splice_helpers(prog: Program, paths: list[Path], _depth: int = 0, cls=None, only=None) -> list[Path]:
    """Paths with calls to private, undecorated, multi-statement module-level helpers of the package replaced by the
    helper's own paths: the helper's events (parameters bound to the arguments) precede the caller's, and the call term
    is replaced by the value the helper returns.  Moving a block of statements into such a helper is then invisible to
    rules that inspect guards, events and result terms (they opt in; the helper's events are placed where the call is first evaluated)."""
    if _depth > 2:
        return paths
    out: list[Path] = []
    changed = False

    def is_term(x):
        return isinstance(x, tuple) and bool(x) and isinstance(x[0], str) and x[0] in T._OPS

    for p in paths:
        call = None
        for tm in p.all_terms():
            for x in T.walk(tm):
                if x[0] == "call" and x[1][0] == "ref" and x[1][1].startswith("typelib."):
                    mn, _, nm = x[1][1].rpartition(".")
                    mod = prog.modules.get(mn)
                    fi = mod.functions.get(nm) if mod else None
                    if fi is not None and nm.startswith("_") and not nm.startswith("__") and not fi.node.decorator_list and not any(a[0] == "star" for a in x[2]) and (only is None or only(fi)):
                        call = (x, fi)
                        break
                # ... and, for the methods of `cls`, its own private undecorated methods called on self
                if cls is not None and x[0] == "call" and x[1][0] == "attr" and x[1][1] == ("param", "self") and x[1][2].startswith("_") and not x[1][2].startswith("__"):
                    fi = cls.methods.get(x[1][2])
                    if fi is not None and not fi.node.decorator_list and not any(a[0] == "star" for a in x[2]) and fi.params[:1] == ["self"]:
                        call = (x, fi)
                        break
            if call:
                break
        if call is None:
            out.append(p)
            continue
        x, fi = call
        names = fi.params
        sigma = dict(zip(names, ((("param", "self"),) + tuple(x[2])) if (x[1][0] == "attr" and fi.cls is not None) else x[2]))
        sigma.update({k: v for k, v in x[3] if k})
        if any(n not in sigma for n in names):
            out.append(p)
            continue
        changed = True
        # position of the call in the caller's event sequence: the helper's events are spliced in there
        at = len(p.events)
        for i, e in enumerate(p.events):
            if any(is_term(y) and T.contains(y, lambda z: z == x) for y in e):
                at = i
                break
        for q in paths_of(prog, fi):
            qev = [tuple(substitute(y, sigma) if is_term(y) else y for y in e) for e in q.events]
            if q.exit[0] not in ("return", "fall"):
                out.append(Path(list(p.events[:at]) + qev, q.exit if len(q.exit) == 1 else (q.exit[0], substitute(q.exit[1], sigma)), dict(p.env)))
                continue
            # (a helper that falls off its end has answered None: the caller goes on)
            r = substitute(q.exit[1], sigma) if q.exit[0] == "return" and len(q.exit) > 1 and q.exit[1] is not None else ("const", None)

            def repl(tm, x=x, r=r):
                tm2 = T.rewrite(tm, lambda y: r if y == x else None)
                if tm2 is not tm and r[0] == "const":
                    # the helper answered with a constant: conditional expressions on it are decided
                    # ... and so are identity tests against another constant (`_helper(x) is None` where it answered None / something else)
                    tm2 = T.rewrite(tm2, lambda y: ("const", (y[2][1] is y[3][1]) if y[1] == "is" else (y[2][1] is not y[3][1])) if (y[0] == "cmp" and y[1] in ("is", "isnot") and y[2][0] == "const" and y[3][0] == "const" and (y[2][1] is None or y[3][1] is None)) else None)
                    tm2 = T.rewrite(tm2, lambda y: (y[2] if y[1][1] else y[3]) if (y[0] == "ifexp" and y[1][0] == "const") else None)
                if tm2 is not tm and r[0] in ("tuple", "list"):
                    # `a, b = _helper(x)`: the components of the returned display
                    def fold(y, r=r):
                        if y[0] == "unpack" and y[1] == r:
                            z = T.mk_unpack(y[1], y[2], y[3])
                            return z if z != y else None
                        return None

                    tm2 = T.rewrite(tm2, fold)
                return tm2

            pev = [tuple(repl(y) if is_term(y) else y for y in e) for e in p.events]
            exit_ = p.exit if len(p.exit) == 1 else (p.exit[0], repl(p.exit[1]))
            evs = pev[:at] + qev + pev[at:]
            # a helper exit that answers with a constant decides the caller's test on the spot: the other branch is infeasible
            if any(e[0] == "guard" and e[1][0] == "const" and bool(e[1][1]) != e[2] for e in evs):
                continue
            evs = [e for e in evs if not (e[0] == "guard" and e[1][0] == "const")]
            out.append(Path(evs, exit_, dict(p.env)))
    return splice_helpers(prog, out, _depth + 1, cls, only) if changed else out


_scache: dict = {}


def spaths(prog: Program, func: FuncInfo, cls=None) -> list[Path]:
    """The paths of `func` with its private multi-statement helpers spliced in (see splice_helpers), memoised."""
    key = (id(prog), func.qualname, func.bound.qualname if func.bound else None, cls.qualname if cls is not None else None)
    if key not in _scache:
        # (helpers that rules analyse under their own name stay calls, decorated or not)
        _scache[key] = splice_helpers(prog, paths_of(prog, func), cls=cls, only=lambda fi: fi.qualname not in NOT_INLINED)
    return _scache[key]


def block_paths(prog: Program, func: FuncInfo, stmts: list, params: list[str], tag: str) -> list[Path]:
    """Paths of a block of `func`'s statements seen as a function of the given variables (a state transformer).

    Used to simulate loops exactly over small concrete states: the loop-carried variables become parameters,
    so guards and assigned values stay symbolic in them instead of being folded with their initial values."""
    node = ast.FunctionDef(
        name=f"<{tag}>",
        args=ast.arguments(posonlyargs=[], args=[ast.arg(arg=p) for p in params], vararg=None, kwonlyargs=[], kw_defaults=[], kwarg=None, defaults=[]),
        body=list(stmts) or [ast.Pass()],
        decorator_list=[],
        returns=None,
        type_comment=None,
        type_params=[],
        lineno=getattr(stmts[0], "lineno", 0) if stmts else 0,
        col_offset=0,
    )
    fi = FuncInfo(node.name, f"{func.qualname}.{node.name}", func.module, node, cls=func.cls)
    return PathEnumerator(prog, fi).paths()


def substitute(term, sigma: dict):
    """Replace parameters by the terms in sigma."""
    return T.rewrite(term, lambda x: sigma.get(x[1]) if x[0] == "param" and x[1] in sigma else None)


def flatten_display(prog: Program, term, _depth: int = 0):
    """Items of a tuple/list/set display with `*X` members and references to module-level display constants of the
    package spliced in (class tuples are often hoisted into private constants).  None when `term` is no display."""
    if term is None or _depth > 4:
        return None
    if term[0] == "ref":
        mn, _, nm = term[1].rpartition(".")
        mod = prog.modules.get(mn)
        if mod is None or nm not in mod.assigns or nm in mod.functions or nm in mod.classes:
            return None
        return flatten_display(prog, Evaluator(prog, mod).expr(mod.assigns[nm], {}), _depth + 1)
    if term[0] not in ("tuple", "list", "set"):
        return None
    out = []
    for x in term[1]:
        if x[0] == "star":
            inner = flatten_display(prog, x[1], _depth + 1)
            if inner is None:
                out.append(x)
            else:
                out.extend(inner)
        else:
            out.append(x)
    return out


def module_term(prog: Program, mod: Module, name: str) -> tuple:
    """Term of a module-level assignment's value."""
    if name not in mod.assigns:
        raise AnalysisError(f"anchor {mod.name}.{name} not found")
    return expand_table(prog, Evaluator(prog, mod).expr(mod.assigns[name], {}))


def _resolve_display(prog: Program, tm, depth=0):
    """A reference to a module constant of the package -> its (expanded) value term."""
    if tm[0] == "ref" and depth < 4:
        modname, _, nm = tm[1].rpartition(".")
        m = prog.modules.get(modname)
        if m is not None and nm in m.assigns:
            return expand_table(prog, Evaluator(prog, m).expr(m.assigns[nm], {}), depth + 1)
    return tm


def expand_table(prog: Program, tm, depth=0):
    """A comprehension that *builds a table from constant tables* (displays, `.items()` of a dict display, tuples of
    modules) is the display it builds: the generators are unrolled, getattr/hasattr on stdlib modules with constant
    names are answered from the stdlib, and conditions must fold to constants.  Anything else is returned as it is."""
    from . import oracle

    if tm[0] != "comp" or tm[1] not in ("dict", "list", "set", "tuple") or depth > 4:
        return tm

    def fold(x):
        def f(y):
            if T.is_call_to(y, "builtins.getattr", "builtins.hasattr") and len(y[2]) >= 2 and y[2][0][0] == "ref" and y[2][1][0] == "const" and isinstance(y[2][1][1], str):
                dotted = f"{y[2][0][1]}.{y[2][1][1]}"
                try:
                    oracle.stdlib_class(dotted)
                    has = True
                except LookupError as e:
                    if "catalogue" in str(e):
                        return None
                    has = False
                except Exception:
                    has = False
                if T.refname(y[1]) == "builtins.hasattr":
                    return ("const", has)
                if has:
                    return ("ref", dotted)
                if len(y[2]) == 3:
                    return y[2][2]
            return None

        return T.fold_bool(T.fold_consts(T.rewrite(x, f)))

    envs = [{}]
    for src, _names in tm[3]:
        nxt = []
        for env in envs:
            s0 = T.rewrite(src, lambda y, env=env: env.get(y))
            items = None
            if s0[0] in ("tuple", "list", "set"):
                items = [{("elem", src): it} for it in s0[1]]
            elif s0[0] == "call" and s0[1][0] == "attr" and s0[1][2] in ("items", "keys", "values") and not s0[2]:
                d = _resolve_display(prog, s0[1][1], depth)
                if d[0] == "dict" and all(len(kv) == 2 for kv in d[1]):
                    base = s0[1][1]
                    items = [{("key", base): k, ("value", base): v, ("elem", src): ("tuple", (k, v)) if s0[1][2] == "items" else (k if s0[1][2] == "keys" else v)} for k, v in d[1]]
            else:
                d = _resolve_display(prog, s0, depth)
                if d[0] in ("tuple", "list", "set"):
                    items = [{("elem", src): it} for it in d[1]]
                elif d[0] == "dict":
                    items = [{("elem", src): k, ("key", s0): k} for k, _v in d[1]]
            if items is None:
                return tm
            nxt += [{**env, **it} for it in items]
        envs = nxt
        if len(envs) > 4096:
            return tm
    out = []
    for env in envs:
        keep = True
        for c in tm[4]:
            v = fold(T.rewrite(c, lambda y, env=env: env.get(y)))
            if v[0] != "const":
                return tm
            if not v[1]:
                keep = False
                break
        if keep:
            out.append(fold(T.rewrite(tm[2], lambda y, env=env: env.get(y))))
    if tm[1] == "dict":
        if not all(i[0] == "pair" for i in out):
            return tm
        return ("dict", tuple((i[1], i[2]) for i in out))
    return (tm[1], tuple(out))


def handler_names(event) -> list[str] | None:
    """Exception class names of a `suppressed` (contextlib.suppress) or `caught` (except clause) event."""
    if event[0] == "suppressed":
        return [T.refname(a) or T.show(a) for a in event[1][2]]
    if event[0] == "caught":
        t0 = event[1]
        items = t0[1] if t0[0] == "tuple" else (t0,)
        return [T.refname(a) or T.show(a) for a in items]
    return None


def abandoned(p: Path) -> list[list[str]]:
    """For each attempt on this path that was abandoned into a handler: the handler's exception names."""
    return [n for n in (handler_names(e) for e in p.events) if n is not None]


def split_conditional_callee(paths: list[Path]) -> list[Path]:
    """`return (A if c else B)(x)` is `return A(x)` where c holds and `return B(x)` where it does not: such an exit becomes two
    paths with the condition as their last guard (one, when the path has already decided c)."""
    out = []
    for p in paths:
        r = p.exit[1] if p.exit[0] == "return" and len(p.exit) > 1 else None
        if r is None or r[0] != "call" or r[1][0] != "ifexp":
            out.append(p)
            continue
        c, a, b = r[1][1], r[1][2], r[1][3]
        known = [v for g, v in p.guards() if g == c]
        for arm, val in ((a, True), (b, False)):
            if known and known[-1] is not val:
                continue
            q = Path(list(p.events) + ([] if known else [("guard", c, val)]), ("return", ("call", arm, r[2], r[3])), dict(p.env))
            out.append(q)
    return split_conditional_callee(out) if any(p.exit[0] == "return" and len(p.exit) > 1 and p.exit[1] is not None and p.exit[1][0] == "call" and p.exit[1][1][0] == "ifexp" for p in out) else out


def returns(paths: list[Path]) -> list[tuple[Path, tuple]]:
    return [(p, p.exit[1]) for p in paths if p.exit[0] == "return"]
