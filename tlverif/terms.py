"""Term language for resolved program facts.

A term is a plain tuple ``(op, *args)``.  Terms are what expressions evaluate to once
local names have been substituted by their defining expressions and global names have been
resolved through the import table, so that rules match *program facts* (which callee, which
argument, which guard) and never source text.

ops
    ('param', name)                      function parameter
    ('ref', 'dotted.qualified.name')     resolved global / imported / builtin name
    ('const', value)
    ('attr', base, name)
    ('call', func, (args...), ((kw, val)...))     kw None == **unpack
    ('sub', base, index)
    ('slice', lo, hi, step)              parts may be None
    ('tuple'|'list'|'set', (elts...))
    ('dict', ((k, v)...))                k None == **unpack
    ('star', x)
    ('comp', kind, elt, gens, conds)     kind in list/set/gen/dict ; dict elt == ('pair', k, v)
                                         gens == ((iter_term, target_shape)...)
    ('elem', iterable)                   an element drawn from `iterable`
    ('unpack', x, i, n)                  i-th component of n-ary destructuring of x (n may be None for starred)
    ('ifexp', test, a, b)
    ('boolop', 'and'|'or', (vals...))
    ('not', x)
    ('cmp', opname, a, b)                opname in == != < <= > >= is isnot in notin
    ('binop', opname, a, b)
    ('unop', opname, a)
    ('fstr', (parts...))                 parts: ('const', s) or ('fmt', value, conv, spec)
    ('lambda', (params...), body)
    ('closure', qualname)                nested function object
    ('enter', ctx)                       value bound by `with ctx as x`
    ('exc', handler_type)                value bound by `except T as e`
    ('phi', (alts...))                   join of alternatives (loop carried)
    ('unknown', text)
"""

from __future__ import annotations

import re as _re
import typing as t

Term = tuple


def param(name: str) -> Term:
    return ("param", name)


def ref(name: str) -> Term:
    return ("ref", name)


def const(v) -> Term:
    return ("const", v)


def attr(base: Term, name: str) -> Term:
    return ("attr", base, name)


def call(func: Term, args=(), kwargs=()) -> Term:
    return ("call", func, tuple(args), tuple(kwargs))


def elem(x: Term) -> Term:
    return ("elem", x)


def callee_name(term: Term) -> str | None:
    """Dotted name of a call's callee when it is a plain ref (possibly through attrs)."""
    if term[0] != "call":
        return None
    return refname(term[1])


def refname(term: Term) -> str | None:
    if term[0] == "ref":
        return term[1]
    return None


def mk_unpack(x: Term, i: int, n: int | None) -> Term:
    """Destructuring with normalisation of the iteration helpers the repo uses."""
    if x[0] == "elem":
        src = x[1]
        # for i, v in enumerate(X)
        if src[0] == "call" and refname(src[1]) == "builtins.enumerate" and n == 2:
            inner = src[2][0] if src[2] else ("unknown", "enumerate()")
            return ("index", inner) if i == 0 else elem(inner)
        # for a, b in zip(A, B)
        if src[0] == "call" and refname(src[1]) == "builtins.zip" and n == len(src[2]):
            return ("zipelem", src[2][i], src)
        # for k, v in X.items()
        if (
            src[0] == "call"
            and src[1][0] == "attr"
            and src[1][2] == "items"
            and not src[2]
            and n == 2
        ):
            return ("key", src[1][1]) if i == 0 else ("value", src[1][1])
    if x[0] in ("tuple", "list") and n == len(x[1]) and not any(e[0] == "star" for e in x[1]):
        return x[1][i]
    return ("unpack", x, i, n)


def children(term) -> list:
    """Direct sub-terms, aware of each op's layout (keyword names, target strings, constants are not terms)."""
    op = term[0]
    if op in ("param", "ref", "const", "closure", "unknown"):
        return []
    if op == "attr":
        return [term[1]]
    if op == "call":
        return [term[1], *term[2], *(v for _, v in term[3])]
    if op in ("sub", "pair"):
        return [term[1], term[2]]
    if op == "slice":
        return [x for x in term[1:] if x is not None]
    if op in ("tuple", "list", "set"):
        return list(term[1])
    if op == "dict":
        out = []
        for k, v in term[1]:
            if k is not None:
                out.append(k)
            out.append(v)
        return out
    if op in ("star", "elem", "index", "key", "value", "not", "enter", "exc", "await", "yield"):
        return [term[1]] if isinstance(term[1], tuple) else []
    if op == "zipelem":
        return [term[1], term[2]]
    if op == "comp":
        return [term[2], *(g[0] for g in term[3]), *term[4]]
    if op == "unpack":
        return [term[1]]
    if op == "ifexp":
        return [term[1], term[2], term[3]]
    if op == "boolop":
        return list(term[2])
    if op in ("cmp", "binop"):
        return [term[2], term[3]]
    if op == "unop":
        return [term[2]]
    if op == "fstr":
        return list(term[1])
    if op == "fmt":
        return [term[1]] + ([term[3]] if term[3] is not None else [])
    if op == "lambda":
        return [term[2]]
    if op == "phi":
        return list(term[1])
    return []


def walk(term) -> t.Iterator[Term]:
    """Pre-order walk over all sub-terms."""
    if not isinstance(term, tuple) or not term or not isinstance(term[0], str):
        return
    yield term
    for c in children(term):
        yield from walk(c)


_OPS = {
    "param", "ref", "const", "attr", "call", "sub", "slice", "tuple", "list", "set",
    "dict", "star", "comp", "elem", "unpack", "ifexp", "boolop", "not", "cmp", "binop",
    "unop", "fstr", "fmt", "lambda", "closure", "enter", "exc", "phi", "unknown", "index",
    "zipelem", "key", "value", "pair", "await", "yield", "walrus",
}  # fmt: skip


def contains(term: Term, pred: t.Callable[[Term], bool]) -> bool:
    return any(pred(s) for s in walk(term))


def find(term: Term, pred: t.Callable[[Term], bool]) -> list[Term]:
    return [s for s in walk(term) if pred(s)]


def calls_in(term: Term) -> list[Term]:
    return [s for s in walk(term) if s[0] == "call"]


def is_call_to(term: Term, *names: str) -> bool:
    return term[0] == "call" and refname(term[1]) in names


def self_attr(term: Term) -> str | None:
    """'x' for the term of `self.x`."""
    if term[0] == "attr" and term[1] == ("param", "self"):
        return term[2]
    return None


def show(term, depth: int = 0) -> str:
    """Compact human-readable rendering (for reports only)."""
    if not isinstance(term, tuple) or not term:
        return repr(term)
    op = term[0]
    if depth > 12:
        return "…"
    d = depth + 1
    if op == "param":
        return term[1]
    if op == "ref":
        return term[1]
    if op == "const":
        return repr(term[1])
    if op == "attr":
        return f"{show(term[1], d)}.{term[2]}"
    if op == "call":
        parts = [show(a, d) for a in term[2]]
        parts += [(f"{k}=" if k else "**") + show(v, d) for k, v in term[3]]
        return f"{show(term[1], d)}({', '.join(parts)})"
    if op == "sub":
        return f"{show(term[1], d)}[{show(term[2], d)}]"
    if op == "slice":
        return ":".join("" if p is None else show(p, d) for p in term[1:])
    if op in ("tuple", "list", "set"):
        o, c = {"tuple": "()", "list": "[]", "set": "{}"}[op]
        return o + ", ".join(show(e, d) for e in term[1]) + c
    if op == "dict":
        return "{" + ", ".join(("**" + show(v, d)) if k is None else f"{show(k, d)}: {show(v, d)}" for k, v in term[1]) + "}"
    if op == "star":
        return "*" + show(term[1], d)
    if op == "comp":
        conds = "".join(f" if {show(c, d)}" for c in term[4])
        return f"<{term[1]}comp {show(term[2], d)}{conds}>"
    if op == "pair":
        return f"{show(term[1], d)}: {show(term[2], d)}"
    if op in ("elem", "index", "key", "value"):
        return f"{op}({show(term[1], d)})"
    if op == "zipelem":
        return f"zipelem({show(term[1], d)})"
    if op == "unpack":
        return f"{show(term[1], d)}#{term[2]}"
    if op == "ifexp":
        return f"({show(term[2], d)} if {show(term[1], d)} else {show(term[3], d)})"
    if op == "boolop":
        return "(" + f" {term[1]} ".join(show(v, d) for v in term[2]) + ")"
    if op == "not":
        return f"not {show(term[1], d)}"
    if op in ("cmp", "binop"):
        return f"({show(term[2], d)} {term[1]} {show(term[3], d)})"
    if op == "unop":
        return f"{term[1]}{show(term[2], d)}"
    if op == "fstr":
        return "f'" + "".join(p[1] if p[0] == "const" else "{" + show(p[1], d) + "}" for p in term[1]) + "'"
    if op == "fmt":
        return "{" + show(term[1], d) + "}"
    if op == "lambda":
        return f"lambda {', '.join(term[1])}: {show(term[2], d)}"
    if op == "phi":
        return "φ(" + " | ".join(show(a, d) for a in term[1]) + ")"
    if op in ("closure", "unknown"):
        return f"<{op} {term[1]}>"
    if op in ("enter", "exc"):
        return f"{op}({show(term[1], d)})"
    return repr(term)


def rewrite(term, fn):
    """Bottom-up rewrite: fn(term_with_rewritten_children) -> replacement or None."""
    if not isinstance(term, tuple) or not term or not isinstance(term[0], str):
        return term
    op = term[0]
    R = lambda x: rewrite(x, fn)  # noqa: E731
    if op in ("param", "ref", "const", "closure", "unknown"):
        new = term
    elif op == "attr":
        new = (op, R(term[1]), term[2])
    elif op == "call":
        new = (op, R(term[1]), tuple(R(a) for a in term[2]), tuple((k, R(v)) for k, v in term[3]))
    elif op in ("sub", "pair"):
        new = (op, R(term[1]), R(term[2]))
    elif op == "slice":
        new = (op,) + tuple(None if x is None else R(x) for x in term[1:])
    elif op in ("tuple", "list", "set"):
        new = (op, tuple(R(x) for x in term[1]))
    elif op == "dict":
        new = (op, tuple((None if k is None else R(k), R(v)) for k, v in term[1]))
    elif op in ("star", "elem", "index", "key", "value", "not", "enter", "exc", "await", "yield"):
        new = (op, R(term[1])) + term[2:]
    elif op == "zipelem":
        new = (op, R(term[1]), R(term[2]))
    elif op == "comp":
        new = (op, term[1], R(term[2]), tuple((R(g[0]), g[1]) for g in term[3]), tuple(R(c) for c in term[4]))
    elif op == "unpack":
        new = (op, R(term[1]), term[2], term[3])
    elif op == "ifexp":
        new = (op, R(term[1]), R(term[2]), R(term[3]))
    elif op == "boolop":
        new = (op, term[1], tuple(R(v) for v in term[2]))
    elif op in ("cmp", "binop"):
        new = (op, term[1], R(term[2]), R(term[3]))
    elif op == "unop":
        new = (op, term[1], R(term[2]))
    elif op == "fstr":
        new = (op, tuple(R(x) for x in term[1]))
    elif op == "fmt":
        new = (op, R(term[1]), term[2], None if term[3] is None else R(term[3]))
    elif op == "lambda":
        new = (op, term[1], R(term[2]))
    elif op == "phi":
        new = (op, tuple(R(x) for x in term[1]))
    else:
        new = term
    r = fn(new)
    return new if r is None else r


_NEGATED = {"in": "notin", "notin": "in", "is": "isnot", "isnot": "is", "==": "!=", "!=": "=="}


def negate(term):
    """The negation of a condition, spelled the way the source would spell it."""
    if term[0] == "not":
        return term[1]
    if term[0] == "cmp" and term[1] in _NEGATED:
        return ("cmp", _NEGATED[term[1]], term[2], term[3])
    return ("not", term)


_STR_METHODS = ("lower", "upper", "title", "capitalize", "strip", "casefold", "swapcase")


def fold_consts(term):
    """Fold pure operations on literal constants: f-strings of constants, case/strip methods of constant strings,
    and comprehensions over displays of constants (expanded into the display they build)."""

    def f(tm):
        if tm[0] == "fstr":
            out = ""
            for part in tm[1]:
                if part[0] == "const":
                    out += str(part[1])
                elif part[0] == "fmt" and part[1][0] == "const" and part[2] in (-1, None) and part[3] is None:
                    out += format(part[1][1])
                else:
                    return None
            return ("const", out)
        if tm[0] == "call" and tm[1][0] == "attr" and tm[1][1][0] == "const" and isinstance(tm[1][1][1], str) and tm[1][2] in _STR_METHODS and not tm[2] and not tm[3]:
            return ("const", getattr(tm[1][1][1], tm[1][2])())
        if tm[0] == "binop" and tm[1] == "+" and tm[2][0] == "const" and tm[3][0] == "const" and isinstance(tm[2][1], str) and isinstance(tm[3][1], str):
            return ("const", tm[2][1] + tm[3][1])
        if tm[0] == "comp" and len(tm[3]) == 1 and not tm[4] and tm[3][0][0][0] in ("tuple", "list") and all(x[0] == "const" for x in tm[3][0][0][1]):
            src = tm[3][0][0]
            items = [fold_consts(rewrite(tm[2], lambda x, it=it: it if x == ("elem", src) else None)) for it in src[1]]
            if tm[1] == "dict":
                return ("dict", tuple((i[1], i[2]) for i in items))
            if tm[1] in ("list", "set"):
                return (tm[1], tuple(items))
        return None

    prev = None
    while prev != term:
        prev = term
        term = rewrite(term, f)
    return term


def _text_parts(tm):
    """Parts of a text-building term in f-string form, or None when `tm` is not known to be text."""
    if tm[0] == "fstr":
        return list(tm[1])
    if tm[0] == "const" and isinstance(tm[1], str):
        return [tm]
    if tm[0] == "call" and tm[1] == ("ref", "builtins.str") and len(tm[2]) == 1 and not tm[3]:
        return [("fmt", tm[2][0], -1, None)]
    return None


def concat_text(left, right):
    """`"P" + d + "T" + t` and `str(p) + s` are the f-strings f"P{d}T{t}" / f"{p}{s}" (for text operands)."""
    lp, rp = _text_parts(left), _text_parts(right)
    if lp is None and rp is None:
        return None
    if lp is None:
        lp = [("fmt", left, -1, None)]
    if rp is None:
        rp = [("fmt", right, -1, None)]
    parts = []
    for x in lp + rp:
        if parts and parts[-1][0] == "const" and x[0] == "const":
            parts[-1] = ("const", parts[-1][1] + x[1])
        else:
            parts.append(x)
    return ("fstr", tuple(parts))


def format_to_fstr(fmt: str, args: tuple):
    import string

    parts = []
    auto = 0
    try:
        for lit, field, spec, conv in string.Formatter().parse(fmt):
            if lit:
                parts.append(("const", lit))
            if field is None:
                continue
            if field == "":
                idx = auto
                auto += 1
            elif field.isdigit():
                idx = int(field)
            else:
                return None
            if idx >= len(args) or (spec and ("{" in spec)):
                return None
            convn = -1 if conv is None else ord(conv)
            parts.append(("fmt", args[idx], convn, ("fstr", (("const", spec),)) if spec else None))
    except ValueError:
        return None
    return ("fstr", tuple(parts))


def merge_class_tests(term):
    """`isinstance(x, A) or isinstance(x, B)` is the same test as `isinstance(x, (A, B))` (same for issubclass): adjacent
    disjuncts on one subject are merged so that rules see one canonical spelling."""
    if term[0] != "boolop" or term[1] != "or":
        return term
    out = []
    for v in term[2]:
        if out and _class_test(v) and _class_test(out[-1]) and v[1] == out[-1][1] and v[2][0] == out[-1][2][0]:
            prev = out.pop()
            out.append(("call", v[1], (v[2][0], ("tuple", _classes(prev[2][1]) + _classes(v[2][1]))), ()))
        else:
            out.append(v)
    return out[0] if len(out) == 1 else ("boolop", "or", tuple(out))


def _class_test(v):
    return v[0] == "call" and v[1][0] == "ref" and v[1][1] in ("builtins.isinstance", "builtins.issubclass") and len(v[2]) == 2 and not v[3]


def _classes(t):
    return tuple(t[1]) if t[0] == "tuple" else (t,)


def fold_bool(term):
    """Constant-fold boolean structure (after a substitution made some atoms constant)."""

    def f(tm):
        op = tm[0]
        if op == "not" and tm[1][0] == "const":
            return ("const", not tm[1][1])
        if op == "boolop":
            vals = list(tm[2])
            if tm[1] == "and":
                out = []
                for v in vals:
                    if v[0] == "const":
                        if not v[1]:
                            return v
                        continue
                    out.append(v)
                if not out:
                    return vals[-1] if vals else ("const", True)
                return out[0] if len(out) == 1 else ("boolop", "and", tuple(out))
            out = []
            for v in vals:
                if v[0] == "const":
                    if v[1]:
                        return v
                    continue
                out.append(v)
            if not out:
                return vals[-1] if vals else ("const", False)
            return out[0] if len(out) == 1 else ("boolop", "or", tuple(out))
        if op == "ifexp" and tm[1][0] == "const":
            return tm[2] if tm[1][1] else tm[3]
        if op == "cmp" and tm[2][0] == "const" and tm[3][0] == "const":
            a, b = tm[2][1], tm[3][1]
            try:
                return ("const", {"==": a == b, "!=": a != b, "is": a is b, "isnot": a is not b}[tm[1]])
            except KeyError:
                return None
        if op == "binop" and tm[2][0] == "const" and tm[3][0] == "const":
            a, b = tm[2][1], tm[3][1]
            try:
                if tm[1] == "+":
                    return ("const", a + b)
                if tm[1] == "-":
                    return ("const", a - b)
                if tm[1] == "*":
                    return ("const", a * b)
            except Exception:
                return None
        return None

    return rewrite(term, f)


def derive_atoms(guards) -> set:
    """Unit propagation over a path's guards: conjunctions that hold and disjunctions that fail are split into their
    operands; a conjunction that fails with all operands but one known to hold makes the remaining one fail (dually for
    a disjunction that holds).  Returns {(atom, truth)} with `not x` folded into the truth value."""
    facts = set()

    def norm(g, pol):
        while g[0] == "not":
            g, pol = g[1], not pol
        return g, pol

    pending = [norm(g, pol) for g, pol in guards]
    facts |= set(pending)  # a compound guard is itself a fact (it may be an operand of another one)
    changed = True
    while changed:
        changed = False
        nxt = []
        for g, pol in pending:
            if g[0] == "boolop" and ((g[1] == "and" and pol) or (g[1] == "or" and not pol)):
                for x in g[2]:
                    nxt.append(norm(x, pol))
                changed = True
            elif g[0] == "boolop":
                # failing conjunction / holding disjunction
                want = pol  # operands' value that would *not* decide it: and/False -> True ; or/True -> False
                ops = [norm(x, True) for x in g[2]]
                undecided = []
                decided = False
                for x, xp in ops:
                    # value of the operand x (with its own polarity folded)
                    known = [t for (a, t) in facts if a == x]
                    if not known and x[0] == "const":
                        known = [bool(x[1])]  # a constant operand is known by itself
                    if not known:
                        undecided.append((x, xp))
                        continue
                    val = known[0] if xp else not known[0]
                    if (g[1] == "and" and not val) or (g[1] == "or" and val):
                        decided = True
                if decided:
                    continue
                if len(undecided) == 1:
                    x, xp = undecided[0]
                    val = (g[1] == "or")  # the remaining operand of a failing `and` is False; of a holding `or` True
                    fact = (x, val if xp else not val)
                    if fact not in facts:
                        facts.add(fact)
                        changed = True
                else:
                    nxt.append((g, pol))
                del want
            else:
                if (g, pol) not in facts:
                    facts.add((g, pol))
                    changed = True
        pending = nxt
    return facts


class Undecidable(Exception):
    """A term outside the fragment `ceval` interprets."""


_STR_METHODS = {
    "lstrip", "rstrip", "strip", "startswith", "endswith", "isalnum", "isalpha", "isdigit", "isdecimal", "isnumeric", "isspace",
    "isidentifier", "isascii", "islower", "isupper", "lower", "upper", "casefold", "find", "rfind", "count", "partition", "rpartition",
    "split", "rsplit", "removeprefix", "removesuffix", "replace", "splitlines", "isprintable", "title", "swapcase", "index",
}  # fmt: skip
_PURE_BUILTINS = {"builtins.len": len, "builtins.bool": bool, "builtins.str": str, "builtins.ord": ord, "builtins.any": any, "builtins.all": all, "builtins.min": min, "builtins.max": max, "builtins.isinstance": isinstance}
_CLASSES = {"builtins.str": str, "builtins.bytes": bytes, "builtins.int": int, "builtins.float": float, "builtins.tuple": tuple, "builtins.list": list}


def ceval(term: Term, env: dict):
    """Concrete value of a term built from text operations only (str methods without side effects, slicing, comparisons,
    boolean connectives, len/ord/bool), under `env` (term -> value).  Raises Undecidable for anything else: the caller then
    reports the construct as undecided instead of guessing.  Nothing of the analysed program is executed."""
    if term in env:
        return env[term]
    op = term[0]
    if op == "const":
        return term[1]
    if op in ("tuple", "list", "set"):
        vals = [ceval(x, env) for x in term[1]]
        return {"tuple": tuple, "list": list, "set": set}[op](vals)
    if op == "not":
        return not ceval(term[1], env)
    if op == "boolop":
        v = None
        for x in term[2]:
            v = ceval(x, env)
            if (term[1] == "and" and not v) or (term[1] == "or" and v):
                return v
        return v
    if op == "ifexp":
        return ceval(term[2], env) if ceval(term[1], env) else ceval(term[3], env)
    if op == "cmp":
        a, b = ceval(term[2], env), ceval(term[3], env)
        try:
            return {
                "==": lambda: a == b, "!=": lambda: a != b, "<": lambda: a < b, "<=": lambda: a <= b, ">": lambda: a > b, ">=": lambda: a >= b,
                "is": lambda: a is b, "isnot": lambda: a is not b, "in": lambda: a in b, "notin": lambda: a not in b,
            }[term[1]]()  # fmt: skip
        except TypeError as e:
            raise Undecidable(str(e)) from None
    if op == "slice":
        return slice(*(None if x is None else ceval(x, env) for x in term[1:4]))
    if op == "sub":
        base, idx = ceval(term[1], env), ceval(term[2], env)
        if not isinstance(base, (str, tuple, list)):
            raise Undecidable("subscript of a non-sequence")
        try:
            return base[idx]
        except (IndexError, TypeError) as e:
            raise Undecidable(str(e)) from None
    if op == "unop" and term[1] in ("-", "+"):
        v = ceval(term[2], env)
        if isinstance(v, (int, float)) and not isinstance(v, bool):
            return -v if term[1] == "-" else v
    if op == "binop" and term[1] in ("+", "-"):
        a, b = ceval(term[2], env), ceval(term[3], env)
        if type(a) is type(b) and isinstance(a, (int, str)):
            return a + b if term[1] == "+" else (a - b if isinstance(a, int) else None)
    if op == "ref" and term[1] in _CLASSES:
        return _CLASSES[term[1]]
    if op == "call" and not any(k is None for k, _ in term[3]):
        f = term[1]
        if f[0] == "attr" and f[2] in _STR_METHODS:
            recv = ceval(f[1], env)
            if isinstance(recv, str):
                args = [ceval(a, env) for a in term[2]]
                kw = {k: ceval(v, env) for k, v in term[3]}
                try:
                    return getattr(recv, f[2])(*args, **kw)
                except (TypeError, ValueError) as e:
                    raise Undecidable(str(e)) from None
        if f[0] == "attr" and f[2] in ("search", "match", "fullmatch") and len(term[2]) == 1 and not term[3]:
            # a compiled pattern the caller has put into `env` (a constant of the source, compiled by the standard library)
            recv = ceval(f[1], env)
            if isinstance(recv, _re.Pattern):
                subject = ceval(term[2][0], env)
                if isinstance(subject, str) == isinstance(recv.pattern, str):
                    return getattr(recv, f[2])(subject) is not None
        rn = refname(f)
        if rn in ("re.search", "re.match", "re.fullmatch") and len(term[2]) == 2 and not term[3]:
            pat, subject = ceval(term[2][0], env), ceval(term[2][1], env)
            if isinstance(pat, str) and isinstance(subject, str):
                try:
                    return getattr(_re, rn[3:])(pat, subject) is not None
                except _re.error as e:
                    raise Undecidable(str(e)) from None
        if rn in _PURE_BUILTINS and not term[3]:
            args = [ceval(a, env) for a in term[2]]
            if rn in ("builtins.any", "builtins.all") and not (len(args) == 1 and isinstance(args[0], (tuple, list))):
                raise Undecidable(rn)
            try:
                return _PURE_BUILTINS[rn](*args)
            except (TypeError, ValueError) as e:
                raise Undecidable(str(e)) from None
    raise Undecidable(show(term)[:60])


def enclosing_conditions(root: Term, target: Term) -> list[list]:
    """For every occurrence of `target` inside `root`: the (test, polarity) pairs of the conditional expressions and of the
    comprehension filters it sits under (`a if c else b`: a under (c, True), b under (c, False); an element of a
    comprehension under each of its filters)."""
    out: list[list] = []

    def go(tm, conds):
        if tm == target:
            out.append(list(conds))
            return
        if not isinstance(tm, tuple) or not tm or not isinstance(tm[0], str):
            return
        if tm[0] == "ifexp":
            go(tm[1], conds)
            go(tm[2], conds + [(tm[1], True)])
            go(tm[3], conds + [(tm[1], False)])
            return
        if tm[0] == "comp":
            inner = conds + [(c, True) for c in tm[4]]
            go(tm[2], inner)
            for it, _ in tm[3]:
                go(it, conds)
            for c in tm[4]:
                go(c, conds)
            return
        if tm[0] == "boolop":
            # `a or b`: b is evaluated where a was falsy; `a and b`: where a was truthy
            seen: list = []
            for operand in tm[2]:
                go(operand, conds + [(x, tm[1] == "and") for x in seen])
                seen.append(operand)
            return
        for ch in children(tm):
            go(ch, conds)

    go(root, [])
    return out

