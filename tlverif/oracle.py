"""Facts about the Python standard library of the interpreter the repository runs on.

These are facts about *Python*, never about typelib: class hierarchy, typing alias origins,
`ast` node fields, constructor field lists, hashability, coarse equality and raise sets.
No typelib code is imported or called from here.
"""

from __future__ import annotations

import ast
import builtins
import collections
import collections.abc
import datetime
import decimal
import enum
import fractions
import importlib
import numbers
import pathlib
import re
import types
import typing
import uuid

TRUSTED = [
    "python ast grammar (ast.parse of /repo/src/typelib/**/*.py on every run)",
    "stdlib class hierarchy via issubclass on stdlib classes only (datetime, enum, numbers, collections.abc, pathlib, uuid, decimal, fractions)",
    "typing alias origins (typing.X.__origin__) and ast.<Node>._fields of the running interpreter (3.12)",
    "constructor field lists of datetime.date/time/datetime",
    "hashability table: bytearray/list/dict/set unhashable, memoryview hashable only when read-only",
    "curated raise-set table for stdlib constructors/parsers used by the routines",
    "coarse-equality table: aware datetime/time compare by instant; typing.Union equality ignores member order; 1 == 1.0 == True",
    "state-field table: re.Pattern = (pattern, flags); Fraction = (numerator, denominator); timedelta = (days, seconds, microseconds); UUID = any one of int/hex/bytes/fields",
]


def resolve(dotted: str):
    """Resolve a dotted name to a *stdlib* object (never typelib)."""
    if dotted.startswith("typelib"):
        raise ValueError("oracle never resolves repository names")
    parts = dotted.split(".")
    if parts[0] == "builtins":
        obj = builtins
        parts = parts[1:]
    else:
        obj = None
        for i in range(len(parts), 0, -1):
            try:
                obj = importlib.import_module(".".join(parts[:i]))
                parts = parts[i:]
                break
            except Exception:
                continue
        if obj is None:
            raise LookupError(dotted)
    for p in parts:
        obj = getattr(obj, p)
    return obj


ALLOWED_ROOTS = {
    "builtins", "datetime", "decimal", "fractions", "numbers", "uuid", "pathlib", "re", "enum",
    "collections", "typing", "types", "sqlite3", "ipaddress", "inspect", "typing_extensions", "abc", "functools",
}  # fmt: skip


def stdlib_class(dotted: str):
    root = dotted.split(".")[0]
    if root not in ALLOWED_ROOTS:
        raise LookupError(f"{dotted}: not in the stdlib oracle's catalogue")
    obj = resolve(dotted)
    return obj


def issub(a: str, b: str) -> bool:
    ca, cb = stdlib_class(a), stdlib_class(b)
    ca = getattr(ca, "__origin__", ca)
    cb = getattr(cb, "__origin__", cb)
    try:
        return issubclass(ca, cb)
    except TypeError:
        return False


# catalogue of classes used as witnesses when two predicates overlap
CATALOGUE = [
    "builtins.int", "builtins.bool", "builtins.float", "builtins.complex", "builtins.str",
    "builtins.bytes", "builtins.bytearray", "builtins.memoryview", "builtins.list",
    "builtins.tuple", "builtins.set", "builtins.frozenset", "builtins.dict", "builtins.range",
    "builtins.object", "builtins.type",
    "datetime.date", "datetime.datetime", "datetime.time", "datetime.timedelta",
    "decimal.Decimal", "fractions.Fraction", "uuid.UUID", "re.Pattern",
    "pathlib.PurePath", "pathlib.PurePosixPath", "pathlib.PureWindowsPath", "pathlib.Path", "pathlib.PosixPath",
    "enum.Enum", "enum.IntEnum", "enum.StrEnum", "enum.Flag", "enum.IntFlag",
    "collections.deque", "collections.OrderedDict", "collections.defaultdict", "collections.Counter",
    "collections.ChainMap", "collections.UserDict", "collections.UserList", "collections.UserString",
    "types.MappingProxyType", "types.GeneratorType",
    "collections.abc.Iterator", "collections.abc.Generator", "collections.abc.Iterable",
    "collections.abc.Sequence", "collections.abc.Mapping", "collections.abc.Set", "collections.abc.Collection",
    "functools.partial",  # a plain class whose *instances* are callable (defines __call__)
]  # fmt: skip

DATETIME_FIELDS = {
    "datetime.datetime": ("year", "month", "day", "hour", "minute", "second", "microsecond", "tzinfo", "fold"),
    "datetime.time": ("hour", "minute", "second", "microsecond", "tzinfo", "fold"),
    "datetime.date": ("year", "month", "day"),
}


def _check_datetime_fields():
    import inspect

    # the table above is itself checked against the running interpreter
    dt = datetime.datetime(2000, 1, 2, 3, 4, 5, 6, datetime.timezone.utc, fold=1)
    for f in DATETIME_FIELDS["datetime.datetime"]:
        getattr(dt, f)
    tm = datetime.time(1, 2, 3, 4, datetime.timezone.utc, fold=1)
    for f in DATETIME_FIELDS["datetime.time"]:
        getattr(tm, f)
    del inspect


_check_datetime_fields()

UNHASHABLE = {"builtins.bytearray", "builtins.list", "builtins.dict", "builtins.set"}
CONDITIONALLY_HASHABLE = {"builtins.memoryview"}  # only read-only views hash


def hashable(dotted: str) -> bool | None:
    if dotted in CONDITIONALLY_HASHABLE:
        return None
    if dotted in UNHASHABLE:
        return False
    try:
        c = stdlib_class(dotted)
    except Exception:
        return None
    return getattr(c, "__hash__", None) is not None


# attribute sets that determine a value of the class completely (any one set suffices)
STATE_FIELDS = {
    "re.Pattern": [{"pattern", "flags"}],
    "fractions.Fraction": [{"numerator", "denominator"}],
    "datetime.timedelta": [{"days", "seconds", "microseconds"}],
    "uuid.UUID": [{"int"}, {"hex"}, {"bytes"}, {"bytes_le"}, {"fields"}, {"urn"}],
}


def _check_state_fields():
    import re as _re

    pat = _re.compile("a", _re.I)
    assert _re.compile(pat.pattern, pat.flags) == pat and _re.compile(pat.pattern) != pat


_check_state_fields()

# third-party parsers that are *not* inverses of the stdlib writers the library uses (facts about pendulum 3.x)
LOSSY_PARSERS = {
    "pendulum.parse": "ignores the UTC offset of time-only text ('01:02:03+05:30' -> today at UTC) and rejects offsets with a seconds part",
}

# pendulum.Duration recomputes these in __new__ from the *float* total_seconds(): they are not the exact base-class fields
DURATION_FLOAT_ATTRS = {
    "days", "seconds", "microseconds", "remaining_seconds", "remaining_days", "hours", "minutes", "weeks",
    "total_seconds", "total_minutes", "total_hours", "total_days", "total_weeks",
    "in_seconds", "in_minutes", "in_hours", "in_days", "in_weeks",
}  # fmt: skip

UTC_NAMES = {"datetime.timezone.utc", "datetime.UTC"}

# classes whose == is as fine as their printed form *and* which admit no subclass with extra printed state in this
# library's traffic: a memoised function may render a parameter of these classes
EXACT_EQ = {
    "builtins.str": "text compares by content",
    "builtins.bytes": "bytes compare by content",
    "builtins.type": "classes compare by identity",
    "uuid.UUID": "compares by its 128-bit value, which is what it prints",
    "builtins.bool": "two values",
}

# classes whose == is coarser than their printed representation
COARSE_EQ = {
    "decimal.Decimal": "Decimal('1.10') == Decimal('1.1') but they print differently",
    "builtins.float": "0.0 == -0.0, 1.0 == 1 == True across classes",
    "builtins.int": "1 == 1.0 == True across classes",
    "numbers.Number": "numbers compare across classes and precisions",
    "datetime.datetime": "aware datetimes compare by instant, not by offset",
    "datetime.time": "aware times compare by UTC-adjusted time",
    "datetime.date": "datetime subclasses date",
}

# raise sets of stdlib constructors / parsers applied to wire values (beyond TypeError/ValueError)
RAISE_SETS = {
    "decimal.Decimal": ["decimal.InvalidOperation", "builtins.TypeError", "builtins.ValueError"],
    "fractions.Fraction": ["builtins.ValueError", "builtins.ZeroDivisionError", "builtins.TypeError"],
    "re.compile": ["re.error", "builtins.TypeError"],
    "datetime.datetime.fromtimestamp": ["builtins.OverflowError", "builtins.OSError", "builtins.ValueError", "builtins.TypeError"],
    "builtins.int": ["builtins.ValueError", "builtins.TypeError", "builtins.OverflowError"],
    "builtins.float": ["builtins.ValueError", "builtins.TypeError", "builtins.OverflowError"],
    "uuid.UUID": ["builtins.ValueError", "builtins.TypeError", "builtins.AttributeError"],
    "datetime.timedelta": ["builtins.OverflowError", "builtins.TypeError", "builtins.ValueError"],
    "pathlib.PurePath": ["builtins.TypeError"],
    "enum.Enum": ["builtins.ValueError"],
    # on *text*: malformed -> ValueError/SyntaxError; deep operator chains -> RecursionError; very long ones -> MemoryError
    "ast.literal_eval": ["builtins.ValueError", "builtins.TypeError", "builtins.SyntaxError", "builtins.RecursionError", "builtins.MemoryError"],
}


def type_alias_classes() -> list[str]:
    """Every class whose instances are PEP 695 style aliases in this environment: typing's own and, where the installed
    typing_extensions ships a distinct backport class, that one too."""
    out = ["typing.TypeAliasType"] if hasattr(typing, "TypeAliasType") else []
    try:
        import typing_extensions as _te

        if getattr(_te, "TypeAliasType", None) is not None and _te.TypeAliasType is not getattr(typing, "TypeAliasType", None):
            out.append("typing_extensions.TypeAliasType")
    except ImportError:
        pass
    return out


def sample_instance(dotted: str):
    """An instance of a stdlib class whose attributes answer hasattr() questions about such instances (TypeVar only)."""
    if dotted == "typing.TypeVar":
        return typing.TypeVar("T")
    return None


def exc_covered(exc: str, handlers: list[str]) -> bool:
    try:
        e = resolve(exc)
    except Exception:
        return False
    for h in handlers:
        try:
            if issubclass(e, resolve(h)):
                return True
        except Exception:
            continue
    return False


def ast_fields(node: str) -> tuple:
    return getattr(ast, node)._fields


def typing_origin(name: str):
    obj = getattr(typing, name, None)
    return getattr(obj, "__origin__", None)


__all__ = [n for n in dir() if not n.startswith("_")]
del collections, decimal, enum, fractions, numbers, pathlib, re, types, uuid
