"""C20 — annotation rewriting for older interpreters preserves meaning (structural necessary conditions)."""

from __future__ import annotations

import ast
import re

from .. import oracle
from .. import paths as P
from .. import terms as T
from ..model import AnalysisError, Program
from ..report import Report

EXPLANATION = (
    "R20.1 traversal completeness: for every visit_X override of the NodeTransformer, on every path each expression-valued field of ast.X (taken from "
    "the interpreter's own grammar) flows into self.visit/self.generic_visit, or the node itself is returned from generic_visit. R20.2 |-chain "
    "flattening descends only through BitOr nodes and keeps operand order (the deque built while walking left equals the in-order operand sequence). "
    "R20.3 each _GENERICS entry maps a builtin name to the typing alias whose __origin__ is that builtin, no value is itself a key and values are dotted "
    "(so a second pass is the identity), and transform() applies the transformer to the whole parsed tree and unparses the result. "
    "R20.4 no path constructs a BitOr BinOp; the union subscript is built from the configured union name and the visited operands. "
    "R20.5 outside those two rewrites every visit_X override is a homomorphism: it returns the node (possibly after generic_visit, or after storing "
    "visited children back into their own fields) or a new ast.X whose every grammar field is the image (the field itself / its visit) of the same field."
)
ASSUMPTIONS = [
    "structural equality of the *evaluated* types, and AST identity for inputs without the constructs, are runtime statements (ND)",
    "ast.NodeTransformer.generic_visit visits every child field (stdlib)",
]
TRUSTED = oracle.TRUSTED + ["ast node grammar from ast.<Node>.__doc__ of the running interpreter"]
MOD = "typelib.py.future"
NODE = ("param", "node")


def expr_fields(node_name: str) -> list[tuple[str, bool]]:
    """(field, is_list) for expression-valued fields of ast.<node_name>, parsed from the interpreter's grammar string."""
    doc = getattr(ast, node_name).__doc__ or ""
    m = re.match(rf"{node_name}\((.*)\)", doc.replace("\n", " "))
    out = []
    if m:
        for part in m.group(1).split(","):
            part = part.strip()
            if not part:
                continue
            ty, _, name = part.rpartition(" ")
            if ty.rstrip("*?") == "expr":
                out.append((name, ty.endswith("*")))
    return out


def visited_terms(p: P.Path) -> list[tuple]:
    """Terms passed to self.visit / self.generic_visit on this path (comprehension elements included)."""
    out = []
    for tm in p.all_terms():
        for s in T.walk(tm):
            if s[0] == "call" and s[1][0] == "attr" and s[1][1] == ("param", "self") and s[1][2] in ("visit", "generic_visit") and s[2]:
                out.append((s[1][2], s[2][0]))
    return out


def skipped_elements(p: P.Path, field: str) -> bool:
    """A comprehension over node.<field> whose elements are visited only conditionally (filter or conditional element)."""
    f = ("attr", NODE, field)
    for tm in p.all_terms():
        for s in T.walk(tm):
            if s[0] == "comp" and s[3] and s[3][0][0] == f:
                elt = s[2]
                unconditional = elt[0] == "call" and elt[1][0] == "attr" and elt[1][1] == ("param", "self") and elt[1][2] in ("visit", "generic_visit") and elt[2][:1] == (("elem", f),)
                if s[4] or not unconditional:
                    if T.contains(elt, lambda x: x[0] == "call" and x[1][0] == "attr" and x[1][2] in ("visit", "generic_visit")):
                        return True
    return False


def flows(field: str, is_list: bool, visited) -> bool:
    f = ("attr", NODE, field)
    for kind, tm in visited:
        if kind == "generic_visit" and tm == NODE:
            return True
        if tm == f:
            return True
        if is_list and tm == ("elem", f):
            return True
        # element of a collection that contains the field (deque/list built from it)
        if tm[0] == "elem" and T.contains(tm[1], lambda s, f=f: s == f):
            return True
    return False


def r20_1(prog: Program, rep: Report, cls):
    n = 0
    for name, m in sorted(cls.methods.items()):
        if not name.startswith("visit_"):
            continue
        node_name = name[len("visit_") :]
        if not hasattr(ast, node_name):
            rep.undecided("R20.1", m.qualname, m.loc, f"ast.{node_name} unknown to the running interpreter")
            continue
        fields = expr_fields(node_name)
        ps = P.splice_helpers(prog, P.paths_of(prog, m))
        for i, p in enumerate(ps):
            if p.exit[0] != "return":
                continue
            vis = visited_terms(p)
            missing = [f for f, is_list in fields if not flows(f, is_list, vis) or (is_list and skipped_elements(p, f))]
            gs = "; ".join(("" if pol else "not ") + T.show(g)[:50] for g, pol in p.guards()) or "unconditional"
            n += 1
            if not fields:
                rep.held("R20.1", m.qualname, m.loc, f"path [{gs}]: ast.{node_name} has no expression-valued children", detail=f"path{i}", nontrivial=False)
                continue
            rep.check(
                not missing, "R20.1", m.qualname, m.loc,
                f"path [{gs}]: fields {[f for f, _ in fields]} of ast.{node_name} are all visited",
                f"path [{gs}]: the node is returned without visiting its child field(s) {missing}: constructs nested inside are never rewritten (e.g. a `|` under another operator survives)",
                detail=f"path{i}",
            )  # fmt: skip
    return n


def r20_2(prog: Program, rep: Report, cls):
    m = cls.methods.get("visit_BinOp")
    if m is None:
        rep.violated("R20.2", cls.qualname, cls.loc, "no visit_BinOp: PEP 604 unions are never rewritten")
        return
    ps = P.splice_helpers(prog, P.paths_of(prog, m))
    # the rewriting paths are those that build a Subscript
    rew = [p for p in ps if p.exit[0] == "return" and T.contains(p.exit[1], lambda s: T.is_call_to(s, "ast.Subscript"))]
    if not rew:
        rep.violated("R20.2", m.qualname, m.loc, "no path builds the union subscript")
        return
    # entry guard: the node's own operator is BitOr
    own = all(any(T.is_call_to(g, "builtins.isinstance") and g[2] == (("attr", NODE, "op"), ("ref", "ast.BitOr")) and pol for g, pol in p.guards()) for p in rew)
    rep.check(own, "R20.2", m.qualname, m.loc, "only BitOr nodes are rewritten into a union", "a BinOp whose operator is not `|` can be rewritten into a union", detail="own-operator")
    # ... and every one of them: no exit hands a `|` node back in some other form
    is_own = lambda g: T.is_call_to(g, "builtins.isinstance") and g[2] == (("attr", NODE, "op"), ("ref", "ast.BitOr"))  # noqa: E731
    kept = [p for p in ps if p.exit[0] == "return" and p not in rew and any(is_own(a) and pol for a, pol in T.derive_atoms(p.guards()))]
    rep.check(not kept, "R20.2", m.qualname, m.loc, "every node whose operator is `|` leaves as a union subscript", f"an exit of visit_BinOp returns a `|` node without rewriting it ({T.show(kept[0].exit[1])[:50] if kept else ''}): for the annotations that take it the PEP 604 union stays in the output -- `'Node' | None` is still `'Node' | None`", detail="every-bitor")
    # descent guard
    whiles = [e for p in rew for e in p.events if e[0] == "while" and e[2] == 1]
    ok_desc = bool(whiles)
    for e in whiles:
        test = e[1]
        subj = [s[2][0] for s in T.walk(test) if T.is_call_to(s, "builtins.isinstance") and s[2][1] == ("ref", "ast.BinOp")]
        ops = [s[2][0] for s in T.walk(test) if T.is_call_to(s, "builtins.isinstance") and s[2][1] == ("ref", "ast.BitOr")]
        if not subj or not any(o == ("attr", subj[0], "op") for o in ops):
            ok_desc = False
    rep.check(ok_desc, "R20.2", m.qualname, m.loc, "the left-walk descends only through nodes whose operator is BitOr", "the left-walk descends through any BinOp: `a + b | c` is flattened into Union[a, b, c]", detail="descent")
    # operand order
    ok_order = True
    shapes = []
    for p in rew:
        vis = [tm for kind, tm in visited_terms(p) if kind == "visit"]
        seqs = [tm[1] for tm in vis if tm[0] == "elem"]
        for sq in seqs:
            def seq_items(x):
                """Elements, in iteration order, of a locally built sequence expression."""
                if x[0] in ("list", "tuple"):
                    return None if any(y[0] == "star" for y in x[1]) else list(x[1])
                if x[0] == "call" and T.refname(x[1]) in ("collections.deque", "builtins.list", "builtins.tuple", "builtins.iter") and len(x[2]) == 1:
                    return seq_items(x[2][0])
                if x[0] == "call" and T.refname(x[1]) == "builtins.reversed" and len(x[2]) == 1:
                    inner_ = seq_items(x[2][0])
                    return None if inner_ is None else inner_[::-1]
                if x[0] == "sub" and x[2] == ("slice", None, None, ("const", -1)):
                    inner_ = seq_items(x[1])
                    return None if inner_ is None else inner_[::-1]
                return None

            items = seq_items(sq)
            if items is None:
                ok_order = False
                continue
            looped = any(e[0] == "while" and e[2] == 1 for e in p.events)
            L, R = ("attr", NODE, "left"), ("attr", NODE, "right")
            want = [("attr", L, "left"), ("attr", L, "right"), R] if looped else [L, R]
            shapes.append((looped, items == want))
            if items != want:
                ok_order = False
    rep.check(ok_order and bool(shapes), "R20.2", m.qualname, m.loc, "operands are collected in source order (in-order walk of the left spine)", "operands of a |-chain are collected out of source order", detail="order")
    # the subscript is built from the configured union name and the visited operands
    ok_build = True
    for p in rew:
        r = p.exit[1]
        subs = [s for s in T.walk(r) if T.is_call_to(s, "ast.Subscript")]
        good = False
        for s in subs:
            kw = dict(s[3])
            val = kw.get("value")
            if val is not None and T.is_call_to(val, "ast.Name") and dict(val[3]).get("id") == ("attr", ("param", "self"), "union"):
                tup = [x for x in T.walk(kw.get("slice", ("const", None))) if T.is_call_to(x, "ast.Tuple")]
                if tup and dict(tup[0][3]).get("elts") is not None:
                    e = dict(tup[0][3])["elts"]
                    if e[0] == "comp" and e[2][0] == "call" and e[2][1] == ("attr", ("param", "self"), "visit"):
                        good = True
        ok_build = ok_build and good
    rep.check(ok_build, "R20.2", m.qualname, m.loc, "the union is <self.union>[(visited operands…)]", "the union subscript is not built from self.union and the visited operands", detail="build")


def r20_3(prog: Program, rep: Report):
    mod = prog.module(MOD)
    # the table is whatever visit_Name looks node.id up in: a module constant or a class-level constant
    G = None
    cls0 = prog.cls(f"{MOD}.TransformAnnotation")
    vn0 = cls0.methods.get("visit_Name")
    ident0 = ("attr", NODE, "id")
    if vn0 is not None:
        for pth in P.paths_of(prog, vn0):
            for tm0 in pth.all_terms():
                for x in T.walk(tm0):
                    if x[0] == "cmp" and x[1] in ("in", "notin") and x[2] == ident0:
                        G = G or x[3]
                    if x[0] == "sub" and x[2] == ident0:
                        G = G or x[1]
                    if x[0] == "call" and x[1][0] == "attr" and x[1][2] == "get" and x[2][:1] == (ident0,):
                        G = G or x[1][1]
    if G is None:
        G = ("ref", f"{MOD}._GENERICS")
    if G[0] == "ref" and G[1].startswith(MOD + "."):
        nm0 = G[1].rsplit(".", 1)[1]
        tm = T.fold_consts(P.module_term(prog, mod, nm0))
        loc = f"{mod.relpath}:{mod.assign_nodes[nm0].lineno}"
    else:
        tm = T.fold_consts(G)
        loc = cls0.loc
    if tm[0] != "dict":
        raise AnalysisError("the builtin-generics table is not a dict display")
    import builtins
    import typing

    pairs = {}
    for k, v in tm[1]:
        if k is None or k[0] != "const" or v[0] != "const":
            rep.undecided("R20.3", f"{MOD}._GENERICS", loc, "non-constant entry")
            continue
        pairs[k[1]] = v[1]
    for k, v in pairs.items():
        ok = False
        why = ""
        if not v.startswith("typing.") or v.count(".") != 1:
            why = "value is not a dotted typing name (re-parsing would hand it back to visit_Name)"
        else:
            alias = getattr(typing, v.split(".")[1], None)
            org = getattr(alias, "__origin__", None)
            if org is None:
                why = f"{v} is not a typing alias"
            elif hasattr(builtins, k):
                ok = org is getattr(builtins, k)
                why = f"{v}.__origin__ is {org!r}, not the builtin {k}"
            else:
                ok = getattr(org, "__name__", None) == k
                why = f"{v}.__origin__ is {org!r}, not a class named {k}"
        rep.check(ok, "R20.3", f"{MOD}._GENERICS", loc, f"{k!r} -> {v!r}: the alias's origin is that class", f"{k!r} -> {v!r}: {why}", detail=k)
    rep.check(not (set(pairs.values()) & set(pairs)), "R20.3", f"{MOD}._GENERICS", loc, "no value is itself a key (second pass is the identity)", "a value is itself a key: transform is not idempotent", detail="fixpoint")
    # visit_Name uses the table on node.id only
    cls = prog.cls(f"{MOD}.TransformAnnotation")
    vn = cls.methods.get("visit_Name")
    if vn is None:
        rep.violated("R20.3", cls.qualname, cls.loc, "no visit_Name: builtin generics are never rewritten", detail="visit_Name")
    else:
        ident = ("attr", NODE, "id")
        good = True
        for p, r in P.returns(P.paths_of(prog, vn)):
            member = [pol for g, pol in p.guards() if g == ("cmp", "in", ident, G) or g == ("cmp", "notin", ident, G)]
            if r == NODE:
                continue
            names = [s for s in T.walk(r) if T.is_call_to(s, "ast.Name")]
            got = dict(names[0][3]).get("id") if names else None
            looked = [("call", ("attr", G, "get"), (ident,), ()), ("call", ("attr", G, "get"), (ident, ("const", None)), ())]
            if got in looked:
                # `v = _GENERICS.get(node.id)` used only where `v is None` failed (the values are non-empty strings)
                member = [pol for g, pol in p.guards() if (g == ("cmp", "is", got, ("const", None)) and not pol) or (g == got and pol)]
            elif got != ("sub", G, ident):
                good = False
            if not member:
                good = False
        rep.check(good, "R20.3", vn.qualname, vn.loc, "a Name is replaced by _GENERICS[node.id] only when node.id is a key", "visit_Name does not map node.id through _GENERICS under a membership guard", detail="visit_Name")
    # transform(): parse -> transformer over the whole tree -> unparse
    f = prog.function(f"{MOD}.transform")
    ok = False
    # a path that hands the text back unparsed is a textual shortcut whose soundness depends on string reasoning
    for p, r in P.returns(P.paths_of(prog, f)):
        if not T.contains(r, lambda s: T.is_call_to(s, "ast.unparse")):
            gs = [g for g, pol in p.guards()]
            simple = bool(gs) and all(T.contains(g, lambda s: s[0] == "cmp" and s[1] in ("in", "notin") and s[2][0] == "const" and s[3] == ("param", "annotation")) for g in gs)
            if not simple:
                rep.undecided("R20.3", f.qualname, f.loc, "a path of transform() returns without parsing under a condition computed from the text (" + "; ".join(T.show(g)[:60] for g in gs)[:160] + "): whether every rewritable construct is excluded there cannot be decided structurally", detail="textual-shortcut")
    for p, r in P.returns(P.paths_of(prog, f)):
        parsed = ("call", ("ref", "ast.parse"), (("param", "annotation"),), (("mode", ("const", "eval")),))
        for s in T.walk(r):
            if T.is_call_to(s, "ast.unparse") and s[2]:
                a = s[2][0]
                if a[0] == "call" and a[1][0] == "attr" and a[1][2] in ("visit", "generic_visit") and a[2] == (parsed,):
                    ctor = a[1][1]
                    if T.is_call_to(ctor, f"{MOD}.TransformAnnotation") and (dict(ctor[3]).get("union") == ("param", "union") or ctor[2] == (("param", "union"),)):
                        ok = True
    rep.check(ok, "R20.3", f.qualname, f.loc, "transform = unparse(TransformAnnotation(union=union).visit(parse(annotation, mode='eval')))", "transform() does not run the transformer (with the caller's union name) over the whole parsed tree and unparse it", detail="transform")


def r20_4(prog: Program, rep: Report, cls):
    bad = []
    for name, m in cls.methods.items():
        for p in P.splice_helpers(prog, P.paths_of(prog, m)):
            for c in p.calls():
                if T.refname(c[1]) in ("ast.BinOp", "ast.BitOr"):
                    bad.append(f"{name}: {T.show(c)[:60]}")
    rep.check(not bad, "R20.4", cls.qualname, cls.loc, "no method constructs a BinOp/BitOr node", f"a PEP 604 union is constructed: {bad[:2]}")


def all_fields(node_name: str) -> list[tuple[str, str]]:
    """(field, grammar type) for every field of ast.<node_name>."""
    doc = getattr(ast, node_name).__doc__ or ""
    m = re.match(rf"{node_name}\((.*)\)", doc.replace("\n", " "))
    out = []
    if m:
        for part in m.group(1).split(","):
            part = part.strip()
            if part:
                ty, _, name = part.rpartition(" ")
                out.append((name, ty))
    return out


def _is_self_visit(tm) -> bool:
    return tm[0] == "call" and tm[1] in (("attr", ("param", "self"), "visit"), ("attr", ("param", "self"), "generic_visit")) and len(tm[2]) == 1 and not tm[3]


def _field_image(field: str, ty: str, val) -> str | None:
    """None when `val` is the image of node.<field> under the transformer (the child itself or its visit), else the reason."""
    f = ("attr", NODE, field)
    base = ty.rstrip("*?")
    if base != "expr":
        if val == f:
            return None
        if base == "expr_context" and T.is_call_to(val, "ast.Load") and not val[2] and not val[3]:
            return None  # an annotation is parsed in eval mode: every context in it is Load
        return f"`{field}` ({ty}) is not the node's own `{field}`: {T.show(val)[:70]}"
    if not ty.endswith("*"):
        if val == f or (_is_self_visit(val) and val[2][0] == f):
            return None
        return f"`{field}` is not self.visit(node.{field}): {T.show(val)[:70]}"
    # list of expressions: [self.visit(n) for n in node.f] | list(map(self.visit, node.f)) | node.f
    if val == f:
        return None
    if val[0] == "comp" and val[1] == "list" and len(val[3]) == 1 and val[3][0][0] == f and not val[4]:
        e = val[2]
        if e == ("elem", f) or (_is_self_visit(e) and e[2][0] == ("elem", f)):
            return None
    if val[0] == "call" and T.refname(val[1]) in ("builtins.list", "list") and len(val[2]) == 1:
        inner = val[2][0]
        if inner[0] == "call" and T.refname(inner[1]) in ("builtins.map", "map") and len(inner[2]) == 2:
            if inner[2][0] in (("attr", ("param", "self"), "visit"),) and inner[2][1] == f:
                return None
    if val[0] == "list" and any(x[0] == "star" for x in val[1:] if isinstance(x, tuple)):
        pass
    return f"`{field}` is not the list of visited elements of node.{field}: {T.show(val)[:70]}"


def r20_5(prog: Program, rep: Report, cls):
    """Outside the two rewrites (a BitOr chain, a Name in _GENERICS) every override is a homomorphism: what it returns is the
    node itself (possibly after generic_visit / after storing visited children back into their own fields) or a new node of the
    same class whose every field is the image of the same field of the input."""
    for name, m in sorted(cls.methods.items()):
        if not name.startswith("visit_"):
            continue
        node_name = name[len("visit_") :]
        if not hasattr(ast, node_name):
            continue
        fields = all_fields(node_name)
        ps = P.splice_helpers(prog, P.paths_of(prog, m))
        for i, p in enumerate(ps):
            if p.exit[0] != "return":
                continue
            r = p.exit[1]
            gs = "; ".join(("" if pol else "not ") + T.show(g)[:50] for g, pol in p.guards()) or "unconditional"
            # the two rewrites are judged by R20.2 / R20.3
            if node_name == "BinOp" and T.is_call_to(r, "ast.Subscript"):
                continue
            # (the rewrite of a Name: its new id is looked up, under the node's own id, in whatever table R20.3 judges)
            ID = ("attr", NODE, "id")
            if node_name == "Name" and T.is_call_to(r, "ast.Name") and T.contains(dict(r[3]).get("id", ("const", None)), lambda x: (x[0] == "sub" and x[2] == ID) or (x[0] == "call" and x[1][0] == "attr" and x[1][2] == "get" and x[2][:1] == (ID,))):
                continue
            why = None
            # stores into the input node
            for e in p.events:
                if e[0] == "setattr" and e[1] == NODE:
                    ty = dict(fields).get(e[2])
                    if ty is None:
                        continue  # location attributes and the like
                    w = _field_image(e[2], ty, e[3])
                    if w:
                        why = "the input node is modified: " + w
            if why is None:
                if r == NODE or (_is_self_visit(r) and r[2][0] == NODE):
                    pass
                elif T.is_call_to(r, f"ast.{node_name}"):
                    given = dict(r[3])
                    for (fname, _), v in zip(fields, r[2]):
                        given.setdefault(fname, v)
                    for fname, ty in fields:
                        if fname not in given:
                            if ty.endswith("?") or ty.endswith("*"):
                                why = f"`{fname}` of the rebuilt ast.{node_name} is dropped"
                                break
                            why = f"`{fname}` of the rebuilt ast.{node_name} is not given"
                            break
                        w = _field_image(fname, ty, given[fname])
                        if w:
                            why = w
                            break
                elif r[0] == "call" and r[1][0] == "ref" and r[1][1].startswith("ast."):
                    why = f"an ast.{node_name} is replaced by {T.show(r)[:60]}"
                else:
                    rep.undecided("R20.5", m.qualname, m.loc, f"path [{gs}]: the returned value {T.show(r)[:80]} is neither the node nor a rebuilt ast.{node_name}", detail=f"path{i}")
                    continue
            rep.check(
                why is None, "R20.5", m.qualname, m.loc,
                f"path [{gs}]: the result is the node, or an ast.{node_name} whose fields are the images of the input's fields",
                f"path [{gs}]: a tree with no `|` union and no builtin generic does not come back unchanged: {why}",
                detail=f"path{i}",
            )  # fmt: skip


def run(prog: Program, rep: Report, tier: str):
    rep.rule("R20.1", "traversal completeness of every visit_X override", floor=5)
    rep.rule("R20.2", "BitOr-only chain flattening, operand order, union construction", floor=4)
    rep.rule("R20.3", "_GENERICS agrees with typing; fixpoint; transform() pipeline", floor=8)
    rep.rule("R20.4", "no BitOr BinOp is constructed", floor=1)
    rep.rule("R20.5", "every override is a homomorphism outside the two rewrites", floor=3)
    cls = prog.cls(f"{MOD}.TransformAnnotation")
    bases = prog.external_bases(cls)
    if "ast.NodeTransformer" not in bases:
        rep.violated("R20.1", cls.qualname, cls.loc, f"TransformAnnotation is not an ast.NodeTransformer (bases {bases})", detail="base")
    r20_1(prog, rep, cls)
    r20_2(prog, rep, cls)
    r20_3(prog, rep)
    r20_4(prog, rep, cls)
    r20_5(prog, rep, cls)
