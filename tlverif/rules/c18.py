"""C18 — generic item and value iteration is lossless and non-destructive."""

from __future__ import annotations

from .. import oracle
from .. import paths as P
from .. import terms as T
from ..model import AnalysisError, Program
from ..report import Report
from . import common as C
from . import effects as E

EXPLANATION = (
    "R18.1 no `next(it)` / `.peek()` without a default outside a StopIteration handler on a possibly empty iterator. R18.2 consumed-iterator typestate: "
    "once a value is wrapped by peekable() (or advanced by next) only the wrapper may be returned or iterated; iteritems hands the helper's second result, "
    "not the original, to the strategy. R18.3 every class kind that get_items_iter tests before its generic-iterable arm is excluded before "
    "_is_iterable_of_pairs peeks at contents (sibling agreement; shared with C13). R18.4 each of the four attribute-name sources of "
    "_make_fields_iterator is filtered by a public-name test on the emitted name. R18.5 itervalues projects the value component of the same strategy; strategy "
    "order is mapping, namedtuple, iterable, fields. R18.6 no serdes iteration function mutates its argument. R18.11 inspection.get_type_hints does not ask "
    "typing.get_type_hints to keep Annotated[...] wrappers (include_extras) unless the unwrapping predicates refer to typing.Annotated: a ClassVar inside one is not recognised."
)
ASSUMPTIONS = [
    "exact pairs for every x (ClassVar fields, custom Mappings) are runtime statements (ND)",
    "more_itertools.peekable semantics: peek(default) does not consume; iterating the wrapper yields the peeked element first",
]
TRUSTED = oracle.TRUSTED + ["more_itertools.peekable", "operator.methodcaller"]



def _extends(prog, f, term):
    """`W(X)` where the local function W hands back its argument, or a generator that first yields every pair X yields and
    then more of its own: what the rules say about X's pairs holds for the result (nothing X yields is lost, reordered or
    changed).  Returns X, or None when `term` is not of that shape."""
    import ast

    if not (term[0] == "call" and term[1][0] == "closure" and len(term[2]) == 1 and not term[3] and (term[2][0][0] in ("closure", "ref") or T.is_call_to(term[2][0], "functools.partial"))):
        return None
    w = P.nested_function(prog, f, term[1][1].rsplit(".", 1)[-1])
    if w is None or len(w.params) != 1:
        return None
    inner = w.params[0]
    gens = {n.name: n for n in ast.walk(w.node) if isinstance(n, ast.FunctionDef) and n is not w.node}
    rets = [n for n in ast.walk(w.node) if isinstance(n, ast.Return) and not any(n in ast.walk(g) for g in gens.values())]
    if not rets:
        return None
    for r in rets:
        v = r.value
        if isinstance(v, ast.Name) and v.id == inner:
            continue
        g = gens.get(v.id) if isinstance(v, ast.Name) else None
        if g is None or len(g.args.args) != 1:
            return None
        gp = g.args.args[0].arg
        passes_on = False
        for loop in ast.walk(g):
            if isinstance(loop, ast.For) and isinstance(loop.iter, ast.Call) and isinstance(loop.iter.func, ast.Name) and loop.iter.func.id == inner and [ast.unparse(a) for a in loop.iter.args] == [gp] and not loop.iter.keywords:
                tgt = ast.unparse(loop.target)
                if any(isinstance(y, ast.Yield) and y.value is not None and ast.unparse(y.value) in (tgt, f"({tgt})") for st in loop.body for y in ast.walk(st)) and not any(isinstance(st, (ast.If, ast.Break, ast.Continue, ast.Return)) for st in loop.body):
                    # every pair of the inner iterator is yielded, as it is, before anything else
                    first = next((st for st in g.body if not (isinstance(st, ast.Expr) and isinstance(st.value, ast.Constant))), None)
                    pre = g.body[: g.body.index(loop)] if loop in g.body else None
                    if pre is not None and not any(isinstance(y, (ast.Yield, ast.YieldFrom)) for st in pre for y in ast.walk(st)):
                        passes_on = True
                    del first
        if not passes_on:
            return None
    return term[2][0]


def _fi_paths(prog, f):
    out = []
    for p in P.splice_helpers(prog, P.paths_of(prog, f)):
        if p.exit[0] == "return" and len(p.exit) > 1 and p.exit[1] is not None:
            x = _extends(prog, f, p.exit[1])
            if x is not None:
                p = P.Path(list(p.events), (p.exit[0], x), dict(p.env))
        out.append(p)
    return out

def serdes_functions(prog):
    return [f for q, f in sorted(prog.functions.items()) if q.startswith(C.SERDES + ".")]


def r18_1(prog, rep):
    n = 0
    for f in serdes_functions(prog):
        try:
            ps = P.paths_of(prog, f)
        except AnalysisError:
            continue
        seen = set()
        for p in ps:
            handled = any(e[0] == "caught" and oracle.exc_covered("builtins.StopIteration", [T.refname(e[1]) or ""]) for e in p.events)
            for c in p.calls():
                key = T.show(c)[:80]
                unguarded = None
                if T.is_call_to(c, "builtins.next") and len(c[2]) == 1 and not c[3]:
                    unguarded = "next() without a default"
                elif c[1][0] == "attr" and c[1][2] == "peek" and not c[2] and not c[3]:
                    unguarded = ".peek() without a default"
                elif T.is_call_to(c, "builtins.next") or (c[1][0] == "attr" and c[1][2] == "peek"):
                    if key not in seen:
                        seen.add(key)
                        n += 1
                        rep.held("R18.1", f.qualname, f.loc, f"{key}: a default is supplied for the empty case", detail=f"peek#{len(seen)}")
                    continue
                if unguarded and key not in seen:
                    seen.add(key)
                    n += 1
                    rep.check(handled, "R18.1", f.qualname, f.loc, f"{key} runs under a StopIteration handler", f"{unguarded} on a possibly empty iterator: {key} raises StopIteration for an empty one-shot iterator", detail=f"peek#{len(seen)}")
    return n


def r18_2(prog, rep):
    f = prog.functions.get(f"{C.SERDES}._is_iterable_of_pairs")
    it_f = prog.function(f"{C.SERDES}.iteritems")
    if f is None:
        rep.undecided("R18.2", f"{C.SERDES}.iteritems", it_f.loc, "peek helper not found; iteritems shape outside the idiom set")
        return
    val = ("param", f.params[0])
    for i, (p, r) in enumerate(P.returns(P.paths_of(prog, f))):
        if r[0] != "tuple" or len(r[1]) != 2:
            rep.undecided("R18.2", f.qualname, f.loc, "helper does not return a (flag, iterable) pair")
            continue
        second = r[1][1]
        wrappers = [c for c in p.calls() if (T.refname(c[1]) or "").endswith("peekable") and c[2] == (val,)]
        advanced = [c for c in p.calls() if T.is_call_to(c, "builtins.next") and c[2] and c[2][0] == val]
        if wrappers:
            rep.check(second == wrappers[0], "R18.2", f.qualname, f.loc, "after peekable(val) the wrapper is what is handed on", "after peekable(val) the original iterable is returned: the peeked first element is lost for one-shot iterators", detail=f"ret#{i}")
        elif advanced:
            rep.violated("R18.2", f.qualname, f.loc, "next(val) advances the caller's iterator and nothing re-attaches the element", detail=f"ret#{i}")
        else:
            fresh = [c for c in p.calls() if T.is_call_to(c, "builtins.next") and c[2] and T.is_call_to(c[2][0], "builtins.iter")]
            seq_guard = any(pol and T.is_call_to(g, f"{C.INSP}.issequencetype") for g, pol in p.guards())
            rep.check(second == val and (not fresh or seq_guard), "R18.2", f.qualname, f.loc, "no element consumed on this path (fresh iterator over a proven sequence, or no peek at all)", "a fresh iter() is peeked on something not proven to be a re-iterable sequence", detail=f"ret#{i}")
    # iteritems passes the helper's result on
    helper = ("call", ("ref", f.qualname), (("param", it_f.params[0]),), ())
    second = ("unpack", helper, 1, 2)
    ok = True
    for p, r in P.returns(P.paths_of(prog, it_f)):
        uses_val = [s for s in T.walk(r) if s == ("param", it_f.params[0])]
        # the only permitted uses of the raw argument are inside the helper call and `val.__class__`
        inner = T.rewrite(r, lambda tm: ("const", 0) if tm == helper or tm == ("attr", ("param", it_f.params[0]), "__class__") else None)
        if T.contains(inner, lambda s: s == ("param", it_f.params[0])):
            ok = False
        if not T.contains(r, lambda s: s == second):
            ok = False
        del uses_val
    # ... and where the helper answers "these are pairs already", they are what is iterated: not run through a strategy again
    first = ("unpack", helper, 0, 2)
    direct = False
    restrategised = False
    def _alts(tm, conds=()):
        if tm[0] == "ifexp":
            return _alts(tm[2], conds + ((tm[1], True),)) + _alts(tm[3], conds + ((tm[1], False),))
        if tm[0] == "call" and tm[1][0] == "ifexp":
            # (f if c else g)(x) is f(x) if c else g(x): `iterate = iter if is_pairs else get_items_iter(cls)`
            return _alts(("call", tm[1][2], tm[2], tm[3]), conds + ((tm[1][1], True),)) + _alts(("call", tm[1][3], tm[2], tm[3]), conds + ((tm[1][1], False),))
        return [(tm, conds)]

    it_paths = P.paths_of(prog, it_f)
    exits = [(p, r) for p, r in P.returns(it_paths)]
    # the generator spelling: `yield from it` under the test, `yield from iterate(it)` otherwise
    exits += [(p, e[1]) for p in it_paths for e in p.events if e[0] in ("yield", "yieldfrom")]
    for p, r0 in exits:
        for r, extra in _alts(r0):
            gs = list(p.guards()) + list(extra)
            is_pairs = any(pol and g == first for g, pol in gs)
            not_pairs = any((not pol) and g == first for g, pol in gs)
            plain = r == second or (T.is_call_to(r, "builtins.iter") and r[2] == (second,)) or r == ("const", None) or r == T.elem(second)
            if is_pairs and plain and r != ("const", None):
                direct = True
            if not plain and not not_pairs:
                restrategised = True
    rep.check(direct and not restrategised, "R18.2", it_f.qualname, it_f.loc, "an iterable of pairs is iterated as it is; only what is not one goes through a strategy", "iteritems runs a strategy over a value the helper found to be an iterable of pairs already (or never returns the pairs as they are): [('a', 1), ('b', 2)] comes out as (0, ('a', 1)), (1, ('b', 2)) -- a mapping given as JSON pairs is read as a list of positions", detail="pairs-as-they-are")
    rep.check(ok, "R18.2", it_f.qualname, it_f.loc, "iteritems iterates the helper's returned iterable, never the original argument", "iteritems iterates the original argument after the helper may have consumed its first element", detail="handoff")


def strategy_order(prog, rep):
    f = prog.function(f"{C.SERDES}.get_items_iter")
    tp = ("param", f.params[0])
    order = []
    for p, r in P.returns(P.paths_of(prog, f)):
        pos = [(T.refname(g[1]) or "").rsplit(".", 1)[-1] for g, pol in p.guards() if pol and g[0] == "call" and g[2] == (tp,)]
        neg = [(T.refname(g[1]) or "").rsplit(".", 1)[-1] for g, pol in p.guards() if not pol and g[0] == "call" and g[2] == (tp,)]
        order.append((pos, neg, r))
    return f, order


def r18_3(prog, rep, rule="R18.3"):
    f, order = strategy_order(prog, rep)
    # kinds tested before the generic-iterable arm
    before = []
    for pos, neg, r in order:
        if pos and pos[0] != "isiterabletype":
            before.append(pos[0])
        if pos and pos[0] == "isiterabletype":
            break
    h = prog.functions.get(f"{C.SERDES}._is_iterable_of_pairs")
    if h is None:
        rep.undecided(rule, f"{C.SERDES}.iteritems", f.loc, "peek helper not found")
        return
    cls = ("attr", ("param", h.params[0]), "__class__")
    excluded = set()
    needs_iter = False
    for p, r in P.returns(P.paths_of(prog, h)):
        peeks = any(T.is_call_to(c, "builtins.next") or (c[1][0] == "attr" and c[1][2] == "peek") for c in p.calls())
        if peeks:
            for g, pol in p.guards():
                if g[0] == "call" and g[2] == (cls,):
                    nm = (T.refname(g[1]) or "").rsplit(".", 1)[-1]
                    if not pol:
                        excluded.add(nm)
                    elif nm == "isiterabletype":
                        needs_iter = True
                if g[0] == "boolop" and not pol:
                    for x in g[2]:
                        y = x[1] if x[0] == "not" else x
                        if y[0] == "call" and y[2] == (cls,):
                            nm = (T.refname(y[1]) or "").rsplit(".", 1)[-1]
                            if x[0] == "not":
                                if nm == "isiterabletype":
                                    needs_iter = True
                            else:
                                excluded.add(nm)
    missing = [k for k in before if k not in excluded]
    rep.check(
        not missing and needs_iter, rule, h.qualname, h.loc,
        f"content peek happens only for iterable classes that are none of {sorted(before)} (the kinds with their own strategy)",
        f"{missing} instances have their own iteration strategy in get_items_iter but are still content-peeked: a named tuple whose first field is a 2-element value is mistaken for an iterable of pairs",
        detail="peek-guard",
    )  # fmt: skip


def _source_kind(it):
    """Which attribute-name source a comprehension iterates (by resolved callee, not by spelling)."""
    if T.is_call_to(it, "dataclasses.fields"):
        return "dataclass fields"
    if T.is_call_to(it, f"{C.INSP}.get_type_hints", f"{C.INSP}.cached_type_hints", "typing.get_type_hints"):
        return "type hints"
    if it[0] == "call" and it[1][0] == "attr" and it[1][2] in ("items", "keys") and T.is_call_to(it[1][1], f"{C.INSP}.get_type_hints", f"{C.INSP}.cached_type_hints", "typing.get_type_hints"):
        return "type hints"
    if it[0] == "attr" and it[2] == "__slots__":
        return "__slots__"
    if T.is_call_to(it, "builtins.getattr") and len(it[2]) >= 2 and it[2][1] == ("const", "__slots__"):
        return "__slots__"
    # names gathered from the __slots__ of every class on the MRO (nested comprehensions, de-duplicated with dict.fromkeys)
    if T.contains(it, lambda x: (x[0] == "sub" and x[2] == ("const", "__slots__")) or (x[0] == "attr" and x[2] == "__slots__")) and not T.contains(it, lambda x: T.is_call_to(x, f"{C.INSP}.get_type_hints", "dataclasses.fields")):
        return "__slots__"
    if it[0] == "call" and it[1][0] == "attr" and it[1][2] == "items" and T.is_call_to(it[1][1], "builtins.vars"):
        return "vars()"
    if T.is_call_to(it, "builtins.vars"):
        return "vars()"
    return None


def r18_4(prog, rep):
    f = prog.function(f"{C.SERDES}._make_fields_iterator")
    comps = []
    for p in _fi_paths(prog, f):
        for tm in p.all_terms():
            comps += [s for s in T.walk(tm) if s[0] == "comp"]
    import ast as _ast

    for n in _ast.walk(f.node):
        if isinstance(n, _ast.FunctionDef) and n is not f.node:
            _, ps = P.closure_paths(prog, f, n.name)
            for p in ps:
                for tm in p.all_terms():
                    comps += [s for s in T.walk(tm) if s[0] == "comp"]
    # ... and the module-level functions it hands out instead of closures (`return _itervars`, `partial(_iterfields, names)`)
    for _p, r in P.returns(_fi_paths(prog, f)):
        for x in T.walk(r):
            g = prog.functions.get(x[1]) if x[0] == "ref" else None
            if g is not None and g is not f and g.module is f.module:
                for p in P.paths_of(prog, g):
                    for tm in p.all_terms():
                        comps += [s for s in T.walk(tm) if s[0] == "comp"]
    found = {}
    judged = {}
    for c in comps:
        if not c[3]:
            continue
        kind = _source_kind(c[3][0][0])
        if kind is None:
            continue
        elt = c[2]
        name = elt[1][0] if elt[0] == "tuple" else (elt[1] if elt[0] == "pair" else elt)
        want = ("not", ("call", ("attr", name, "startswith"), (("const", "_"),), ()))
        conds = []
        for cd in c[4]:
            conds += list(cd[2]) if cd[0] == "boolop" and cd[1] == "and" else [cd]
        ok = want in conds
        judged.setdefault(kind, []).append((c, ok))
    for kind, lst in judged.items():
        # an unfiltered comprehension is fine when it only feeds one that filters (names gathered first, filtered at the end)
        feeds = lambda c: any(ok2 and c2 is not c and T.contains(c2[3][0][0], lambda x: x == c) for c2, ok2 in lst)  # noqa: E731
        closure = True
        changed = True
        okset = {id(c) for c, ok in lst if ok}
        while changed:
            changed = False
            for c, ok in lst:
                if id(c) not in okset and any(id(c2) in okset and T.contains(c2[3][0][0], lambda x: x == c) for c2, _ in lst):
                    okset.add(id(c))
                    changed = True
        closure = all(id(c) in okset for c, _ in lst)
        del feeds
        found[kind] = closure
    for kind in ("dataclass fields", "type hints", "__slots__", "vars()"):
        if kind not in found:
            rep.undecided("R18.4", f.qualname, f.loc, f"attribute source {kind} not found (structure outside the idiom set)", detail=kind)
        else:
            rep.check(found[kind], "R18.4", f.qualname, f.loc, f"names from {kind} are filtered by `not name.startswith('_')` on the emitted name", f"names from {kind} are emitted without the public-name filter: private attributes leak into (field, value) pairs", detail=kind)


def r18_10(prog, rep):
    """Which names the fields iterator may take for attributes: (a) type hints, but not the *exhaustive* form, whose fallback
    is the parameter list of the constructor (parameters need not be attributes: Account(owner, opening) stores `balance`);
    (b) __slots__ as declared by *every* class of the hierarchy (a subclass's __slots__ lists only its own additions), a lone
    string being one name."""
    f = prog.function(f"{C.SERDES}._make_fields_iterator")
    tp = ("param", f.params[0])
    calls = [x for p in _fi_paths(prog, f) for tm in p.all_terms() for x in T.walk(tm) if T.is_call_to(x, f"{C.INSP}.get_type_hints", f"{C.INSP}.cached_type_hints") and x[2][:1] == (tp,)]
    if calls:
        exhaustive = [c for c in calls if (dict(c[3]).get("exhaustive") or (c[2][1] if len(c[2]) > 1 else None)) != ("const", False)]
        rep.check(not exhaustive, "R18.10", f.qualname, f.loc, "attribute names are taken from the class's own hints (exhaustive=False), never from its constructor's parameters", "the fields iterator asks for the *exhaustive* hints: for a class without annotations these are the parameters of __init__, which are then read as attributes -- iteritems(Account('ann', 5)) raises AttributeError ('opening'), iteritems(argparse.Namespace(a=1)) raises on 'kwargs', and attributes that are no parameter are silently dropped", detail="hints-not-exhaustive")
    else:
        rep.held("R18.10", f.qualname, f.loc, "the fields iterator does not use inspection.get_type_hints", detail="hints-not-exhaustive", nontrivial=False)
    srcs = []
    for p in _fi_paths(prog, f):
        for e in p.events:
            if e[0] == "assign" and e[2][0] == "comp" and e[2][3] and _source_kind(e[2][3][0][0]) == "__slots__":
                srcs.append(e[2])
    if not srcs:
        rep.undecided("R18.10", f.qualname, f.loc, "no __slots__ source found", detail="slots-hierarchy")
        return
    over_mro = any(T.contains(c, lambda x: x == ("attr", tp, "__mro__") or (x[0] == "call" and x[1][0] == "attr" and x[1][1] == tp and x[1][2] == "mro")) for c in srcs)
    one_name = any(T.contains(c, lambda x: T.is_call_to(x, "builtins.isinstance") and T.refname(x[2][1]) == "builtins.str") for c in srcs)
    rep.check(over_mro, "R18.10", f.qualname, f.loc, "__slots__ are collected from every class of the hierarchy", "__slots__ is read from the class itself only: a subclass's __slots__ lists just its own additions, so the inherited public fields are never yielded -- iteritems(Derived(1, 2, 3)) == [('c', 3)]", detail="slots-hierarchy")
    # ... the right way round: under the str test the declaration itself is the one name
    for c in srcs:
        for x in T.walk(c):
            if x[0] == "ifexp" and T.is_call_to(x[1], "builtins.isinstance") and T.refname(x[1][2][1]) == "builtins.str":
                d = x[1][2][0]
                wraps = lambda y: y[0] in ("tuple", "list") and y[1] == (d,)  # noqa: E731
                if not (wraps(x[2]) and x[3] == d):
                    one_name = False
            if x[0] == "ifexp" and x[1][0] == "not" and T.is_call_to(x[1][1], "builtins.isinstance") and T.refname(x[1][1][2][1]) == "builtins.str":
                d = x[1][1][2][0]
                if not (x[2] == d and x[3][0] in ("tuple", "list") and x[3][1] == (d,)):
                    one_name = False
    if not one_name:
        # the statement form (possibly in a helper the factory calls): `if isinstance(d, str): names.append(d)` -- the
        # declaration itself is recorded as the one name under the str test, and iterated only otherwise
        import ast as _ast

        nodes = [f.node] + [g.node for cn in sorted(E.callees(prog, f)) for g in [prog.functions.get(cn)] if g is not None and g.module is f.module and g.name.startswith("_")]
        for nd in nodes:
            for st in _ast.walk(nd):
                if isinstance(st, _ast.If) and isinstance(st.test, _ast.Call) and _ast.unparse(st.test.func) == "isinstance" and len(st.test.args) == 2 and _ast.unparse(st.test.args[1]) == "str":
                    d = _ast.unparse(st.test.args[0])
                    records = any(isinstance(c, _ast.Call) and isinstance(c.func, _ast.Attribute) and c.func.attr in ("append", "add") and [_ast.unparse(a) for a in c.args] == [d] for b in st.body for c in _ast.walk(b)) or any(isinstance(y, _ast.Yield) and y.value is not None and _ast.unparse(y.value) == d for b in st.body for y in _ast.walk(b))
                    iterates = any(isinstance(c, (_ast.For, _ast.comprehension)) and _ast.unparse(c.iter) == d for b in st.body for c in _ast.walk(b))
                    if records and not iterates:
                        one_name = True
    rep.check(one_name, "R18.10", f.qualname, f.loc, "a string-valued __slots__ is one name", "a string-valued __slots__ ('value') is iterated character by character: AttributeError on 'v'", detail="slots-string")


def r18_7(prog, rep):
    """Source precedence: `__slots__` (own class only) and vars() are fallbacks, used only when the declared fields /
    type hints (which follow the inheritance chain) gave nothing."""
    f = prog.function(f"{C.SERDES}._make_fields_iterator")
    ok = True
    seen_slots = False
    for p in _fi_paths(prog, f):
        last = None
        for i, e in enumerate(p.events):
            if e[0] == "assign" and e[2][0] == "comp" and e[2][3]:
                k = _source_kind(e[2][3][0][0])
                if k:
                    last = (k, i, e[1])
        if last and last[0] == "__slots__":
            seen_slots = True
            primary_empty = False
            for g, pol in p.guards(last[1]):
                if (not pol) and g[0] == "comp" and g[3] and _source_kind(g[3][0][0]) in ("type hints", "dataclass fields"):
                    primary_empty = True
            if not primary_empty:
                ok = False
    rep.check(ok and seen_slots, "R18.7", f.qualname, f.loc, "__slots__ is consulted only when declared fields / type hints yielded no public name", "__slots__ of the class is preferred over its type hints: slots list only the most-derived class's own names, so inherited public fields disappear from the pairs", detail="slots-fallback")


def r18_8(prog, rep, rule="R18.8"):
    """An 'iterable of pairs' is recognised by its first element.  The class part of that test is evaluated abstractly:
    it must accept the ordered 2-sequences pairs are written as (tuple; list, which is what the JSON text of pairs gives)
    and must reject classes for which `k, v = element` loses content (a 2-key dict gives its keys, a set has no order,
    a 2-character string gives characters)."""
    f = prog.functions.get(f"{C.SERDES}._is_iterable_of_pairs")
    if f is None:
        rep.undecided(rule, f"{C.SERDES}.iteritems", "", "peek helper not found")
        return
    pe = C.PredEval(prog)
    MUST = ["builtins.tuple", "builtins.list"]
    MUST_NOT = ["builtins.dict", "builtins.set", "builtins.frozenset", "builtins.str", "builtins.bytes"]
    seen = 0
    missing, lossy = set(), set()
    two_ok = True
    def abstract(x):
        if x[0] == "call" and (T.refname(x[1]) == "builtins.next" or (x[1][0] == "attr" and x[1][2] == "peek")):
            return ("param", "E")
        if x[0] == "cmp" and T.is_call_to(x[2], "builtins.len"):
            return ("const", True)
        return None

    is_peek = lambda x: x[0] == "call" and (T.refname(x[1]) == "builtins.next" or (x[1][0] == "attr" and x[1][2] == "peek"))  # noqa: E731
    # every exit that can answer "pairs": its flag, together with the tests on the peeked element that lead to it (the class
    # test may sit in the flag expression or -- as statements, possibly in a helper of its own -- in the guards of the path)
    exits = []
    for p, r in P.returns(P.spaths(prog, f)):
        if r[0] != "tuple" or len(r[1]) != 2:
            continue
        flag = r[1][0]
        if flag == ("const", False):
            continue
        tests = [(g, pol) for g, pol in p.guards() if T.contains(g, is_peek)]
        exits.append((flag, tests))
        seen += 1
        two_ok = two_ok and (T.contains(flag, lambda s: s[0] == "cmp" and s[1] == "==" and T.is_call_to(s[2], "builtins.len") and s[3] == ("const", 2)) or any(pol and T.contains(g, lambda s: s[0] == "cmp" and s[1] == "==" and T.is_call_to(s[2], "builtins.len") and s[3] == ("const", 2)) for g, pol in tests))
    for cls in MUST + MUST_NOT:
        env = {"E": C.TypeArg(cls, flags=frozenset({"instance"}))}
        accepted = False
        for flag, tests in exits:
            vals = [(pe.val(T.rewrite(g, abstract), env, 0), pol) for g, pol in tests] + [(pe.val(T.rewrite(flag, abstract), env, 0), True)]
            if any(v is None or v == ("raises",) for v, _ in vals):
                rep.undecided(rule, f.qualname, f.loc, f"pairs test not evaluable on an element of class {cls}", detail="pairs-test")
                return
            if all(bool(pe.truthy(v)) == pol for v, pol in vals):
                accepted = True
        if cls in MUST and not accepted:
            missing.add(cls)
        if cls in MUST_NOT and accepted:
            lossy.add(cls)
    ok = seen > 0 and two_ok and not missing and not lossy
    why = []
    if missing:
        why.append(f"2-element {sorted(c.rsplit('.', 1)[1] for c in missing)} first elements are not recognised as pairs (the JSON text of pairs gives lists): they are enumerated by index, so a structured target silently gets its defaults")
    if lossy:
        why.append(f"a first element of class {sorted(c.rsplit('.', 1)[1] for c in lossy)} with two members is taken for a pair: `k, v = element` then yields the two keys of a dict / two characters of a string and the values are lost")
    if not two_ok:
        why.append("the length-2 test is missing")
    rep.check(ok, rule, f.qualname, f.loc, "the pairs test accepts 2-element tuples and lists and rejects mappings, sets and text", "; ".join(why) or "no pairs test found", detail="pairs-test")


def r18_12(prog, rep, rule="R18.12"):
    """A class of which only part of the hierarchy declares __slots__ has instances with slots *and* a __dict__: where the
    attribute names are taken from __slots__, the iterator handed out either belongs to a class without instance dict
    (`not tp.__dictoffset__` established on the path) or also reads the instance dict."""
    f = prog.function(f"{C.SERDES}._make_fields_iterator")
    tp = ("param", f.params[0])
    n, bad = 0, []
    import ast as _ast

    def reads_dict(term, depth=0):
        """the closure / function `term` (or one it calls on the instance) reads vars(val) or val.__dict__"""
        if T.is_call_to(term, "functools.partial") and term[2]:
            return reads_dict(term[2][0], depth)  # partial(_iterboth, names): the function handed out is _iterboth
        if term[0] == "closure":
            name = term[1].rsplit(".", 1)[-1]
            try:
                fi, ps = P.closure_paths(prog, f, name)
            except Exception:
                return False
        elif term[0] == "ref" and term[1] in prog.functions:
            fi = prog.functions[term[1]]
            ps = P.paths_of(prog, fi)
        else:
            return False
        own = {("param", n) for n in fi.params}  # the instance, not a class of the hierarchy
        for p in ps:
            for tm in p.all_terms():
                for x in T.walk(tm):
                    if (T.is_call_to(x, "builtins.vars") and x[2] and x[2][0] in own) or (x[0] == "attr" and x[2] == "__dict__" and x[1] in own):
                        return True
                    if depth < 2 and x[0] == "call" and x[1][0] in ("closure", "ref") and reads_dict(x[1], depth + 1):
                        return True
        return False

    def dict_part_ok(term, depth=0):
        """None, or what is wrong with the way the function `term` emits the instance dict: pairs (name, value) of vars(val), public
        names only, and only the names the slots did not yield already."""
        if T.is_call_to(term, "functools.partial") and term[2]:
            return dict_part_ok(term[2][0], depth)
        if term[0] == "closure":
            try:
                fi, ps2 = P.closure_paths(prog, f, term[1].rsplit(".", 1)[-1])
            except Exception:
                return None
        elif term[0] == "ref" and term[1] in prog.functions:
            fi = prog.functions[term[1]]
            ps2 = P.paths_of(prog, fi)
        else:
            return None
        own = {("param", nm) for nm in fi.params}
        # (does it emit the slots as well?  then the dict part complements them; the plain vars() strategy has nothing to exclude)
        complements = any(T.contains(tm, lambda y: (T.is_call_to(y, "builtins.getattr") and y[2][:1] and y[2][0] in own) or (y[0] == "call" and y[1][0] in ("closure", "ref") and y[1][0] == "closure" and y[2][:1] and y[2][0] in own)) for p2 in ps2 for tm in p2.all_terms())
        for p2 in ps2:
            for tm in p2.all_terms():
                for x in T.walk(tm):
                    if x[0] == "comp" and x[3] and x[3][0][0][0] == "call" and x[3][0][0][1][0] == "attr" and x[3][0][0][1][2] == "items" and T.is_call_to(x[3][0][0][1][1], "builtins.vars") and x[3][0][0][1][1][2][:1] and x[3][0][0][1][1][2][0] in own:
                        d = x[3][0][0][1][1]
                        if x[2] != ("tuple", (("key", d), ("value", d))):
                            return f"the entries of the instance dict are not emitted as (name, value) pairs: {T.show(x[2])[:50]}"
                        flat = []
                        for cd in x[4]:
                            flat += list(cd[2]) if cd[0] == "boolop" and cd[1] == "and" else [cd]
                        if complements and not any(cd[0] == "cmp" and cd[1] == "notin" and cd[2] == ("key", d) for cd in flat) and not any(cd[0] == "not" and cd[1][0] == "cmp" and cd[1][1] == "in" and cd[1][2] == ("key", d) for cd in flat):
                            return "the entries of the instance dict are not restricted to the names the slots did not yield (a name both slotted and in the dict is emitted twice, or only such names are emitted)"
                        if not any(cd[0] == "not" and cd[1][0] == "call" and cd[1][1][0] == "attr" and cd[1][1][2] == "startswith" and cd[1][1][1] == ("key", d) for cd in flat):
                            return "private entries of the instance dict are emitted"
        return None

    shape_problems = []
    for p in _fi_paths(prog, f):
        if p.exit[0] != "return":
            continue
        last = None
        for i, e in enumerate(p.events):
            if e[0] == "assign" and e[2][0] == "comp" and e[2][3]:
                k = _source_kind(e[2][3][0][0])
                if k:
                    last = k
        if last != "__slots__":
            continue
        n += 1
        w = dict_part_ok(p.exit[1])
        if w:
            shape_problems.append(w)
        atoms = T.derive_atoms(p.guards())
        no_dict = any((not val) and a == ("attr", tp, "__dictoffset__") for a, val in atoms) or any(val and a == ("not", ("attr", tp, "__dictoffset__")) for a, val in atoms)
        if not no_dict and not reads_dict(p.exit[1]):
            bad.append(T.show(p.exit[1])[:60])
    if not n:
        rep.held(rule, f.qualname, f.loc, "no attribute names are taken from __slots__", detail="slots-and-dict", nontrivial=False)
        return
    rep.check(not shape_problems, rule, f.qualname, f.loc, "where the instance dict complements the slots its public entries are emitted as (name, value) pairs, each name once", (shape_problems or [""])[0], detail="dict-part-shape")
    rep.check(not bad, rule, f.qualname, f.loc, f"{n} path(s) take names from __slots__: the instance has no __dict__ there, or the iterator reads it too", f"names are taken from __slots__ alone although the instances may own a __dict__ as well (only part of the hierarchy is slotted): `class Base: __slots__ = ('a',)` / `class Child(Base)` storing self.b -- iteritems(Child('1', 2)) yields only ('a', '1'), and unmarshal(Child, Child('1', 2)) raises TypeError (missing 'b')", detail="slots-and-dict")


def r18_9(prog, rep, rule="R18.9"):
    """Public *fields*: a ClassVar annotation of a plain / __slots__ class is no field (dataclasses.fields() already leaves
    them out for dataclasses): the names taken from the type hints must be filtered by the ClassVar test."""
    f = prog.functions.get(f"{C.SERDES}._make_fields_iterator")
    if f is None:
        rep.undecided(rule, f"{C.SERDES}.get_items_iter", "", "field iterator factory not found")
        return
    hinted = []
    for p in _fi_paths(prog, f):
        for e in p.events:
            if e[0] == "assign" and e[2][0] == "comp":
                c = e[2]
                src = c[3][0][0]
                if T.contains(src, lambda x: T.is_call_to(x, f"{C.INSP}.get_type_hints", f"{C.INSP}.cached_type_hints", "typing.get_type_hints")):
                    flat = []
                    for cd in c[4]:
                        flat += list(cd[2]) if cd[0] == "boolop" and cd[1] == "and" else [cd]
                    # (excluded, not selected: the condition is the *negated* ClassVar test)
                    filt = any(cd[0] == "not" and T.is_call_to(cd[1], f"{C.INSP}.isclassvartype") for cd in flat)
                    hinted.append(filt)
    if not hinted:
        rep.held(rule, f.qualname, f.loc, "field names are not taken from type hints", nontrivial=False)
        return
    rep.check(all(hinted), rule, f.qualname, f.loc, "names taken from the type hints leave ClassVar annotations out", "every public type hint of a plain / __slots__ class is taken for a field, ClassVar annotations included: iteritems(Plain(1)) yields ('REGISTRY', 3), marshal writes it to the wire and unmarshal passes it to __init__ (TypeError: unexpected keyword argument)", detail="classvar")


def r18_5(prog, rep):
    iv = prog.function(f"{C.SERDES}.itervalues")
    val = ("param", iv.params[0])
    strategy = ("call", ("call", ("ref", f"{C.SERDES}.get_items_iter"), (("attr", val, "__class__"),), ()), (val,), ())
    ok = False
    for p, r in P.returns(P.paths_of(prog, iv)):
        if r[0] == "comp" and r[2] == ("unpack", ("elem", strategy), 1, 2) and not r[4]:
            ok = True
    rep.check(ok, "R18.5", iv.qualname, iv.loc, "itervalues yields the value component of get_items_iter(val.__class__)(val), unfiltered", "itervalues does not project the value component of the class's item strategy", detail="projection")
    f, order = strategy_order(prog, rep)
    seq = [(pos[0] if pos else "fallback") for pos, neg, r in order]
    want = ["ismappingtype", "isnamedtuple", "isiterabletype", "fallback"]
    rep.check(seq == want, "R18.5", f.qualname, f.loc, "strategy order: mapping, namedtuple, iterable, fields", f"strategy order is {seq}, must be {want}", detail="order")
    # each arm returns its own strategy
    arms = {pos[0] if pos else "fallback": r for pos, neg, r in order}
    m = arms.get("ismappingtype")
    mapping_ok = m is not None and m[0] == "ref" and _is_items_caller(prog, m[1])
    rep.check(mapping_ok, "R18.5", f.qualname, f.loc, "mappings iterate .items()", "the mapping arm does not iterate .items()", detail="mapping-arm")
    nt = arms.get("isnamedtuple")
    nt_ok = False
    if nt is not None and nt[0] == "ref" and nt[1] in prog.functions:
        g = prog.functions[nt[1]]
        v = ("param", g.params[0])
        for p, r in P.returns(P.paths_of(prog, g)):
            nt_ok = T.is_call_to(r, "builtins.zip") and r[2] == (("attr", v, "_fields"), v)
    rep.check(nt_ok, "R18.5", f.qualname, f.loc, "named tuples iterate zip(_fields, values)", "the namedtuple arm does not pair _fields with the values", detail="namedtuple-arm")
    it = arms.get("isiterabletype")
    rep.check(it == ("ref", "builtins.enumerate"), "R18.5", f.qualname, f.loc, "other iterables iterate enumerate()", "the iterable arm is not enumerate", detail="iterable-arm")


def _is_items_caller(prog, dotted) -> bool:
    mn, _, nm = dotted.rpartition(".")
    m = prog.modules.get(mn)
    fn = prog.functions.get(dotted)
    if fn is not None and fn.params:
        # a plain function `def items(val): return val.items()`
        rets = [r for _p, r in P.returns(P.paths_of(prog, fn))]
        want = ("call", ("attr", ("param", fn.params[0]), "items"), (), ())
        return bool(rets) and all(r == want or r == ("call", ("ref", "builtins.iter"), (want,), ()) for r in rets)
    if not m or nm not in m.assigns:
        return False
    tm = P.Evaluator(prog, m).expr(m.assigns[nm], {})
    return T.is_call_to(tm, "operator.methodcaller") and tm[2] == (("const", "items"),)


def r18_6(prog, rep):
    for name in ("iteritems", "itervalues", "_is_iterable_of_pairs", "_namedtupleitems", "load", "decode", "strload"):
        f = prog.functions.get(f"{C.SERDES}.{name}")
        if f is None:
            continue
        mut = E.mutations_of(prog, f, ("param", f.params[0]))
        rep.check(not mut, "R18.6", f.qualname, f.loc, "does not mutate its argument", f"mutates its argument: {mut[:2]}")


def _assigned_values(prog, f, name):
    """The expressions a local of `f` is assigned from -- also when it is one of several results of a private helper of the
    module (`a, b, params = _discover(tp)`): then the helper's body stands for the value."""
    import ast

    out = []
    # the accumulator spelling: `name = []` / `for x in SOURCE: … name.append(x.attr)` -- the loop's source stands for the value
    for loop in ast.walk(f.node):
        if isinstance(loop, ast.For) and any(
            isinstance(c, ast.Call) and isinstance(c.func, ast.Attribute) and c.func.attr in ("append", "extend", "add") and isinstance(c.func.value, ast.Name) and c.func.value.id == name
            for st in loop.body for c in ast.walk(st)
        ):  # fmt: skip
            out.append(loop.iter)
    for n in ast.walk(f.node):
        if not isinstance(n, (ast.Assign, ast.AnnAssign)) or n.value is None:
            continue
        tgs = n.targets if isinstance(n, ast.Assign) else [n.target]
        for tg in tgs:
            if isinstance(tg, ast.Name) and tg.id == name:
                out.append(n.value)
            elif isinstance(tg, (ast.Tuple, ast.List)) and any(isinstance(e, ast.Name) and e.id == name for e in tg.elts):
                out.append(n.value)
                if isinstance(n.value, ast.Call):
                    callee = prog.functions.get(prog.resolve_expr_name(f.module, n.value.func) or "")
                    if callee is not None and callee.module is f.module and callee.name.startswith("_"):
                        out.append(callee.node)
    return out


def fields_the_instance_answers_to(prog, rep, rule="R18.13"):
    """For a class without public annotations the fields are what its instances hold (slots, instance dict) -- and what they
    *answer to*: a constructor parameter exposed through a property over private state is a field (its value is needed to
    build the object again), a declared slot that was never assigned is not (reading it raises AttributeError)."""
    import ast

    f = prog.functions.get("typelib.serdes._make_fields_iterator")
    if f is None:
        rep.undecided(rule, "typelib.serdes._make_fields_iterator", "", "anchor not found", detail="constructor-properties")
        return
    # (a) every strategy that is not driven by hints / dataclass fields is extended by the constructor's parameters the value has
    wrapped, bare = 0, []
    for p in P.splice_helpers(prog, P.paths_of(prog, f)):
        if p.exit[0] != "return":
            continue
        atoms = T.derive_atoms(p.guards())
        from_hints = any((not val) and a[0] == "not" and False for a, val in atoms)
        del from_hints
        # the path found no public hinted / dataclass names: the `not public_attribs` test over the hints comprehension was true
        no_hints = any(e[0] == "assign" and e[2][0] == "comp" and e[2][3] and _source_kind(e[2][3][0][0]) == "__slots__" for e in p.events)
        if not no_hints:
            continue
        r = p.exit[1]
        x = _extends(prog, f, r)
        ok = False
        if x is not None:
            w = P.nested_function(prog, f, r[1][1].rsplit(".", 1)[-1])
            gens = [n for n in ast.walk(w.node) if isinstance(n, ast.FunctionDef) and n is not w.node]
            for g in gens:
                gp = g.args.args[0].arg if g.args.args else None
                for loop in ast.walk(g):
                    if isinstance(loop, ast.For) and isinstance(loop.target, ast.Name) and isinstance(loop.iter, ast.Name):
                        v = loop.target.id
                        guarded = any(isinstance(c, ast.Call) and isinstance(c.func, ast.Name) and c.func.id == "hasattr" and [ast.unparse(a) for a in c.args] == [gp, v] for st in loop.body for c in ast.walk(st))
                        yields = any(isinstance(y, ast.Yield) and y.value is not None and isinstance(y.value, ast.Tuple) and len(y.value.elts) == 2 and ast.unparse(y.value.elts[0]) == v and ast.unparse(y.value.elts[1]) == f"getattr({gp}, {v})" for st in loop.body for y in ast.walk(st))
                        # the names looped over come from the constructor's signature
                        src = _assigned_values(prog, f, loop.iter.id)
                        from_sig = any(isinstance(c, ast.Call) and (prog.resolve_expr_name(f.module, c.func) or "").rsplit(".", 1)[-1] in ("safe_get_params", "signature", "cached_signature") for sv in src for c in ast.walk(sv))
                        if guarded and yields and from_sig:
                            ok = True
        if ok:
            wrapped += 1
        else:
            bare.append(T.show(r)[:60])
    if wrapped or bare:
        rep.check(not bare, rule, f.qualname, f.loc, f"the slots / instance-dict strategies are extended by the constructor parameters the value answers to ({wrapped} exit(s))", f"a class without public annotations is iterated from its __slots__ / instance dict alone ({sorted(set(bare))[:2]}): `class Account: def __init__(self, owner: str, balance: int): self._owner, self._balance = ...` with read-only properties `owner` / `balance` yields nothing, unmarshal(Account, Account('1', 5)) raises TypeError (missing arguments) or silently returns the defaults", detail="constructor-properties")
    # (b) a declared slot is read only where the value has it
    n_slot, unguarded = 0, 0
    for name in ("_iterfields",):
        g = P.nested_function(prog, f, name) or prog.functions.get(f"{f.module.name}.{name}")  # (a closure, or hoisted to module level)
        if g is None:
            continue
        for n in ast.walk(g.node):
            if isinstance(n, (ast.GeneratorExp, ast.ListComp)) and isinstance(n.elt, ast.Tuple) and len(n.elt.elts) == 2 and isinstance(n.elt.elts[1], ast.Call) and ast.unparse(n.elt.elts[1].func) == "getattr":
                n_slot += 1
                v = ast.unparse(n.generators[0].target)
                gp = ast.unparse(n.elt.elts[1].args[0]) if n.elt.elts[1].args else g.node.args.args[0].arg  # (the object the attribute is read off)
                if not any(isinstance(c, ast.Call) and ast.unparse(c.func) == "hasattr" and [ast.unparse(a) for a in c.args] == [gp, v] for cond in n.generators[0].ifs for c in ast.walk(cond)) and len(n.elt.elts[1].args) < 3:
                    unguarded += 1
    if n_slot:
        rep.check(not unguarded, rule, f.qualname, f.loc, "a declared slot is read only where the value has it", "every declared slot is read with getattr(val, name): a slot that was never assigned (`__slots__ = ('host', 'port', 'socket')`, socket set on connect) raises AttributeError in the middle of the iteration -- unmarshal(Connection, Connection('h', 80)) fails although the constructor needs host and port only", detail="slot-unset")


def run(prog: Program, rep: Report, tier: str):
    rep.rule("R18.1", "no unguarded next()/peek() on a possibly empty iterator", floor=2)
    rep.rule("R18.2", "consumed-iterator typestate in the peek helper and iteritems", floor=4)
    rep.rule("R18.3", "sibling guard agreement: kinds with their own strategy are not content-peeked", floor=1)
    rep.rule("R18.4", "public-name filter on every attribute source", floor=4)
    rep.rule("R18.5", "itervalues projects the same strategy; strategy order and arms", floor=5)
    rep.rule("R18.6", "no mutation of the argument", floor=5)
    rep.rule("R18.13", "a class without annotations is iterated by what its instances answer to", floor=1)
    fields_the_instance_answers_to(prog, rep)
    rep.rule("R18.12", "names taken from __slots__ are complemented by the instance dict where there is one", floor=1)
    r18_12(prog, rep)
    rep.rule("R18.11", "member hints carry no Annotated wrapper (a wrapped ClassVar would be a field)", floor=1)
    from . import c11

    c11.hints_stripped(prog, rep, "R18.11")
    rep.rule("R18.10", "attribute names come from the class's own hints and from the __slots__ of its whole hierarchy", floor=3)
    r18_10(prog, rep)
    rep.rule("R18.9", "ClassVar annotations are not fields", floor=1)
    r18_9(prog, rep)
    rep.rule("R18.8", "pairs are recognised by any 2-element collection", floor=1)
    rep.rule("R18.7", "attribute-source precedence: hints/fields before __slots__", floor=1)
    r18_1(prog, rep)
    r18_2(prog, rep)
    r18_3(prog, rep)
    r18_4(prog, rep)
    r18_5(prog, rep)
    r18_6(prog, rep)
    r18_7(prog, rep)
    r18_8(prog, rep)
