"""C02 — JSON wire round trip and agreement of all entry points (composition and wiring)."""

from __future__ import annotations

import ast

from .. import oracle
from .. import paths as P
from .. import terms as T
from ..model import Program
from ..report import Report
from . import common as C
from .effects import callees as _callees

EXPLANATION = (
    "R02.1 composition shape as dataflow facts: Codec.encode returns self.encoder(self.marshal(value)), Codec.decode returns self.unmarshal(self.decoder(value)), "
    "api.encode returns encoder(marshal(value, t=t)), api.decode returns unmarshal(t, decoder(value)); every parameter flows to its role. "
    "R02.2 codec() wiring: marshal <- marshaller or marshals.marshaller(t), unmarshal <- unmarshaller or unmarshals.unmarshaller(t), encoder <- encoder, "
    "decoder <- decoder, cls <- codec_cls or Codec; identity coders appear only under inspection.isbytestype(t); the Codec fields are exactly the four roles. "
    "R02.3 the default encoder/decoder of all three entry points are dumps/loads of one and the same backend object, which compat binds once."
)
ASSUMPTIONS = [
    "that the bytes are valid JSON equal to marshal(v), and decode∘encode = id, depend on orjson/json and on C01 (ND)",
    "64-bit integer range and Unicode validity are the encoder's concern (ND)",
]
TRUSTED = oracle.TRUSTED
SELF = ("param", "self")


def _arg(call, pos, name):
    kw = dict(call[3])
    if name in kw:
        return kw[name]
    return call[2][pos] if len(call[2]) > pos else None


def r02_1(prog, rep):
    cod = prog.cls("typelib.codecs.Codec")
    enc, dec = cod.methods.get("encode"), cod.methods.get("decode")
    for m, outer, inner, par in ((enc, "encoder", "marshal", "value"), (dec, "unmarshal", "decoder", "value")):
        if m is None:
            rep.violated("R02.1", cod.qualname, cod.loc, f"Codec has no {'encode' if outer == 'encoder' else 'decode'}", detail=outer)
            continue
        want = ("call", ("attr", SELF, outer), (("call", ("attr", SELF, inner), (("param", par),), ()),), ())
        rets = P.returns(P.splice_helpers(prog, P.paths_of(prog, m)))
        rep.check(bool(rets) and all(r == want for _, r in rets), "R02.1", m.qualname, m.loc, f"returns self.{outer}(self.{inner}({par}))", f"{m.name} is not self.{outer}(self.{inner}({par})): {T.show(rets[0][1])[:120] if rets else 'no return'}")
    def bodies(qual, sigma):
        """The return terms of a side-effect-free one-path library function with its parameters substituted: a caller
        that spells the body out instead of calling it computes the same thing."""
        g = prog.function(qual)
        gps = P.splice_helpers(prog, P.paths_of(prog, g))
        if any(ev[0] in ("setitem", "setattr", "delete") for pth in gps for ev in pth.events):
            return []
        return [P.substitute(rr, sigma) for _, rr in P.returns(gps)]

    e = prog.function("typelib.api.encode")
    m_bodies = bodies("typelib.marshals.api.marshal", {"value": ("param", "value"), "t": ("param", "t")})
    def verbatim_guard(g):
        return T.contains(g, lambda x: T.is_call_to(x, f"{C.INSP}.isbytestype"))

    for p, r in P.returns(P.splice_helpers(prog, P.paths_of(prog, e))):
        if any(pol and verbatim_guard(g) for g, pol in p.guards()):
            # bytes-like types travel verbatim (same decision as codec(), judged by R02.5): the marshalled value itself
            okv = T.is_call_to(r, "typelib.marshals.api.marshal") and _arg(r, 0, "value") == ("param", "value") and _arg(r, 1, "t") == ("param", "t")
            rep.check(okv, "R02.1", e.qualname, e.loc, "[bytes] returns marshal(value, t=t) verbatim", "the verbatim path of api.encode does not return marshal(value, t=t)", detail="bytes")
            continue
        ok = r[0] == "call" and r[1] == ("param", "encoder") and len(r[2]) == 1 and not r[3]
        inner = r[2][0] if ok else None
        ok = ok and (T.is_call_to(inner, "typelib.marshals.api.marshal") and _arg(inner, 0, "value") == ("param", "value") and _arg(inner, 1, "t") == ("param", "t") or (len(m_bodies) == 1 and inner == m_bodies[0]))
        rep.check(ok, "R02.1", e.qualname, e.loc, "returns encoder(marshal(value, t=t))", "api.encode does not apply its `encoder` parameter to marshal(value, t=t): " + T.show(r)[:120])
    # the verbatim decision of encode() is about the type the marshaller is built for: `t`, or the value's class when no t is given
    subjects = []
    for p in P.splice_helpers(prog, P.paths_of(prog, e)):
        for g, _pol in p.guards():
            if T.is_call_to(g, f"{C.INSP}.isbytestype") and g[2]:
                x = g[2][0]
                while x[0] == "call" and T.refname(x[1]) in (f"{C.INSP}.unwrap", f"{C.INSP}.origin", f"{C.INSP}.resolve_supertype", "typelib.py.refs.evaluate", "typelib.py.refs.forwardref") and x[2]:
                    x = x[2][0]
                if x[0] == "ifexp" and x[2][0] == "call":
                    continue  # (the reference arm of the helper, judged by bytes-guard-reference)
                # (decided on the path when the choice is an if statement: `if t is None: hint = value.__class__`)
                none_known = [pol for gg, pol in p.guards() if gg[0] == "cmp" and gg[1] == "is" and {gg[2], gg[3]} == {("param", "t"), ("const", None)}]
                subjects.append((x, none_known[-1] if none_known else None))
    TP, VAL = ("param", "t"), ("param", "value")

    def under(x, t_is_none):
        def f(tm):
            if tm[0] == "cmp" and tm[1] in ("is", "isnot") and {tm[2], tm[3]} == {TP, ("const", None)}:
                return ("const", t_is_none if tm[1] == "is" else not t_is_none)
            return None

        y = T.rewrite(x, f)
        while y[0] == "ifexp" and y[1][0] == "const":
            y = y[2] if y[1][1] else y[3]
        if y[0] == "boolop" and y[1] == "or" and y[2][0] == TP:  # `t or value.__class__`
            y = y[2][1] if t_is_none else TP
        return y

    if subjects:
        good = all((under(x, True) == ("attr", VAL, "__class__") or nk is False) and (under(x, False) == TP or nk is True) for x, nk in subjects) and any(nk is not False for _, nk in subjects) and any(nk is not True for _, nk in subjects)
        rep.check(good, "R02.1", e.qualname, e.loc, "the verbatim decision is taken on `t`, or on the value's class when no t is given", f"encode() decides whether the value travels verbatim on {T.show(subjects[0][0])[:70]}: with t omitted (or given) the decision is about another type than the one the marshaller is built for -- typelib.encode(b'x') hands bytes to the JSON encoder (TypeError), or a bytes value is returned unencoded for a non-bytes t", detail="encode-verbatim-subject")
    d = prog.function("typelib.api.decode")
    for p, r in P.returns(P.splice_helpers(prog, P.paths_of(prog, d))):
        ok = T.is_call_to(r, "typelib.unmarshals.api.unmarshal") and _arg(r, 0, "t") == ("param", "t")
        v = _arg(r, 1, "value") if ok else None
        dec = ("call", ("param", "decoder"), (("param", "value"),), ())
        if v is not None and v[0] == "ifexp" and verbatim_guard(v[1]) and v[2] == ("param", "value"):
            v = v[3]  # bytes-like types are handed over undecoded (same decision as codec(), judged by R02.5)
        if any(pol and verbatim_guard(g) for g, pol in p.guards()) and v == ("param", "value"):
            v = dec
        ok = ok and v == dec
        u_bodies = bodies("typelib.unmarshals.api.unmarshal", {"t": ("param", "t"), "value": ("call", ("param", "decoder"), (("param", "value"),), ())})
        ok = ok or (len(u_bodies) == 1 and r == u_bodies[0])
        rep.check(ok, "R02.1", d.qualname, d.loc, "returns unmarshal(t, decoder(value))", "api.decode does not unmarshal(t, <its `decoder` parameter applied to value>): " + T.show(r)[:120])


def r02_5(prog, rep):
    """All entry points agree on which types travel verbatim: codec() carries bytes-like types without the JSON coder, so
    api.encode / api.decode must take the same decision (or delegate to codec())."""
    cf = prog.function("typelib.codecs.codec")
    codec_has = any(T.is_call_to(g, f"{C.INSP}.isbytestype") for p in P.splice_helpers(prog, P.paths_of(prog, cf)) for g, _ in p.guards())
    for q, role in (("typelib.api.encode", "encoder"), ("typelib.api.decode", "decoder")):
        f = prog.function(q)
        ps = P.splice_helpers(prog, P.paths_of(prog, f))
        delegates = any(T.contains(tm, lambda x: T.is_call_to(x, "typelib.codecs.codec")) for p in ps for tm in p.all_terms())
        guarded = any(T.contains(tm, lambda x: T.is_call_to(x, f"{C.INSP}.isbytestype")) for p in ps for tm in p.all_terms())
        bypass = any(p.exit[0] == "return" and not T.contains(p.exit[1], lambda x: x[0] == "call" and x[1] == ("param", role)) for p in ps) or any(T.contains(p.exit[1], lambda x: x[0] == "ifexp" and T.contains(x[1], lambda y: T.is_call_to(y, f"{C.INSP}.isbytestype"))) for p in ps if p.exit[0] == "return")
        ok = (not codec_has) or delegates or (guarded and bypass)
        rep.check(ok, "R02.5", q, f.loc, f"{q.rsplit('.', 1)[1]}() takes the same verbatim-bytes decision as codec()", f"codec() carries bytes-like types verbatim but {q.rsplit('.', 1)[1]}() always runs the {role}: codec(bytes).encode(b'abc') == b'abc' while typelib.encode(b'abc', t=bytes) raises TypeError; typelib.decode(bytes, b'\"abc\"') == b'abc' while codec(bytes).decode(b'\"abc\"') == b'\"abc\"'", detail="bytes-agreement")


def r02_4(prog, rep):
    """Whatever memoises codec() keys on every configuration parameter."""
    f = prog.function("typelib.codecs.codec")
    params = [p for p in f.params]
    memo = prog.is_memoised(f)
    hand = []
    for p in P.splice_helpers(prog, P.paths_of(prog, f)):
        for e in p.events:
            if e[0] == "setitem" and e[1][0] == "ref" and e[1][1].startswith("typelib."):
                hand.append(e[2])
        if p.exit[0] == "return" and p.exit[1][0] == "sub" and p.exit[1][1][0] == "ref" and p.exit[1][1][1].startswith("typelib."):
            hand.append(p.exit[1][2])
    if hand:
        bad = []
        for key in hand:
            used = {s[1] for s in T.walk(key) if s[0] == "param"}
            missing = [x for x in params if x not in used]
            if missing:
                bad.append(missing)
            # a parameter that enters the key only through a projection (`_coderkey(encoder)`, `id(x)`, an attribute of it)
            # is not in the key: two different coders with one projection share an entry
            direct = {x[1] for x in (key[1] if key[0] == "tuple" else (key,)) if x[0] == "param"}
            projected = sorted(used - direct)
            if projected and not missing:
                bad.append([f"{x} itself (only a projection of it is in the key)" for x in projected])
        rep.check(not bad, "R02.4", f.qualname, f.loc, "the hand-rolled codec memo is keyed on every configuration parameter", f"the codec memo key leaves out {(bad or ['?'])[0]}: the first codec built for a type is served for every later encoder/decoder configuration", detail="memo-key")
    else:
        rep.check(bool(memo) or True, "R02.4", f.qualname, f.loc, f"codec() is {'memoised by ' + memo + ' on all of its arguments' if memo else 'not memoised'}", detail="memo-key")


def r02_2(prog, rep):
    f = prog.function("typelib.codecs.codec")
    t = ("param", "t")
    ps = P.splice_helpers(prog, P.paths_of(prog, f))
    want_m = ("boolop", "or", (("param", "marshaller"), None))
    for p, r in P.returns(ps):
        def about_t(x):
            """t itself or t seen through the library's own normalisers (unwrap / origin / resolve_supertype)."""
            while True:
                if x[0] == "call" and T.refname(x[1]) in (f"{C.INSP}.unwrap", f"{C.INSP}.origin", f"{C.INSP}.resolve_supertype", "typelib.py.refs.evaluate", "typelib.py.refs.forwardref") and len(x[2]) >= 1:
                    x = x[2][0]  # ... or the type a reference names (a reference to bytes is a bytes type)
                elif x[0] == "ifexp":
                    return about_t(x[2]) and about_t(x[3])
                else:
                    return x == t

        bytes_guard = [pol for g, pol in p.guards() if T.is_call_to(g, f"{C.INSP}.isbytestype") and len(g[2]) == 1 and about_t(g[2][0])]
        if r[0] == "sub" and r[1][0] == "ref" and r[1][1].startswith("typelib."):
            continue  # a memo hit (its key is judged by R02.4)
        if r[0] != "call":
            rep.undecided("R02.2", f.qualname, f.loc, "codec() does not return a constructed codec", detail="ctor")
            continue
        kw = dict(r[3])
        det = "bytes" if bytes_guard == [True] else "json"
        m, u = kw.get("marshal"), kw.get("unmarshal")
        def supplied_or(term, pname, is_default):
            """`param or default`, as one expression (also `param if param else default`) or decided on the path
            (`x = param` / `if not x: x = default`)."""
            prm = ("param", pname)
            if term is None:
                return False
            if term[0] == "boolop" and term[1] == "or" and len(term[2]) == 2 and term[2][0] == prm and is_default(term[2][1]):
                return True
            if term[0] == "ifexp" and term[1] == prm and term[2] == prm and is_default(term[3]):
                return True
            if term[0] == "ifexp" and term[1] == ("not", prm) and term[3] == prm and is_default(term[2]):
                return True
            truth = [pol for g, pol in p.guards() if g == prm]
            if term == prm and truth and all(truth):
                return True
            if is_default(term) and truth and not any(truth):
                return True
            return False

        okm = supplied_or(m, "marshaller", lambda y: T.is_call_to(y, "typelib.marshals.api.marshaller") and _arg(y, 0, "t") == t)
        oku = supplied_or(u, "unmarshaller", lambda y: T.is_call_to(y, "typelib.unmarshals.api.unmarshaller") and _arg(y, 0, "t") == t)
        rep.check(okm and oku, "R02.2", f.qualname, f.loc, f"[{det}] marshal/unmarshal <- the supplied routine or the one generated for t", f"[{det}] marshal=/unmarshal= are not `supplied or generated-for-t` in their own direction", detail=f"{det}-routines")
        cls_t = r[1]
        okc = supplied_or(cls_t, "codec_cls", lambda y: y == ("ref", "typelib.codecs.Codec"))
        rep.check(okc, "R02.2", f.qualname, f.loc, f"[{det}] class <- codec_cls or Codec", f"[{det}] the constructed class is not `codec_cls or Codec`", detail=f"{det}-class")
        e, d = kw.get("encoder"), kw.get("decoder")
        ident = lambda x: x is not None and x[0] == "lambda" and len(x[1]) == 1 and x[2] == ("param", x[1][0])  # noqa: E731
        if bytes_guard == [True]:
            rep.check(ident(e) and ident(d), "R02.2", f.qualname, f.loc, "[bytes] bytes-like types are carried verbatim (identity coders)", "[bytes] coders on the bytes path are not the identity", detail="bytes-coders")
        else:
            rep.check(e == ("param", "encoder") and d == ("param", "decoder"), "R02.2", f.qualname, f.loc, "[json] encoder <- encoder, decoder <- decoder (caller's coders, not swapped, not replaced)", f"[json] the caller's coders are not passed through: encoder={T.show(e)[:50] if e else None}, decoder={T.show(d)[:50] if d else None}", detail="json-coders")
            # (a reference that leads back to itself names no type at all: the exit taken on meeting a reference twice)
            cyclic_ref = any(pol and g[0] == "cmp" and g[1] == "in" and T.contains(g[2], lambda y: T.is_call_to(y, "typelib.py.refs.forwardref") or T.is_call_to(y, f"{C.INSP}.unwrap")) for g, pol in p.guards())
            rep.check(bytes_guard == [False] or (not bytes_guard and cyclic_ref), "R02.2", f.qualname, f.loc, "[json] reached only when t is not bytes-like", "[json] path not separated from the bytes path by isbytestype(t)", detail="json-guard")
    # the bytes guard looks at the resolved type, not at the annotation as spelled
    guards_subject = [g[2][0] for pth in ps for g, _ in pth.guards() if T.is_call_to(g, f"{C.INSP}.isbytestype") and g[2]]
    raw = [x for x in guards_subject if x == t]
    rep.check(bool(guards_subject) and not raw, "R02.2", f.qualname, f.loc, "the verbatim-bytes decision is taken on the unwrapped / resolved type", "isbytestype() is applied to the annotation as passed: NewType('Blob', bytes), an alias of bytes or Final[bytes] get the JSON coder around the bytes routines — codec(Blob).encode(b'x') raises TypeError where codec(bytes) returns b'x'", detail="bytes-guard-subject")
    # ... and a *reference* to a bytes type ("bytes", ForwardRef, a string-valued alias, Final["bytes"]) is one too: unwrap() hands
    # a reference back as it is, so some path of the decision evaluates it
    via_ref = [x for x in guards_subject if T.contains(x, lambda y: T.is_call_to(y, "typelib.py.refs.evaluate"))]
    rep.check(bool(via_ref), "R02.2", f.qualname, f.loc, "a reference is evaluated before the verbatim-bytes decision", "the verbatim-bytes decision never evaluates a reference: for t = 'bytes', ForwardRef('bytes'), TypeAliasType('Blob', 'bytes') or Final['bytes'] the routines are the bytes routines while the coders are JSON -- encode raises TypeError, decode(b'\"abc\"') silently returns b'abc'", detail="bytes-guard-reference")
    # ... and what the reference names is an annotation like any other: it is unwrapped before the decision (origin() alone
    # sees through a NewType and one alias, not through Final[...] or an alias of an alias)
    bare_eval = []
    for x in via_ref:
        for e in T.find(x, lambda y: T.is_call_to(y, "typelib.py.refs.evaluate")):
            if not T.contains(x, lambda u, e=e: T.is_call_to(u, f"{C.INSP}.unwrap") and u[2] and T.contains(u[2][0], lambda z: z == e)):
                bare_eval.append(T.show(e)[:60])
    if via_ref:
        rep.check(not bare_eval, "R02.2", f.qualname, f.loc, "the annotation a reference names is unwrapped before the verbatim-bytes decision", f"the value of an evaluated reference ({bare_eval[:1]}) goes to the bytes test without being unwrapped: a reference to a qualified or twice-aliased bytes type ('Frozen' with Frozen = Final[bytes]; an alias of an alias of bytes) gets the JSON coders around the bytes routines -- encode() raises 'Type is not JSON serializable: bytes'", detail="bytes-guard-reference-unwrapped")
    # ... and what a reference names may be a reference again (a string naming a string-valued alias): the evaluation is
    # repeated until no reference is left -- a loop on the reference test, or the decision function applied to the value
    is_eval = lambda y: T.is_call_to(y, "typelib.py.refs.evaluate")  # noqa: E731
    homes = [f] + [prog.functions[c] for c in sorted(_callees(prog, f)) if c in prog.functions and prog.functions[c].module is f.module]
    home = next((h for h in homes if any(T.contains(tm, is_eval) for pth in P.paths_of(prog, h) for tm in pth.all_terms())), None)
    if via_ref and home is not None:
        repeated = False
        for pth in P.paths_of(prog, home):
            inside = False
            tested = False
            for e in pth.events:
                if e[0] == "while" and e[2] == 1:
                    # (the reference test is the loop's header, or -- `while True:` -- a test inside it whose failure leaves the loop)
                    inside = True
                    tested = T.contains(e[1], lambda y: T.is_call_to(y, "builtins.isinstance"))
                elif e[0] == "whileend":
                    inside = False
                elif inside and e[0] == "guard" and T.contains(e[1], lambda y: T.is_call_to(y, "builtins.isinstance")):
                    tested = True
                elif inside and tested and any(isinstance(y, tuple) and y and isinstance(y[0], str) and T.contains(y, is_eval) for y in e[1:]):
                    repeated = True
            if any(T.contains(tm, lambda y: T.is_call_to(y, home.qualname) and any(T.contains(a, is_eval) for a in y[2])) for tm in pth.all_terms()):
                repeated = True
        rep.check(repeated, "R02.2", home.qualname, home.loc, "references are evaluated until no reference is left", "the verbatim-bytes decision evaluates a reference once: a string naming a string-valued alias of a bytes type (codec('B4') with B4 = TypeAliasType('B4', 'B3'), B3 an alias of bytes) evaluates to a reference again, which is no bytes type -- the codec puts the JSON coders around the bytes routines and encode() raises 'Type is not JSON serializable: bytes', while codec(B4) and codec('B3') carry the bytes verbatim", detail="bytes-guard-reference-fixpoint")
    ref_tests = []
    reaching: set = set()  # which kinds of reference reach an evaluation, over all paths
    for pth in ps:
        if any(T.contains(g, lambda y: T.is_call_to(y, "typelib.py.refs.evaluate")) for g, _ in pth.guards()):
            kinds = {"builtins.str", "typing.ForwardRef"}
            tested = False
            for g, pol in pth.guards():
                if T.is_call_to(g, "builtins.isinstance") and len(g[2]) == 2 and T.contains(g[2][0], lambda y: T.is_call_to(y, f"{C.INSP}.unwrap")) and not T.contains(g[2][0], lambda y: T.is_call_to(y, "typelib.py.refs.evaluate")):
                    named = {T.refname(x) for x in (P.flatten_display(prog, g[2][1]) or [g[2][1]])}
                    kinds = (kinds & named) if pol else (kinds - named)
                    tested = tested or pol
            if tested:
                ref_tests.append(kinds)
                reaching |= kinds
    if via_ref and ref_tests:
        both = {"builtins.str", "typing.ForwardRef"} <= reaching
        rep.check(both, "R02.2", f.qualname, f.loc, "a reference is a str or a ForwardRef: both are evaluated", f"the reference test of the verbatim-bytes decision covers {sorted(set().union(*ref_tests))} only: the other way of naming bytes (a plain string / a ForwardRef object, which is what a string-valued alias unwraps to) still gets the JSON coders around the bytes routines", detail="bytes-guard-reference-kinds")
    del want_m
    cod = prog.cls("typelib.codecs.Codec")
    fields = [s.target.id for s in cod.node.body if isinstance(s, ast.AnnAssign) and isinstance(s.target, ast.Name)]
    rep.check(fields == ["marshal", "unmarshal", "encoder", "decoder"] or set(fields) == {"marshal", "unmarshal", "encoder", "decoder"}, "R02.2", cod.qualname, cod.loc, "Codec's fields are exactly the four roles", f"Codec fields are {fields}", detail="fields")
    isdc = any(d and d.endswith("dataclass") for d in cod.decorators)
    rep.check(isdc, "R02.2", cod.qualname, cod.loc, "Codec is a dataclass (keyword construction maps names to fields)", "Codec is not a dataclass", detail="dataclass")


def _defaults(prog, f):
    a = f.node.args
    ev = P.Evaluator(prog, f.module)
    out = {}
    allp = a.posonlyargs + a.args
    for arg, d in zip(allp[len(allp) - len(a.defaults) :], a.defaults):
        out[arg.arg] = ev.expr(d, {})
    for arg, d in zip(a.kwonlyargs, a.kw_defaults):
        if d is not None:
            out[arg.arg] = ev.expr(d, {})
    return out


def r02_3(prog, rep):
    backends = set()
    for q, roles in (("typelib.codecs.codec", ("encoder", "decoder")), ("typelib.api.encode", ("encoder",)), ("typelib.api.decode", ("decoder",))):
        f = prog.function(q)
        d = _defaults(prog, f)
        for role in roles:
            v = d.get(role)
            name = T.refname(v) if v is not None else None
            want_suffix = ".dumps" if role == "encoder" else ".loads"
            ok = bool(name) and name.endswith(want_suffix)
            if ok:
                backends.add(name.rsplit(".", 1)[0])
            rep.check(ok, "R02.3", q, f.loc, f"default {role} is {name}", f"default {role} is {T.show(v) if v else None}, not the backend's {want_suffix[1:]}", detail=role)
    rep.check(len(backends) == 1, "R02.3", "typelib.api/codecs", "", f"all defaults come from one backend ({sorted(backends)})", f"defaults mix backends {sorted(backends)}: encode and decode disagree on the wire format", detail="one-backend")
    # compat binds `json` once (try: fast backend / except ImportError: stdlib)
    compat = prog.module("typelib.py.compat")
    binds = []
    for n in ast.walk(compat.tree):
        if isinstance(n, ast.Import):
            for a in n.names:
                if (a.asname or a.name) == "json":
                    binds.append(a.name)
    runtime = [b for b in binds]
    rep.check(set(runtime) <= {"orjson", "json"} and "json" in runtime, "R02.3", "typelib.py.compat", compat.relpath, f"compat.json is bound from {sorted(set(runtime))} by import only", f"compat.json is bound from {sorted(set(runtime))}", detail="backend-binding")


def run(prog: Program, rep: Report, tier: str):
    rep.rule("R02.1", "composition shape of the four entry points", floor=4)
    rep.rule("R02.2", "codec() wiring, bytes guard, Codec fields", floor=9)
    rep.rule("R02.3", "default coders symmetric on one backend", floor=6)
    rep.rule("R02.5", "entry points agree on which types travel verbatim", floor=2)
    r02_5(prog, rep)
    rep.rule("R02.4", "codec memoisation keyed on every configuration parameter", floor=1)
    r02_1(prog, rep)
    r02_2(prog, rep)
    r02_3(prog, rep)
    r02_4(prog, rep)
