"""C11 — aliases, NewTypes, qualifiers and string references are transparent (structural necessary conditions)."""

from __future__ import annotations

from .. import oracle
from .. import paths as P
from .. import terms as T
from ..model import Program
from ..report import Report, absorb
from . import c05, c09, c16
from . import common as C
from . import effects as E

EXPLANATION = (
    "R11.1 peel-set coverage: inspection.unwrap has a peeling branch for each of ClassVar / Final (via _UNWRAPPABLE and should_unwrap), TypeAliasType "
    "(__value__; string values become a forward reference qualified with the alias's module) and NewType (__supertype__); each branch re-enters the loop so "
    "chains peel to a fixpoint, and the only exits return the current annotation. R11.2 both dispatchers evaluate predicates on, and construct routines with, "
    "node.unwrapped (shared with R05.4). R11.3 the context is filled under both node.type and node.unwrapped (shared with R05.1). R11.4 TypeContext falls back "
    "unwrapped-then-forward-reference (the C16 rules). R11.5 no memoised function on the reference-resolution path reads ambient state. R11.6 every graph node "
    "carries (annotation, unwrap(annotation)) and string/ForwardRef roots are evaluated (shared with R09.4)."
)
ASSUMPTIONS = [
    "behavioural identity of the routines for W(T) and T on inputs is a runtime statement (ND)",
    "resolution of bare names from arbitrary caller modules depends on frame inspection, which is dynamic by nature (ND)",
]
TRUSTED = oracle.TRUSTED


def r11_1(prog: Program, rep: Report):
    f = prog.function(f"{C.INSP}.unwrap")
    ps = P.paths_of(prog, f)
    q = f.qualname
    found = {"qualifier": False, "alias": False, "alias-string": False, "newtype": False}
    fix = {"qualifier": True, "alias": True, "newtype": True}
    exits_ok = True
    string_exits_bad: list[str] = []
    bare_qualifier_unguarded: list[int] = []
    for p in ps:
        gs = p.guards()
        in_loop = any(e[0] == "while" and e[2] == 1 for e in p.events)
        ended = any(e[0] == "whileend" for e in p.events)
        cur_t = None
        for e in p.events:
            if e[0] == "assign" and e[1] == f.params[0]:
                cur_t = e[2]
        t0 = ("param", f.params[0])
        kind = None
        if any(pol and T.is_call_to(g, f"{C.INSP}.should_unwrap") and g[2] == (t0,) for g, pol in gs):
            kind = "qualifier"
            if cur_t == ("sub", ("attr", t0, "__args__"), ("const", 0)):
                found[kind] = True
                # bare `Final` / `ClassVar` (legal: `x: Final = 3`) have no __args__
                guarded = any(T.contains(g, lambda x: x == ("attr", t0, "__args__") or (T.is_call_to(x, "builtins.getattr", "builtins.hasattr") and x[2][:2] == (t0, ("const", "__args__"))) or (T.is_call_to(x, f"{C.INSP}.args", "typing.get_args") and x[2][:1] == (t0,))) for g, _ in gs)
                if not guarded:
                    bare_qualifier_unguarded.append(1)
            elif cur_t is not None and T.contains(cur_t, lambda x: T.is_call_to(x, "builtins.getattr") and x[2][:2] == (t0, ("const", "__args__")) or T.is_call_to(x, f"{C.INSP}.args", "typing.get_args")):
                found[kind] = True
            elif cur_t is not None and cur_t[0] == "call" and cur_t[1][0] == "ref" and cur_t[1][1].startswith(C.INSP + "._") and cur_t[2][:1] == (t0,) and cur_t[1][1] in prog.functions:
                # (the peel moved into a private helper: `_first_member_or_any(t)` -- it takes the member from the annotation's __args__)
                hp_ = prog.functions[cur_t[1][1]]
                hparam = ("param", hp_.params[0]) if hp_.params else None
                if any(T.contains(tm, lambda x: x == ("attr", hparam, "__args__") or (T.is_call_to(x, "builtins.getattr") and x[2][:2] == (hparam, ("const", "__args__"))) or (T.is_call_to(x, f"{C.INSP}.args", "typing.get_args") and x[2][:1] == (hparam,))) for hpth in P.paths_of(prog, hp_) for tm in hpth.all_terms()):
                    found[kind] = True
        elif any(pol and T.is_call_to(g, f"{C.INSP}.istypealiastype") and g[2] == (t0,) for g, pol in gs):
            val = ("attr", t0, "__value__")
            isstr = [pol for g, pol in gs if T.contains(g, lambda s: s == val) and (T.contains(g, lambda s: s == ("ref", "builtins.str")))]
            if isstr == [True]:
                kind = "alias-string"
                r = p.exit[1] if p.exit[0] == "return" else None
                if r is not None and T.is_call_to(r, "typelib.py.refs.forwardref") and r[2][:1] == (val,) and dict(r[3]).get("module") == ("attr", t0, "__module__"):
                    found[kind] = True
                elif r is not None:
                    string_exits_bad.append(T.show(r)[:80])
                continue
            kind = "alias"
            if cur_t == val:
                found[kind] = True
        elif any(pol and T.is_call_to(g, "builtins.hasattr") and g[2] == (t0, ("const", "__supertype__")) for g, pol in gs):
            kind = "newtype"
            if cur_t == ("attr", t0, "__supertype__"):
                found[kind] = True
        if kind in fix and in_loop and not ended:
            # the peel branch left the loop without re-entering it: only one layer is peeled
            fix[kind] = False
        if kind is None and p.exit[0] == "return":
            if p.exit[1] != t0:
                exits_ok = False
    # the loop runs `while <sentinel> is not <current>`: every peel must leave them different, or the loop stops after one layer
    import ast as _ast

    wl = [n for n in _ast.walk(f.node) if isinstance(n, _ast.While)]
    names = None
    if wl and isinstance(wl[0].test, _ast.Compare) and isinstance(wl[0].test.left, _ast.Name) and len(wl[0].test.comparators) == 1 and isinstance(wl[0].test.comparators[0], _ast.Name) and isinstance(wl[0].test.ops[0], _ast.IsNot):
        names = (wl[0].test.left.id, wl[0].test.comparators[0].id)
    if names:
        for p in ps:
            if not any(e[0] == "whileend" for e in p.events):
                continue
            last = {}
            for e in p.events:
                if e[0] == "whileend":
                    break
                if e[0] == "assign" and e[1] in names:
                    last[e[1]] = e[2]
            cur = {n: last.get(n, ("param", n) if n in f.params else None) for n in names}
            # a peel re-binds the value being unwrapped (the parameter); a pass that only records the sentinel is not one
            peeled = [n for n in names if n in f.params and n in last]
            if peeled and cur[names[0]] is not None and cur[names[0]] == cur[names[1]]:
                gs = [T.show(g)[:40] for g, pol in p.guards() if pol][-1:]
                rep.violated("R11.1", q, f.loc, f"a peel branch ({gs}) leaves the loop sentinel equal to the peeled value, so `while {names[0]} is not {names[1]}` stops after one layer: an alias of an alias (or of a NewType) is only half unwrapped", detail="sentinel")
                break
        else:
            rep.held("R11.1", q, f.loc, "every peel leaves the loop sentinel different from the peeled value (the loop goes on)", detail="sentinel")
    labels = {"qualifier": "Final/ClassVar (t.__args__[0])", "alias": "TypeAliasType (t.__value__)", "alias-string": "string-valued TypeAliasType (forward reference in the alias's module)", "newtype": "NewType (t.__supertype__)"}
    for k, ok in found.items():
        rep.check(ok, "R11.1", q, f.loc, f"unwrap peels {labels[k]}", f"unwrap has no branch that peels {labels[k]}: such annotations are dispatched as opaque objects", detail=k)
    for k, ok in fix.items():
        rep.check(ok, "R11.1", q, f.loc, f"after peeling {k} the loop is re-entered (chains peel to a fixpoint)", f"after peeling {k} unwrap returns at once: a chain such as NewType of NewType / Final[alias] is only peeled one level", detail=f"{k}-fixpoint")
    rep.check(not bare_qualifier_unguarded, "R11.1", q, f.loc, "the qualifier peel does not assume type arguments (bare Final / ClassVar have none)", "unwrap() indexes t.__args__[0] whenever should_unwrap(t) holds, and it holds for the bare forms: a class with `x: Final = 3` or `y: ClassVar = 0` raises AttributeError('__args__') out of the graph walk", detail="bare-qualifier")
    rep.check(not string_exits_bad, "R11.1", q, f.loc, "a string-valued alias always unwraps to the forward reference in the alias's module", f"a string-valued alias can unwrap to {string_exits_bad[:1]} instead of the forward reference naming its value: the context key under which the graph registered it is no longer the one a lookup asks for", detail="alias-string-exit")
    rep.check(exits_ok, "R11.1", q, f.loc, "the non-peeling exit returns the current annotation", "an exit returns something other than the current annotation", detail="exit")
    # should_unwrap consults every qualifier predicate — through a table (`any(x(obj) for x in TABLE)`) or spelled out
    su = prog.function(f"{C.INSP}.should_unwrap")
    obj = ("param", su.params[0])
    names: set[str] = set()

    def positive_calls(tm, pos=True):
        if tm[0] == "not":
            positive_calls(tm[1], not pos)
        elif tm[0] == "boolop":
            for x in tm[2]:
                positive_calls(x, pos)
        elif tm[0] == "call":
            rn = T.refname(tm[1])
            if pos and rn and rn.startswith(C.INSP + ".") and tm[2] == (obj,):
                names.add(rn)
            if pos and rn == "builtins.any" and tm[2] and tm[2][0][0] == "comp":
                c = tm[2][0]
                items = P.flatten_display(prog, c[3][0][0])
                if items is not None and c[2] == ("call", ("elem", c[3][0][0]), (obj,), ()):
                    names.update(T.refname(x) for x in items if T.refname(x))

    for p_, r in P.returns(P.paths_of(prog, su)):
        positive_calls(r)
        # (the loop form: `for is_wrapper in _UNWRAPPABLE: if is_wrapper(obj): return True`)
        if r == ("const", True):
            for g_, pol_ in p_.guards():
                if pol_:
                    positive_calls(g_)
    need = {f"{C.INSP}.isclassvartype", f"{C.INSP}.isfinal"}
    rep.check(need <= names, "R11.1", su.qualname, su.loc, "should_unwrap consults the ClassVar and the Final predicate", f"should_unwrap does not consult {sorted(n.rsplit('.', 1)[-1] for n in need - names)}: that qualifier is never peeled", detail="qualifiers")
    # isliteral() looks through ClassVar (origin() peels it), so a `not isliteral(obj)` conjunct vetoes the peeling of
    # ClassVar[Literal[...]]: the Literal routine then receives the qualified form and rejects every value
    veto = any(T.contains(r, lambda x: x[0] == "not" and T.is_call_to(x[1], f"{C.INSP}.isliteral") and x[1][2] == (obj,)) for _, r in P.returns(P.paths_of(prog, su))) or any(T.is_call_to(g, f"{C.INSP}.isliteral") and g[2] == (obj,) and r == ("const", False) and pol for pth, r in P.returns(P.paths_of(prog, su)) for g, pol in pth.guards())
    rep.check(not veto, "R11.1", su.qualname, su.loc, "no Literal veto on qualifier peeling (a bare Literal is neither ClassVar nor Final anyway)", "should_unwrap is vetoed by `not isliteral(obj)`, and isliteral() sees through ClassVar: ClassVar[Literal['r', 'w']] is never unwrapped, so every value is rejected by the Literal routine", detail="should_unwrap")
    # the alias predicate recognises every alias class of the environment (typing's and a distinct typing_extensions backport)
    ia = prog.function(f"{C.INSP}.istypealiastype")
    tested: set[str] = set()
    for _, r in P.returns(P.paths_of(prog, ia)):
        for x in T.walk(r):
            if T.is_call_to(x, "builtins.isinstance") and len(x[2]) == 2:
                for y in P.flatten_display(prog, x[2][1]) or [x[2][1]]:
                    if T.refname(y):
                        tested.add(T.refname(y))
    want = set(oracle.type_alias_classes())
    rep.check(want <= tested, "R11.1", ia.qualname, ia.loc, f"istypealiastype recognises {sorted(want)}", f"istypealiastype tests {sorted(tested)} only: an alias built with {sorted(want - tested)} (a distinct class in this environment; the library's own compat module and tests spell aliases that way) is not unwrapped, so routines and context lookups treat the alias object as a type", detail="alias-classes")
    # the predicates themselves
    for nm, target in (("isfinal", "typing.Final"), ("isclassvartype", "typing.ClassVar")):
        g = prog.function(f"{C.INSP}.{nm}")
        hit = any(T.contains(r, lambda s, target=target: s[0] == "cmp" and s[1] == "is" and T.refname(s[3]) == target) for _, r in P.returns(P.paths_of(prog, g)))
        rep.check(hit, "R11.1", g.qualname, g.loc, f"{nm} tests identity with {target}", f"{nm} does not test for {target}", detail=nm)


def r11_5(prog: Program, rep: Report):
    memo = prog.memoised_functions()
    for q in sorted(memo):
        if not q.startswith("typelib.py.refs."):
            continue
        f = prog.functions.get(q)
        if f is None:
            continue
        amb = E.ambient_reads(prog, f, depth=4)
        rep.check(
            not amb, "R11.5", q, f.loc, "memoised resolver is pure",
            f"memoised on (ref, module) but resolves the module by inspecting the caller's stack ({sorted(a.split(' in ')[-1] for a in amb)[:2]}): the first caller's module is served to every later caller of the same bare name",
            detail=E.ambient_detail(amb),
        )  # fmt: skip
    # forwardref() derives the name from the type and strips the module prefix
    fr = prog.function("typelib.py.refs.forwardref")
    ok = False
    for _, r in P.returns(P.spaths(prog, fr)):
        if T.is_call_to(r, "typing.ForwardRef"):
            kw = dict(r[3])
            ok = kw.get("module") is not None and T.is_call_to(kw["module"], "typelib.py.refs._resolve_module_name")
    rep.check(ok, "R11.5", fr.qualname, fr.loc, "forwardref() passes the resolved module to ForwardRef", "forwardref() builds the reference without a resolved module", detail="module-flow")


def r11_7(prog: Program, rep: Report, rule="R11.7"):
    """refs.forwardref(): a type is referenced under its own qualified name and module, flags and defaults intact."""
    from . import c09

    fr = prog.function("typelib.py.refs.forwardref")
    ref = ("param", fr.params[0])
    # whoever in the reference module constructs a typing.ForwardRef names it by the whole qualified name of what it stands for:
    # `__name__` (or inspection.name) of a parameter is the last component only -- the nested class Graph.Node would be
    # referred to as 'Node', which names nothing, or another class, in its module
    short = []
    n_ctor = 0
    for g in sorted(prog.functions.values(), key=lambda g: g.qualname):
        if g.module != fr.module:
            continue
        try:
            gps = P.paths_of(prog, g)
        except Exception:
            continue
        for p in gps:
            for tm in p.all_terms():
                for x in T.walk(tm):
                    if T.is_call_to(x, "typing.ForwardRef") and x[2]:
                        n_ctor += 1
                        if T.contains(x[2][0], lambda y: (y[0] == "attr" and y[2] == "__name__" and y[1][0] == "param") or (T.is_call_to(y, f"{C.INSP}.name") and y[2] and y[2][0][0] == "param")):
                            short.append(g.qualname)
    rep.check(bool(n_ctor) and not short, rule, "typelib.py.refs.ForwardRef", fr.loc, "no reference is named by the last component of a qualified name", f"{sorted(set(short))[:2]} name a typing.ForwardRef by `__name__` / name() of the object: a class nested in another (Graph.Node) is referred to as 'Node' -- NameError when the reference is evaluated, or every level below the first becomes a module-level class of that name", detail="reference-named-in-full")
    ok_name = ok_module = ok_flags = False
    why_name = why_mod = ""
    # the module qualifier is removed from the reference name as a *prefix* only
    anywhere = []
    for p in P.spaths(prog, fr):
        for tm in p.all_terms():
            for x in T.walk(tm):
                if x[0] == "call" and x[1][0] == "attr" and x[1][2] == "replace" and len(x[2]) == 2 and x[2][1] == ("const", "") and T.contains(x[2][0], lambda y: y[0] == "fmt" or y == ("const", ".")):
                    anywhere.append(T.show(x)[:80])
    # ... and at *every* name in the text: 'mod.A | mod.B' names the module twice, and the text is evaluated in mod's own
    # namespace, where `mod` is not bound.  Accepted: re.sub with a pattern that is <not preceded by a word character or a
    # dot> + re.escape(module) + a literal dot (the regex is parsed, with a placeholder for the escaped module).
    import re as _re

    def boundary_sub(x):
        if not (T.is_call_to(x, "re.sub") and len(x[2]) >= 3 and x[2][1] == ("const", "") and x[2][0][0] == "fstr"):
            return False
        text = ""
        for part in x[2][0][1]:
            if part[0] == "const":
                text += str(part[1])
            elif part[0] == "fmt" and T.is_call_to(part[1], "re.escape"):
                text += "MODULE"
            else:
                return False
        try:
            items = list(_re._parser.parse(text))
        except Exception:
            return False
        if len(items) < 3 or str(items[0][0]) != "ASSERT_NOT" or items[0][1][0] != -1:
            return False
        look = list(items[0][1][1])
        if len(look) != 1 or str(look[0][0]) != "IN":
            return False
        members = {(str(k), v if not hasattr(v, "name") else str(v)) for k, v in look[0][1]}
        if not ({("CATEGORY", "CATEGORY_WORD"), ("LITERAL", ord("."))} <= members):
            return False
        lits = "".join(chr(v) for k, v in items[1:] if str(k) == "LITERAL")
        return lits == "MODULE." and len(items) == 1 + len("MODULE.")

    everywhere = first_only = False
    for p in P.spaths(prog, fr):
        for tm in p.all_terms():
            for x in T.walk(tm):
                if boundary_sub(x):
                    everywhere = True
                elif T.is_call_to(x, "re.sub") and len(x[2]) >= 3 and x[2][1] == ("const", "") and T.contains(x[2][0], lambda y: T.is_call_to(y, "re.escape")):
                    anywhere.append(T.show(x)[:80])  # a substitution without the boundary condition is str.replace
                if x[0] == "call" and x[1][0] == "attr" and x[1][2] in ("removeprefix", "lstrip", "partition", "split") and x[2] and T.contains(x[2][0], lambda y: y[0] == "fmt" or y == ("const", ".")):
                    first_only = True
    if not everywhere and not first_only and not anywhere:
        rep.undecided(rule, fr.qualname, fr.loc, "how forwardref() removes the module qualifier from the reference text was not recognised (known forms: boundary-aware re.sub; prefix-only; replace-anywhere)", detail="qualifier-everywhere")
    else:
      rep.check(everywhere, rule, fr.qualname, fr.loc, "the module qualifier is removed at every name boundary of the reference text", ("forwardref() removes the module qualifier at the start of the text only: in 'mod.A | mod.B' (or 'dict[str, mod.Item]') the second name keeps it, and the text is evaluated in mod's own namespace where `mod` is not bound -- NameError" if first_only else "forwardref() has no boundary-aware removal of the module qualifier from the reference text"), detail="qualifier-everywhere")
    rep.check(not anywhere, rule, fr.qualname, fr.loc, "the module qualifier is stripped from the reference name only where it is a prefix", f"forwardref() deletes '<module>.' wherever it occurs in the name (str.replace): a class Item.Part in a module named 'm' is referenced as 'ItePart', 'pathlib.Path' in a module named 'lib' as 'pathPath'", detail="prefix-strip")
    # the module a caller names wins: every other answer of the resolver is given only when none was named
    rm = prog.functions.get("typelib.py.refs._resolve_module_name")
    if rm is not None and len(rm.params) > 1:
        mp = ("param", rm.params[1])
        none_given = ("cmp", "is", mp, ("const", None))
        overridden = []
        for p, r in P.returns(P.spaths(prog, rm)):
            if r == mp:
                continue
            if not any(g == none_given and pol for g, pol in p.guards()):
                overridden.append(T.show(r)[:60])
        rep.check(not overridden, rule, rm.qualname, rm.loc, "an explicitly named module is what the resolver answers", f"_resolve_module_name can answer {overridden[0] if overridden else ''} although the caller named the module: a reference such as 'typing.Optional[Node]' declared in module m is then evaluated in `typing`, where Node does not exist (NameError), instead of in m", detail="explicit-module-wins")
    for p, r in P.returns(P.spaths(prog, fr)):
        if not T.is_call_to(r, "typing.ForwardRef"):
            continue
        nonstr = any((not pol) and T.is_call_to(g, "builtins.isinstance") and g[2] == (ref, ("ref", "builtins.str")) for g, pol in p.guards()) or any(pol and g[0] == "not" for g, pol in p.guards())
        if not nonstr:
            continue
        name = r[2][0] if r[2] else None
        # the name derives from qualname(ref) of the object that was passed in
        qcalls = [s for s in T.walk(name) if s[0] == "call" and T.refname(s[1]) and s[2][:1] == (ref,)] if name is not None else []
        if any(T.refname(c[1]) == f"{C.INSP}.qualname" for c in qcalls):
            ok_name = True
        elif name is not None:
            other = [T.refname(s[1]) for s in T.walk(name) if s[0] == "call" and T.refname(s[1]) and T.refname(s[1]).startswith("typelib.")]
            why_name = f"the reference name is computed by {[o.rsplit('.', 1)[-1] for o in other][:2]}"
            if any(c09.drops_qualifier(prog, o) for o in other if o):
                why_name += " which keeps only the last dotted component: a nested class is referenced under a name that resolves to nothing, or to another class, in its module"
            if any(T.refname(s[1]) in (f"{C.INSP}.resolve_supertype", f"{C.INSP}.unwrap", f"{C.INSP}.origin") for s in T.walk(name) if s[0] == "call"):
                why_name += "; the object is replaced by what it wraps before it is named: a NewType is referenced as its base type"
        kw = dict(r[3])
        mod = kw.get("module")
        if mod is not None and T.is_call_to(mod, "typelib.py.refs._resolve_module_name"):
            marg = mod[2][1] if len(mod[2]) > 1 else dict(mod[3]).get("module")
            own = marg is not None and T.contains(marg, lambda s: T.is_call_to(s, "builtins.getattr") and s[2][:2] == (ref, ("const", "__module__"))) and not T.contains(marg, lambda s: T.is_call_to(s, f"{C.INSP}.resolve_supertype", f"{C.INSP}.unwrap"))
            caller_first = marg is not None and marg[0] == "boolop" and marg[1] == "or" and marg[2][0] == ("param", "module")
            # the statement form: `if not module: module = getattr(ref, "__module__", None)`
            mp = ("param", "module")
            atoms_ = T.derive_atoms(p.guards())
            none_given = any((a == mp and not val) or (a == ("not", mp) and val) or (a[0] == "cmp" and a[1] == "is" and mp in a[2:4] and ("const", None) in a[2:4] and val) for a, val in atoms_)
            given = any((a == mp and val) or (a == ("not", mp) and not val) or (a[0] == "cmp" and a[1] == "is" and mp in a[2:4] and ("const", None) in a[2:4] and not val) for a, val in atoms_)
            if own and none_given and not T.contains(marg, lambda s: s == mp):
                caller_first = True
            if marg == mp and given:
                continue  # (the other half of the statement form: the caller's module is used where one was given)
            if own and caller_first:
                ok_module = True
            elif own:
                why_mod = "the object's own __module__ takes precedence over the module the caller supplied: a ForwardRef instance has no module of its own (the attribute lookup finds 'typing'), so the module passed by the graph for a revisited string alias is lost"
            else:
                why_mod = "the module is not the given object's own __module__"
        ok_flags = kw.get("is_class") == ("param", "is_class") and kw.get("is_argument") == ("param", "is_argument")
    rep.check(ok_name, rule, fr.qualname, fr.loc, "a type is referenced under inspection.qualname of the object itself", why_name or "the name of a non-string reference is not qualname(ref)", detail="name")
    rep.check(ok_module, rule, fr.qualname, fr.loc, "…in the module given, else the object's own __module__", why_mod or "module of a non-string reference is not module or getattr(ref, '__module__')", detail="module")
    rep.check(ok_flags, rule, fr.qualname, fr.loc, "is_class / is_argument are passed through", "is_class / is_argument are not passed to ForwardRef unchanged", detail="flags")
    # defaults: string references to class-level qualifiers (ClassVar[...]) need is_class=True
    import ast as _ast

    dflt = {}
    a = fr.node.args
    for arg, d in zip(a.kwonlyargs, a.kw_defaults):
        if d is not None:
            try:
                dflt[arg.arg] = _ast.literal_eval(d)
            except Exception:
                dflt[arg.arg] = "?"
    rep.check(dflt.get("is_class") is True, rule, fr.qualname, fr.loc, "references default to is_class=True (a string reference may spell ClassVar[...])", f"forwardref() defaults to is_class={dflt.get('is_class')}: evaluating the string reference 'ClassVar[int]' raises TypeError", detail="is_class-default")
    # module inferred from a dotted reference string: everything before the FIRST dot (the rest may be Outer.Inner)
    rm = prog.function("typelib.py.refs._resolve_module_name")
    rp = ("param", rm.params[0])
    first = last = False
    for p in P.spaths(prog, rm):
        for tm in p.all_terms():
            for s in T.walk(tm):
                if s[0] == "sub" and s[1][0] == "call" and s[1][1][0] == "attr" and s[1][1][1] == rp and s[1][2][:1] == (("const", "."),):
                    if s[1][1][2] in ("split", "partition") and s[2] == ("const", 0):
                        first = True
                    if s[1][1][2] in ("rsplit", "rpartition") and s[2] == ("const", 0):
                        last = True
                # the same through tuple unpacking: `module, _, name = ref.rpartition(".")`
                if s[0] == "unpack" and s[2] == 0 and s[1][0] == "call" and s[1][1][0] == "attr" and s[1][1][1] == rp and s[1][2][:1] == (("const", "."),):
                    if s[1][1][2] in ("rsplit", "rpartition"):
                        last = True
                    if s[1][1][2] in ("split", "partition"):
                        first = True
    # ... and only when that text *is a name*: the first dot of 'list[decimal.Decimal]' or 'int | mod.X' is not a qualifier's
    head = lambda s: s[0] == "sub" and s[1][0] == "call" and s[1][1][0] == "attr" and s[1][1][1] == rp and s[1][1][2] in ("split", "partition") and s[2] == ("const", 0)  # noqa: E731
    text_exits = [p for p, r in P.returns(P.spaths(prog, rm)) if head(r)]
    named = bool(text_exits) and all(any(pol and T.contains(g, lambda x: x[0] == "call" and x[1][0] == "attr" and x[1][2] in ("isidentifier", "fullmatch", "match") and (head(x[1][1]) or any(head(a) for a in x[2]))) for g, pol in p.guards()) for p in text_exits)
    if text_exits:
        rep.check(named, rule, rm.qualname, rm.loc, "the text before the first dot is taken for the module only when it is an identifier", "the text before the first dot of a reference string is taken for its module whatever it is: for 'list[decimal.Decimal]' (or 'int | mod.X', 'Optional[mod.X]') the \"module\" is 'list[decimal', the rest 'Decimal]' is not an expression -- SyntaxError", detail="qualifier-is-a-name")
    rep.check(first and not last, rule, rm.qualname, rm.loc, "the module of a dotted reference string is the text before its first dot", "the module of a dotted reference string is cut at the last dot: 'mod.Outer.Inner' is looked for in a module 'mod.Outer'", detail="first-dot")


def r11_8(prog: Program, rep: Report, rule="R11.8"):
    """refs.evaluate: non-references come back unchanged, an evaluated reference yields its value, anything else is evaluated
    in the caller-supplied namespaces. inspection.args evaluates references when asked to."""
    ev = prog.function("typelib.py.refs.evaluate")
    ref = ("param", ev.params[0])
    ident = cached = evald = False
    for p, r in P.returns(P.paths_of(prog, ev)):
        gs = p.guards()
        notref = any((not pol) and g[0] == "cmp" and g[1] in ("is", "==") and (T.is_call_to(g[2], "builtins.type") and g[2][2] == (ref,) or g[2] == ("attr", ref, "__class__")) and T.refname(g[3]) == "typing.ForwardRef" for g, pol in gs) or any((not pol) and T.is_call_to(g, "builtins.isinstance") and g[2][:1] == (ref,) for g, pol in gs)
        if notref and r == ref:
            ident = True
        if r == ("attr", ref, "__forward_value__") and any(pol and g == ("attr", ref, "__forward_evaluated__") for g, pol in gs):
            cached = True
        if r[0] == "call" and r[1][0] == "attr" and r[1][2] == "_evaluate" and r[1][1] == ref and r[2][:2] == (("param", "globalns"), ("param", "localns")):
            evald = True
    rep.check(ident, rule, ev.qualname, ev.loc, "a non-reference is returned unchanged", "evaluate() does not return non-references unchanged", detail="identity")
    rep.check(cached, rule, ev.qualname, ev.loc, "an evaluated reference yields its stored value", "evaluate() does not reuse __forward_value__ of an evaluated reference", detail="evaluated")
    rep.check(evald, rule, ev.qualname, ev.loc, "otherwise the reference itself is evaluated in the supplied namespaces", "evaluate() does not evaluate the given reference with the caller's namespaces", detail="evaluate")
    # a reference that names no module (typing makes those for `List["Node"]`) is looked for like a bare string, not
    # evaluated in empty namespaces
    moduleless = False
    for p, r in P.returns(P.paths_of(prog, ev)):
        if r[0] == "call" and r[1][0] == "attr" and r[1][2] == "_evaluate":
            recv = r[1][1]
            if T.is_call_to(recv, "typelib.py.refs.forwardref") and recv[2] and T.contains(recv[2][0], lambda x: x == ("attr", ref, "__forward_arg__")):
                explicit = dict(recv[3]).get("module")
                if explicit is None or explicit == ("attr", ref, "__forward_module__"):
                    moduleless = True
    rep.check(moduleless, rule, ev.qualname, ev.loc, "a reference without a module is re-made from its text (module found as for a bare string) before it is evaluated", "a reference that names no module -- what typing itself makes for the string in List['Node'], Dict[str, 'Item'], Optional['Item'] -- is evaluated as it is, in empty namespaces: NameError for every class that is not a builtin, although the same string at the root resolves", detail="moduleless-reference")
    af = prog.function(f"{C.INSP}.args")
    ann = ("param", af.params[0])
    # raw string members (a builtin generic keeps them: list['Node']) are references too -- except in a Literal
    str_members = lit_excluded = lit_leak = False
    for p in P.spaths(prog, af):
        if not any(g == ("param", "evaluate") and pol for g, pol in p.guards()):
            continue
        # (the statement form, possibly in a helper of its own: `if isinstance(arg, str): return refs.forwardref(arg)`)
        if any(pol and T.is_call_to(g, "builtins.isinstance") and len(g[2]) == 2 and T.refname(g[2][1]) == "builtins.str" for g, pol in p.guards()) and any(T.contains(tm, lambda y: T.is_call_to(y, "typelib.py.refs.forwardref")) for tm in p.all_terms()):
            str_members = True
        for tm in p.all_terms():
            for x in T.walk(tm):
                if x[0] == "ifexp" and T.is_call_to(x[1], "builtins.isinstance") and T.refname(x[1][2][1]) == "builtins.str" and T.is_call_to(x[2], "typelib.py.refs.forwardref"):
                    str_members = True
                if x[0] == "comp" and any(T.is_call_to(cd, "builtins.isinstance") and T.refname(cd[2][1]) == "builtins.str" for cd in x[4]) and T.contains(x[2], lambda y: T.is_call_to(y, "typelib.py.refs.forwardref")):
                    str_members = True
        # (on a path that makes references of string members, the annotation is known *not* to be a Literal)
        makes_refs = any(T.contains(tm, lambda y: T.is_call_to(y, "typelib.py.refs.forwardref")) for tm in p.all_terms())
        atoms11 = T.derive_atoms(p.guards())
        not_literal = any((not val) and ((a[0] == "cmp" and a[1] == "is" and any(T.refname(y) == "typing.Literal" for y in a[2:4])) or T.is_call_to(a, f"{C.INSP}.isliteral")) for a, val in atoms11)
        if makes_refs and not_literal:
            lit_excluded = True
        if makes_refs and not not_literal:
            lit_leak = True
    rep.check(str_members and lit_excluded and not lit_leak, rule, af.qualname, af.loc, "args(evaluate=True) turns raw string members into references first (Literal members stay values)", "args(evaluate=True) leaves raw string members as they are (refs.evaluate returns a str unchanged): the routine constructors look list['Item'] / dict[str, 'Item'] members up under the *string*, which is no key of the context (KeyError), or dispatch on a str object (TypeError)" if not str_members else "raw string members are turned into references for Literal annotations too: the members of Literal['a', 'b'] are values", detail="args-evaluate-strings")
    # ... and the constructors ask for it: the graph evaluates string members, so the context is keyed by the evaluated type --
    # every routine constructor that takes its members from inspection.args passes evaluate=True
    raw_ctor = []
    n_ctor = 0
    for d in ("marshal", "unmarshal"):
        for c in C.routine_classes(prog, d):
            init = c.methods.get("__init__")
            if init is None:
                continue
            for p in P.paths_of(prog, init):
                # (only where the members are looked up in the context: the members of a Literal are values)
                keys = [y[2] for tm in p.all_terms() for y in T.walk(tm) if y[0] == "sub" and (y[1] == ("param", "context") or y[1] == C.sattr("context"))]
                for tm in p.all_terms():
                    for x in T.walk(tm):
                        if T.is_call_to(x, f"{C.INSP}.args") and any(T.contains(k, lambda z, x=x: z == x) for k in keys):
                            n_ctor += 1
                            ev_kw = dict(x[3]).get("evaluate") or (x[2][1] if len(x[2]) > 1 else ("const", False))
                            if ev_kw != ("const", True):
                                raw_ctor.append(c.name)
    if n_ctor:
        rep.check(not raw_ctor, rule, "typelib.routines", "", f"{n_ctor} member look-ups of routine constructors use inspection.args(t, evaluate=True)", f"{sorted(set(raw_ctor))[:3]} take(s) the members from inspection.args without evaluate=True: a string member (Union['Node', int], list['Node']) is looked up in the context as the reference, while the graph registered the evaluated class -- KeyError: ForwardRef('Node') when the routine is built", detail="ctor-args-evaluated")
    okargs = okeval = False
    for p, r in P.returns(P.spaths(prog, af)):
        if T.contains(r, lambda s: T.is_call_to(s, "typing.get_args") and s[2] == (ann,)):
            okargs = True
        evpol = [pol for g, pol in p.guards() if g == ("param", "evaluate")]
        if evpol == [True] and T.contains(r, lambda s: T.is_call_to(s, "typelib.py.refs.evaluate")):
            okeval = True
    rep.check(okargs, rule, af.qualname, af.loc, "args() reports typing.get_args of the annotation (declaration order)", "args() is not built on typing.get_args(annotation)", detail="get_args")
    rep.check(okeval, rule, af.qualname, af.loc, "args(evaluate=True) evaluates forward-reference members", "args(evaluate=True) does not evaluate forward references among the members", detail="args-evaluate")
    gh = prog.function(f"{C.INSP}.get_type_hints")
    obj = ("param", gh.params[0])
    uses = kwonly = fallback = False
    for p in P.paths_of(prog, gh):
        for tm in p.all_terms():
            if T.contains(tm, lambda s: T.is_call_to(s, "typing.get_type_hints") and s[2][:1] == (obj,)):
                uses = True
            if T.contains(tm, lambda s: s[0] == "comp" and any(T.contains(c, lambda y: T.refname(y) in ("dataclasses.KW_ONLY", "typelib.py.compat.KW_ONLY")) for c in s[4])):
                kwonly = True
            if T.contains(tm, lambda s: T.is_call_to(s, f"{C.INSP}._hints_from_signature") and s[2] == (obj,)):
                if any(g == ("param", "exhaustive") and pol for g, pol in p.guards()) or any(T.contains(g, lambda y: y == ("param", "exhaustive")) and pol for g, pol in p.guards()):
                    fallback = True
    hints_namespace(prog, rep, rule)
    hints_module_owner(prog, rep, rule)
    rep.check(uses, rule, gh.qualname, gh.loc, "hints come from typing.get_type_hints(obj) (aliases and string annotations resolved)", "get_type_hints is not built on typing.get_type_hints(obj)", detail="hints-source")
    rep.check(kwonly, rule, gh.qualname, gh.loc, "the dataclass KW_ONLY sentinel is filtered out", "the KW_ONLY sentinel is not filtered: a pseudo-field reaches the graph", detail="kw-only")
    rep.check(fallback, rule, gh.qualname, gh.loc, "signature hints are used only when asked for (exhaustive) and nothing else was found", "the signature fallback is not tied to `exhaustive`", detail="exhaustive")


def hints_namespace(prog: Program, rep: Report, rule: str):
    """typing.get_type_hints(cls) evaluates the string annotations of every class on the MRO in that class's own module;
    an explicit globalns/localns replaces all of them by one namespace (inherited members resolve against the wrong module)."""
    gh = prog.function(f"{C.INSP}.get_type_hints")
    calls = []
    for p in P.paths_of(prog, gh):
        for tm in p.all_terms():
            calls += [s for s in T.walk(tm) if T.is_call_to(s, "typing.get_type_hints")]
    bad = [c for c in calls if len(c[2]) > 1 or any(k in ("globalns", "localns") and v != ("const", None) for k, v in c[3])]
    if not calls:
        rep.undecided(rule, gh.qualname, gh.loc, "no call to typing.get_type_hints found", detail="hints-namespace")
        return
    rep.check(not bad, rule, gh.qualname, gh.loc, "string annotations are evaluated per defining class (no explicit namespace is passed to typing.get_type_hints)", "typing.get_type_hints is given an explicit globalns/localns: with one, the annotations of *every* class on the MRO are evaluated in that single namespace, so a member inherited from a base in another module is resolved against the subclass's module (a same-named class there silently replaces the declared one)", detail="hints-namespace")


def hints_stripped(prog: Program, rep: Report, rule: str):
    """The member hints the library works with carry no `Annotated[...]` wrapper: no predicate of typelib.py.inspection looks
    through one (ClassVar inside it is not recognised, origin() of it is not the member's class), so typing.get_type_hints must
    not be asked to keep them (include_extras) where member hints are produced."""
    gh = prog.function(f"{C.INSP}.get_type_hints")
    calls = []
    for p in P.paths_of(prog, gh):
        for tm in p.all_terms():
            calls += [s for s in T.walk(tm) if T.is_call_to(s, "typing.get_type_hints", "typing_extensions.get_type_hints")]
    if not calls:
        rep.undecided(rule, gh.qualname, gh.loc, "no call to typing.get_type_hints found", detail="hints-stripped")
        return
    keeps = [c for c in calls if (dict(c[3]).get("include_extras") or (c[2][3] if len(c[2]) > 3 else ("const", False))) != ("const", False)]
    # does any unwrapping predicate know the wrapper?
    knows = False
    for fn in ("origin", "unwrap", "should_unwrap", "isclassvartype"):
        f = prog.functions.get(f"{C.INSP}.{fn}")
        if f is None:
            continue
        for p in P.paths_of(prog, f):
            for tm in p.all_terms():
                if T.contains(tm, lambda x: x[0] == "ref" and x[1].endswith(".Annotated")):
                    knows = True
    if keeps and knows:
        rep.held(rule, gh.qualname, gh.loc, "Annotated wrappers are kept, and the unwrapping predicates refer to typing.Annotated (their treatment is not judged here)", detail="hints-stripped", nontrivial=False)
        return
    rep.check(not keeps, rule, gh.qualname, gh.loc, "member hints are produced without their Annotated[...] wrappers", "member hints keep their Annotated[...] wrappers (include_extras), and nothing in the library looks through one: `limit: Annotated[ClassVar[int], 'doc']` is no longer recognised as a class variable (iteritems yields it as a field), and a member `Annotated[int, ...]` is no longer routed as an int", detail="hints-stripped")


def shared_reference_memo(prog: Program, rep: Report, rule: str):
    """`typing` interns the aliases it builds: every module that writes `Optional["Node"]` / `List["Node"]` holds the *same*
    ForwardRef('Node') object (module-less), and typing stores what it evaluated on that object.  Results must not depend on
    which module was inspected first: (a) refs.evaluate trusts the memo of a reference only when the reference names its
    module (those are made by refs.forwardref, privately); (b) typing.get_type_hints of a *function* is given a namespace of
    its own (`localns`), because with the default `localns is globalns` typing answers from the shared memo."""
    ev = prog.functions.get("typelib.py.refs.evaluate")
    if ev is None:
        rep.undecided(rule, "typelib.py.refs.evaluate", "", "anchor not found", detail="memo-of-shared-reference")
    else:
        ref = ("param", ev.params[0])
        bad = n = 0
        for p, r in P.returns(P.paths_of(prog, ev)):
            if r == ("attr", ref, "__forward_value__"):
                n += 1
                atoms = T.derive_atoms(p.guards())
                named = any((not val) and a == ("cmp", "is", ("attr", ref, "__forward_module__"), ("const", None)) for a, val in atoms) or any(val and a == ("attr", ref, "__forward_module__") for a, val in atoms)
                if not named:
                    bad += 1
        if n:
            rep.check(not bad, rule, ev.qualname, ev.loc, f"the remembered value of a reference is trusted only for references that name their module ({n} return(s))", "refs.evaluate returns ref.__forward_value__ for any evaluated reference: a module-less ForwardRef('Node') inside typing.List['Node'] is one object shared by every module that writes that text, so after module a's Node was built, unmarshal(List['Node'], …) issued from module b builds a.Node instances (alone it builds b.Node)", detail="memo-of-shared-reference")
        else:
            rep.held(rule, ev.qualname, ev.loc, "refs.evaluate never answers from the reference's own memo", detail="memo-of-shared-reference", nontrivial=False)
    hs = prog.functions.get(f"{C.INSP}._hints_from_signature")
    if hs is None:
        rep.undecided(rule, f"{C.INSP}._hints_from_signature", "", "anchor not found", detail="function-hints-namespace")
        return
    obj = ("param", hs.params[0])
    calls = []
    for p in P.paths_of(prog, hs):
        for tm in p.all_terms():
            for x in T.walk(tm):
                if T.is_call_to(x, "typing.get_type_hints") and x[2] and x[2][0] != obj:
                    calls.append(x)
    if not calls:
        rep.held(rule, hs.qualname, hs.loc, "no function's hints are evaluated through typing.get_type_hints", detail="function-hints-namespace", nontrivial=False)
        return
    default_ns = [c for c in calls if (dict(c[3]).get("localns") or (c[2][2] if len(c[2]) > 2 else ("const", None))) == ("const", None)]
    rep.check(not default_ns, rule, hs.qualname, hs.loc, "hints of the function carrying a signature are evaluated in a namespace of their own (localns given)", "typing.get_type_hints(<function>) is called with the default namespaces: for a function typing uses localns = globalns, and under that condition it answers from the memo on the shared ForwardRef inside Optional['Node'] -- two plain classes Node(…, next: Optional['Node']) in two modules: whichever is inspected first defines 'Node' for the other (unmarshal(b.Node, …) nests an a.Node)", detail="function-hints-namespace")


def class_name_not_stripped(prog: Program, rep: Report, rule: str):
    """The qualified name of a class never contains its module: `shape.Part` in a module `shape` is the class `Part` nested in
    the class `shape`.  The removal of a module qualifier is for reference *text*: (a) refs.forwardref leaves the name of a
    class it is given untouched (no substitution on the non-str path); (b) the by-name cut of the graph hands the class itself
    to refs.forwardref, not its printed name (which would be treated as text)."""
    from . import c09

    fr = prog.function("typelib.py.refs.forwardref")
    ref = ("param", fr.params[0])
    edits = lambda y: (y[0] == "call" and ((T.refname(y[1]) or "").startswith("re.") or (y[1][0] == "attr" and y[1][2] in ("replace", "removeprefix", "split", "partition", "rpartition", "lstrip", "strip"))))  # noqa: E731
    n, bad = 0, []
    for p, r in P.returns(P.spaths(prog, fr)):
        if not (r[0] == "call" and T.refname(r[1]) in ("typing.ForwardRef", "typelib.py.refs.ForwardRef") and r[2]):
            continue
        atoms = T.derive_atoms(p.guards())
        if any((a, not val) in atoms for a, val in atoms):
            continue  # contradictory guards: not a path of the program
        is_text = [val for a, val in atoms if T.is_call_to(a, "builtins.isinstance") and a[2][:1] == (ref,) and T.contains(a[2][1], lambda z: z == ("ref", "builtins.str"))]
        if not is_text or is_text[0]:
            continue  # the reference was given as text (or not decided): R11.7 judges that path
        n += 1
        uses_module = lambda y: T.contains(y, lambda z: T.is_call_to(z, "re.escape") or z == ("param", "module") or (z[0] == "call" and (T.refname(z[1]) or "").endswith("_resolve_module_name")))  # noqa: E731
        if T.contains(r[2][0], lambda y: edits(y) and uses_module(y)):
            bad.append(T.show(r[2][0])[:70])
    if n:
        rep.check(not bad, rule, fr.qualname, fr.loc, f"the name of a class given as an object is used as it is ({n} path(s))", f"the module qualifier is also 'removed' from the qualified name of a class ({bad[:1]}): in a module `shape` that defines a class `shape` with a nested recursive class `shape.Part`, the revisited member is deferred as ForwardRef('Part', module='shape') -- NameError, or silently an unrelated top-level class Part", detail="class-name-not-stripped")
    else:
        rep.undecided(rule, fr.qualname, fr.loc, "no path on which the reference is known not to be text", detail="class-name-not-stripped")
    f, ps = c09.graph_paths(prog)
    texty = []
    m = 0
    for p in ps:
        child = c09.child_of(p)
        for c in p.calls():
            if T.is_call_to(c, "typelib.py.refs.forwardref") and "module" in dict(c[3]) and c[2]:
                m += 1
                first = c[2][0]
                if T.contains(first, lambda y: y[0] == "call" and (T.refname(y[1]) or "").rsplit(".", 1)[-1] in ("qualname", "name", "repr", "str") or (y[0] == "attr" and y[2] in ("__qualname__", "__name__"))):
                    texty.append(T.show(first)[:60])
    if m:
        rep.check(not texty, rule, f.qualname, f.loc, "the cut hands the class itself to refs.forwardref", f"the by-name cut hands the *printed* qualified name of the class to refs.forwardref ({sorted(set(texty))[:1]}), where it is reference text from which a leading `<module>.` is removed: a class nested in a class that is named like its module loses the head of its name", detail="cut-passes-class")


def module_binds_name(prog: Program, rep: Report, rule: str):
    """The module an object *reports* (`__module__`) is where it was made, not necessarily a module that binds the looked-up
    name to it: `Tree = Union[List["Tree"], int]` reports `typing`, `from decimal import Decimal as Dec` reports `decimal`.
    Where the resolver answers with the reported module of the object it found for the name, the path has confirmed that this
    module binds the name to that very object."""
    f = prog.functions.get("typelib.py.refs._resolve_module_name")
    if f is None:
        rep.undecided(rule, "typelib.py.refs._resolve_module_name", "", "anchor not found", detail="module-binds-name")
        return
    ref = ("param", f.params[0])
    n, bad = 0, 0
    reported = lambda r: T.contains(r, lambda y: (T.is_call_to(y, "builtins.getattr") and len(y[2]) >= 2 and y[2][1] == ("const", "__module__") and T.contains(y[2][0], lambda z: T.is_call_to(z, "typelib.py.frames.extract"))) or (y[0] == "attr" and y[2] == "__module__" and T.contains(y[1], lambda z: T.is_call_to(z, "typelib.py.frames.extract"))))  # noqa: E731
    for p, r in P.returns(P.paths_of(prog, f)):
        if not reported(r):
            continue
        n += 1
        confirmed = any(pol and g[0] == "cmp" and g[1] == "is" and any(T.is_call_to(side, "typelib.py.frames.extract") for side in g[2:4]) and any(T.is_call_to(side, "builtins.getattr") and side[2][1:2] == (ref,) for side in g[2:4]) for g, pol in T.derive_atoms(p.guards()))
        if not confirmed:
            bad += 1
    if not n:
        rep.held(rule, f.qualname, f.loc, "the resolver never answers with the module an object reports", detail="module-binds-name", nontrivial=False)
        return
    rep.check(not bad, rule, f.qualname, f.loc, f"the module an object reports is used only after checking that it binds the name to that object ({n} return(s))", "the resolver answers with obj.__module__ of whatever object the name is bound to on the stack: for the classic recursive value alias `Tree = Union[List['Tree'], int]` that is 'typing', for `from decimal import Decimal as Dec` it is 'decimal' -- the name is then evaluated in a module that does not bind it: NameError when the routine is built, even in the alias's own module", detail="module-binds-name")


def stack_walk_from_caller(prog: Program, rep: Report, rule: str):
    """A bare name is "resolvable from the caller's module": the search through the stack is for the *caller's* bindings.
    frames.extract() answers from the first frame whose globals or locals bind the name, and started without a frame it starts
    at its own -- inside the library, whose modules bind names of their own (TypeNode, ForwardRef, Any, Final, ...).  Every
    search the library makes on behalf of a caller starts at the first frame outside the library (frames.getcaller()), or the
    search itself skips the library's frames."""
    ext = prog.functions.get("typelib.py.frames.extract")
    if ext is None:
        rep.held(rule, "typelib.py.frames", "", "no stack search in the package", detail="stack-walk-from-caller", nontrivial=False)
        return
    skips_own = any(T.contains(tm, lambda y: T.is_call_to(y, "typelib.py.frames.getcaller") or T.refname(y) in ("typelib.py.frames.PKG_NAME", "typelib.constants.PKG_NAME")) for p in P.paths_of(prog, ext) for tm in p.all_terms())
    n, inside = 0, []
    for q, f in sorted(prog.functions.items()):
        if f.module.name == "typelib.py.frames":
            continue
        try:
            ps = P.paths_of(prog, f)
        except Exception:  # noqa: BLE001
            continue
        for p in ps:
            for tm in p.all_terms():
                for x in T.walk(tm):
                    if T.is_call_to(x, "typelib.py.frames.extract"):
                        n += 1
                        start = dict(x[3]).get("frame") or (x[2][1] if len(x[2]) > 1 else None)
                        if not skips_own and (start is None or not T.contains(start, lambda y: T.is_call_to(y, "typelib.py.frames.getcaller"))):
                            inside.append(q)
    if not n:
        rep.held(rule, ext.qualname, ext.loc, "the package makes no stack search", detail="stack-walk-from-caller", nontrivial=False)
        return
    # ... and the search honours the frame it is given: the frames whose bindings it reads derive from that parameter
    if not skips_own and "frame" in ext.params:
        fp = ("param", "frame")
        subjects = [x[1] for p in P.paths_of(prog, ext) for tm in p.all_terms() for x in T.walk(tm) if x[0] == "attr" and x[2] in ("f_globals", "f_locals")]
        honoured = bool(subjects) and all(T.contains(sj, lambda y: y == fp) for sj in subjects)
        rep.check(honoured, rule, ext.qualname, ext.loc, "extract() starts at the frame it is given", "extract() reads the bindings of frames that do not derive from its `frame` parameter (it starts at its own frame whatever the caller passes): the search begins inside the library again", detail="stack-walk-honours-frame")
    rep.check(not inside, rule, sorted(set(inside))[0] if inside else ext.qualname, ext.loc, f"the stack is searched from the caller's frame on ({n} call(s) on paths)", f"{sorted(set(inside))} search(es) the stack starting at the library's own frames: a name the library's modules bind themselves (TypeNode, ForwardRef, Any, Final, inspection, ...) is found there first -- unmarshal('TypeNode', {{'x': 1}}) from a module that defines its own TypeNode builds typelib.graph.TypeNode", detail="stack-walk-from-caller")


def hints_module_owner(prog: Program, rep: Report, rule: str):
    """A string annotation found in a signature is looked up in the module of the object that *owns* the signature.  For an
    alias (tuple['UserId', int], whose made-up signature carries its arguments) `__module__` is the module of the origin
    class ('builtins'), not of the code that wrote the alias: the attribute must not be used for aliases."""
    hs = prog.functions.get(f"{C.INSP}._hints_from_signature")
    if hs is None:
        rep.undecided(rule, f"{C.INSP}._hints_from_signature", "", "anchor not found", detail="hints-module-owner")
        return
    obj = ("param", hs.params[0])
    mods = []
    guarded_mods = []  # (module term, the path established that obj is not an alias)
    for p in P.paths_of(prog, hs):
        atoms = T.derive_atoms(p.guards())
        not_alias = any((not val) and (T.is_call_to(a, "typing.get_origin", f"{C.INSP}.issubscriptedgeneric", f"{C.INSP}.isgeneric", f"{C.INSP}.origin") and a[2][:1] == (obj,)) for a, val in atoms)
        for tm in p.all_terms():
            for x in T.walk(tm):
                if T.is_call_to(x, "typelib.py.refs.forwardref"):
                    m = dict(x[3]).get("module")
                    if m is not None:
                        mods.append(m)
                        guarded_mods.append((m, not_alias))
    if not mods:
        rep.held(rule, hs.qualname, hs.loc, "no module is passed for string annotations of a signature", detail="hints-module-owner", nontrivial=False)
        return
    own = lambda y: (T.is_call_to(y, "builtins.getattr") and len(y[2]) >= 2 and y[2][1] == ("const", "__module__") and T.contains(y[2][0], lambda z: z == obj)) or (y[0] == "attr" and y[2] == "__module__" and T.contains(y[1], lambda z: z == obj))  # noqa: E731
    alias_test = lambda y: T.is_call_to(y, "typing.get_origin", f"{C.INSP}.issubscriptedgeneric", f"{C.INSP}.isgeneric") and y[2][:1] == (obj,)  # noqa: E731
    bad = [m for m, not_alias in guarded_mods if T.contains(m, own) and not T.contains(m, alias_test) and not not_alias]
    # ... and for a class the owner is the function that carries the signature (an inherited __init__ lives in the module of
    # the base class); annotations that are objects containing references (Optional["Node"]) are taken evaluated in that
    # function's namespace (typing.get_type_hints(carrier)), never left to be looked up from whoever calls the library
    carrier = lambda y: (T.is_call_to(y, "builtins.getattr") and y[2][:2] == (obj, ("const", "__init__"))) or y == ("attr", obj, "__init__")  # noqa: E731
    from_carrier = any(T.contains(m, carrier) for m in mods)
    is_eval = lambda y: T.is_call_to(y, "typing.get_type_hints") and y[2] and T.contains(y[2][0], carrier)  # noqa: E731
    # ... and what it yields is what gets stored for a parameter (not merely computed)
    evaluated = any(e[0] == "setitem" and T.contains(e[3], is_eval) for p in P.paths_of(prog, hs) for e in p.events) or any(p.exit[0] == "return" and T.contains(p.exit[1], is_eval) for p in P.paths_of(prog, hs))
    # ... also for an annotation that is an *object* (where the annotation is known not to be a str, what is stored is the evaluated hint)
    def _is_str_test(a):
        return (a[0] == "cmp" and a[1] in ("is", "==") and any(y == ("ref", "builtins.str") for y in a[2:4]) and any(y[0] == "attr" and y[2] == "__class__" for y in a[2:4])) or (T.is_call_to(a, "builtins.isinstance") and len(a[2]) == 2 and a[2][1] == ("ref", "builtins.str"))

    for p in P.paths_of(prog, hs):
        atoms_ = T.derive_atoms(p.guards())
        if not any((not val) and _is_str_test(a) for a, val in atoms_):
            continue
        if any(val and a[0] == "cmp" and a[1] == "is" and T.contains(a, lambda y: y[0] in ("attr", "ref") and (y[2] if y[0] == "attr" else y[1]).endswith("empty")) for a, val in atoms_):
            continue  # an unannotated parameter
        if any(e[0] in ("caught", "suppressed") for e in p.events):
            continue  # (the evaluation itself failed: the raw annotations are all there is)
        stores = [e for e in p.events if e[0] == "setitem"]
        # (the statement form chooses the carrier on the path: where the object is known to be no class it is its own carrier)
        not_class = any((not val) and T.is_call_to(a, "inspect.isclass") and a[2][:1] == (obj,) for a, val in atoms_)
        own_eval = lambda y: T.is_call_to(y, "typing.get_type_hints") and y[2][:1] == (obj,) and not_class  # noqa: E731
        if stores and not T.contains(stores[-1][3], is_eval) and not T.contains(stores[-1][3], own_eval):
            evaluated = False
    # the carrier is the constructor *for a class* and the object itself otherwise (not the other way round), and the evaluated
    # hint is fetched under the parameter's name, the raw annotation being the fallback
    def fold_class(tm, is_class):
        y = T.rewrite(tm, lambda z: ("const", is_class) if T.is_call_to(z, "inspect.isclass") and z[2][:1] == (obj,) else None)
        while y[0] == "ifexp" and y[1][0] == "const":
            y = y[2] if y[1][1] else y[3]
        return y

    orient_ok = True
    fetch_ok = True
    for p in P.paths_of(prog, hs):
        for tm in p.all_terms():
            for x in T.walk(tm):
                if is_eval(x):
                    c_term = x[2][0]
                    known = [val for a, val in T.derive_atoms(p.guards()) if T.is_call_to(a, "inspect.isclass") and a[2][:1] == (obj,)]
                    cases = [known[-1]] if known else [True, False]  # (an `if` statement decides on the path, a conditional expression in the term)
                    for is_class in cases:
                        got = fold_class(c_term, is_class)
                        if not (carrier(got) if is_class else got == obj):
                            orient_ok = False
                if x[0] == "call" and x[1][0] == "attr" and x[1][2] == "get" and T.contains(x[1][1], is_eval) and len(x[2]) == 2:
                    k, dflt = x[2]
                    if not (k[0] in ("key", "unpack", "elem", "index") or k[0] == "attr" and k[2] == "name") or not T.contains(dflt, lambda z: z[0] == "attr" and z[2] == "annotation"):
                        fetch_ok = False
    rep.check(orient_ok, rule, hs.qualname, hs.loc, "the hints are evaluated on the constructor of a class, on the object itself otherwise", "the carrier of the signature is chosen the wrong way round: for a class typing.get_type_hints is asked about the class (its class-level annotations), not about the __init__ whose parameters are being read", detail="hints-carrier-orientation")
    rep.check(fetch_ok, rule, hs.qualname, hs.loc, "the evaluated hint is fetched under the parameter's name (the raw annotation is the fallback)", "the evaluated hints are indexed with the annotation (and default to the name): every parameter whose annotation is an object gets its own *name* as its hint", detail="hints-fetch")
    rep.check(from_carrier and evaluated, rule, hs.qualname, hs.loc, "annotations of a signature are resolved in the namespace of the function that carries them", "annotations read from a signature are resolved relative to the *class* and, when they are objects with references inside (nxt: Optional['Node'], kids: list['Tree']), not at all: the inner reference has no module and is looked up from the stack of whoever calls the library -- NameError when the model lives in another module, or the caller's unrelated class of the same name; a subclass in another module that inherits an annotated __init__ has its string annotations evaluated in its own module", detail="hints-carrier")
    rep.check(not bad, rule, hs.qualname, hs.loc, "the object's own __module__ is used for string annotations only when the object is not an alias", "string annotations of a signature are always looked up in obj.__module__: for an alias such as tuple['UserId', int] that attribute is the module of the origin class ('builtins'), so the member is evaluated there -- NameError: name 'UserId' is not defined, although list['UserId'] and Tuple['UserId', int] work", detail="hints-module-owner")


def r11_6(prog: Program, rep: Report):
    f, ps = c09.graph_paths(prog)
    ok_root = ok_child = False
    for p in ps:
        for tm in p.all_terms():
            for s in T.walk(tm):
                if c09._is_typenode(s):
                    a = c09.node_args(s)
                    ty, un = a.get("type"), a.get("unwrapped")
                    if ty == ("param", f.params[0]) and un == ("call", ("ref", f"{C.INSP}.unwrap"), (ty,), ()):
                        ok_root = True
                    if ty is not None and ty[0] != "param" and un == ("call", ("ref", f"{C.INSP}.unwrap"), (ty,), ()):
                        ok_child = True
    # the revisit test must see through wrappers: a member is "already visited" when the annotation *or* its unwrapped
    # form was recorded (a NewType / alias of a class under construction is that class)
    seen_child = seen_unwrapped = False
    cut_found = False
    for p in ps:
        if not any(c09._is_typenode(x) and c09.node_args(x).get("cyclic") == ("const", True) for tm in p.all_terms() for x in T.walk(tm)):
            continue
        child = c09.child_of(p)
        if child is None:
            continue
        cut_found = True
        for g, pol in p.guards():
            if not pol:
                continue
            for x in T.walk(g):
                if x[0] == "cmp" and x[1] == "in" and x[3][0] in ("set", "binop", "call") or (x[0] == "cmp" and x[1] == "in" and T.contains(x[3], lambda y: y[0] == "set")):
                    if x[2] == child:
                        seen_child = True
                    if x[2] == ("call", ("ref", f"{C.INSP}.unwrap"), (child,), ()):
                        seen_unwrapped = True
    # ... and the recording side must match: the set the revisit test reads holds the unwrapped forms too
    rec_types = rec_unwrapped = False
    root_unwrapped = False

    def field_of(x):
        """'type' / 'unwrapped' when x is that field of a node (node.f, or the constructor argument itself)."""
        if x[0] == "attr" and x[2] in ("type", "unwrapped"):
            return x[2]
        if T.is_call_to(x, f"{C.INSP}.unwrap"):
            return "unwrapped"
        return None

    for p in ps:
        for e in p.events:
            if e[0] == "assign" and e[2][0] == "set" and e[2][1]:
                if any(field_of(x) == "unwrapped" for x in e[2][1]):
                    root_unwrapped = True
            if e[0] == "eval" and e[1][0] == "call" and e[1][1][0] == "attr" and e[1][1][2] in ("add", "update") and e[1][1][1][0] == "set":
                for a in e[1][2]:
                    for y in (a[1] if a[0] in ("tuple", "list", "set") else (a,)):
                        if field_of(y) == "type":
                            rec_types = True
                        if field_of(y) == "unwrapped":
                            rec_unwrapped = True
    rep.check(rec_types and rec_unwrapped and root_unwrapped, "R11.6", f.qualname, f.loc, "`visited` records both the annotation and its unwrapped form (for the root and for every pushed node)", "`visited` records only the annotation as spelled: a self-recursive class entered through a NewType / alias / Final label is not recognised when it is met again, so it is expanded a second time and its own member is then cut as a false cycle (unmarshal(NodeAlias, …) raises while unmarshal(Node, …) works)", detail="visited-records-unwrapped")
    if not cut_found:
        rep.undecided("R11.6", f.qualname, f.loc, "cut branch not found", detail="revisit-through-wrappers")
    else:
        rep.check(seen_child and seen_unwrapped, "R11.6", f.qualname, f.loc, "a member counts as visited when the annotation or its unwrapped form was recorded", "the revisit test does not look at both the member annotation and its unwrapped form: a NewType / alias of a class under construction is not recognised as that class, the cycle is cut one level further out", detail="revisit-through-wrappers")
    rep.check(ok_root, "R11.6", f.qualname, f.loc, "the root node carries (t, unwrap(t))", "the root node does not carry unwrap(t)", detail="root")
    rep.check(ok_child, "R11.6", f.qualname, f.loc, "child nodes carry (child, unwrap(child))", "child nodes do not carry unwrap(child)", detail="child")


def run(prog: Program, rep: Report, tier: str):
    rep.rule("R11.1", "unwrap peel-set coverage (incl. every alias class of the environment), fixpoint, exits", floor=14)
    rep.rule("R11.2", "dispatch on the unwrapped node (shared with R05.4)", floor=4)
    rep.rule("R11.3", "context double keying (shared with R05.1)", floor=4)
    rep.rule("R11.4", "context fallback through unwrap / forward reference (C16 rules)", floor=5)
    rep.rule("R11.5", "memoised reference resolvers are pure", floor=1)
    rep.rule("R11.8", "refs.evaluate / inspection.args / get_type_hints contracts", floor=8)
    rep.rule("R11.7", "refs.forwardref names a type by its own qualified name and module; defaults and dotted-string rule", floor=5)
    rep.rule("R11.6", "graph nodes carry (annotation, unwrapped); revisit test sees through wrappers; reference roots evaluated (shared with R09.4)", floor=5)
    r11_1(prog, rep)
    sub = Report("C11", tier)
    for r in ("R05.1", "R05.2", "R05.3", "R05.4"):
        sub.rule(r, "", 0)
    facts = {}
    for d in ("marshal", "unmarshal"):
        c05.r05_1(prog, sub, d, c05.factory_facts(prog, d))
        facts[d] = c05.dispatch_facts(prog, d)
    c05.r05_4(prog, sub, facts)
    absorb(rep, sub, {"R05.4": "R11.2", "R05.1": "R11.3"})
    sub = Report("C11", tier)
    c16.run(prog, sub, tier)
    absorb(rep, sub, {"R16.1": "R11.4", "R16.2": "R11.4", "R16.4": "R11.4", "R16.3": "R11.4"})
    r11_5(prog, rep)
    r11_7(prog, rep)
    r11_8(prog, rep)
    r11_6(prog, rep)
    c09.leaf_test_object(prog, rep, "R11.6")
    shared_reference_memo(prog, rep, "R11.8")
    class_name_not_stripped(prog, rep, "R11.7")
    module_binds_name(prog, rep, "R11.7")
    stack_walk_from_caller(prog, rep, "R11.7")
    sub = Report("C11", tier)
    sub.rule("R09.4", "", 0)
    c09.r09_4(prog, sub)
    absorb(rep, sub, {"R09.4": "R11.6"})
    # codecs: which types travel verbatim is decided on the unwrapped / evaluated annotation (the clauses of R02.2 / R02.5
    # that concern wrappers and references)
    from . import c02 as _c02

    rep.rule("R11.9", "the codec's verbatim-bytes decision sees through wrappers and references (shared with R02.2 / R02.5)", floor=3)
    sub = Report("C11", tier)
    for r in ("R02.2", "R02.5"):
        sub.rule(r, "", 0)
    _c02.r02_5(prog, sub)
    _c02.r02_2(prog, sub)
    sub.obligations = [o for o in sub.obligations if o.rule == "R02.5" or "bytes-guard" in o.key or "#resolved" in o.key or "reference" in o.key]
    absorb(rep, sub, {"R02.2": "R11.9", "R02.5": "R11.9"})
