"""C10 — bound callables get every argument converted per its own parameter.

Decided completely for the dispatch: binder effect summaries × all 32 kind-presence rows ×
small concrete signatures × every call shape Python accepts, simulated on the *summaries*
(abstract interpretation of the binders' single return expression), against Python's own
binding rule.  No typelib code runs.
"""

from __future__ import annotations

import itertools

from .. import paths as P
from .. import terms as T
from ..model import AnalysisError, Program
from ..report import Report

EXPLANATION = (
    "R10.1 abstract evaluation of each AbstractBinding.__call__ to a (positional, keyword) effect summary; "
    "R10.2 per-kind abstract evaluation of binding._get_binding's parameter loop (keys registered, flags, varpos/varkwd, startpos transfer); "
    "R10.3 every _BINDING_CLS_MATRIX row is simulated on its binder's summary for concrete small signatures of that row and every accepted call shape, "
    "and compared with Python's binding rule (binding[param] for named/indexed parameters, varpos/varkwd for extras); "
    "R10.4 dataflow of bind/wrap/BoundRoutine (result of the binding is what is splatted into the callable; functools.wraps; class branch rebinds __init__)."
)
ASSUMPTIONS = [
    "unmarshal(annotation, value) itself is correct (C03); only *which* unmarshaller meets which argument is decided here",
    "TypeError parity on calls Python rejects is not decided",
    "inspect.signature returns parameters in Python's enforced kind order PO*, PK*, VA?, KO*, VK?",
]
TRUSTED = ["Python's argument binding rule (positional index < nPO+nPK binds that parameter, beyond binds *args; keyword naming PK/KO binds it, otherwise **kwargs)"]
EXHAUSTIVE = True

KINDS = ["PO", "PK", "VA", "KO", "VK"]
KIND_CONST = {
    "POSITIONAL_ONLY": "PO",
    "POSITIONAL_OR_KEYWORD": "PK",
    "VAR_POSITIONAL": "VA",
    "KEYWORD_ONLY": "KO",
    "VAR_KEYWORD": "VK",
}
FLAG_OF = {"PO": "has_pos_only", "KO": "has_kwd_only", "VA": "has_args", "VK": "has_kwargs", "PK": "has_pos_or_kwd"}

MOD = "typelib.binding"


# ------------------------------------------------------------------------------------------ R10.1
def _seg_source(x):
    """Classify the iterated source of a positional generator: All / Head / Tail of `args`."""
    if x == ("param", "args"):
        return "all"
    if x[0] == "sub" and x[1] == ("param", "args") and x[2][0] == "slice":
        lo, hi, step = x[2][1], x[2][2], x[2][3]
        S = ("attr", ("param", "self"), "startpos")
        if step is not None:
            return None
        if lo is None and hi == S:
            return "head"
        if lo == S and hi is None:
            return "tail"
    return None


def _pos_elt(elt, src):
    B = ("attr", ("param", "self"), "binding")
    VP = ("attr", ("param", "self"), "varpos")
    i, v = ("index", src), ("elem", src)
    if elt == v:
        return "raw"
    if elt == ("call", VP, (v,), ()):
        return "var"
    idx_call = ("call", ("sub", B, i), (v,), ())
    if elt[0] == "call" and elt[1][0] == "ifexp" and not elt[3]:
        elt = ("ifexp", elt[1][1], ("call", elt[1][2], elt[2], ()), ("call", elt[1][3], elt[2], ()))
    if elt == idx_call:
        return "indexed!"  # no fallback
    if elt == ("ifexp", ("cmp", "in", i, B), idx_call, v):
        return "indexed"
    return None


def summarise_pos(term):
    """-> list of (source, conv) segments or None (not in idiom set)."""
    if term == ("param", "args"):
        return [("all", "raw")]
    if term[0] == "call" and T.refname(term[1]) == "builtins.tuple" and len(term[2]) == 1:
        inner = term[2][0]
        if inner[0] in ("list", "tuple") and inner[1] and all(x[0] == "star" for x in inner[1]):
            term = ("tuple", inner[1])  # tuple([*a, *b]) is (*a, *b)
        else:
            term = ("tuple", (("star", inner),))
    if term[0] != "tuple":
        return None
    segs = []
    for part in term[1]:
        if part[0] != "star":
            return None
        c = part[1]
        if c == ("param", "args"):
            segs.append(("all", "raw"))
            continue
        if c[0] != "comp" or c[1] not in ("gen", "list") or len(c[3]) != 1 or c[4]:
            return None
        it = c[3][0][0]
        src_term = it
        if it[0] == "call" and T.refname(it[1]) == "builtins.enumerate" and len(it[2]) == 1:
            src_term = it[2][0]
        src = _seg_source(src_term)
        if src is None:
            return None
        conv = _pos_elt(c[2], src_term)
        if conv is None:
            return None
        segs.append((src, conv))
    return segs


def summarise_kw(term):
    B = ("attr", ("param", "self"), "binding")
    VK = ("attr", ("param", "self"), "varkwd")
    KW = ("param", "kwargs")
    if term == KW:
        return "raw"
    if term[0] != "comp" or term[1] != "dict" or term[4]:
        return None
    k, v = ("key", KW), ("value", KW)
    pair = term[2]
    if pair[0] != "pair" or pair[1] != k:
        return None
    val = pair[2]
    # (f if c else g)(x) is f(x) if c else g(x); for the plain dict `binding`, B[k](v) if k in B else X(v) is B.get(k, X)(v)
    if val[0] == "call" and val[1][0] == "ifexp" and not val[3]:
        val = ("ifexp", val[1][1], ("call", val[1][2], val[2], ()), ("call", val[1][3], val[2], ()))
    if val[0] == "ifexp" and val[1] == ("cmp", "in", k, B) and val[2] == ("call", ("sub", B, k), (v,), ()) and val[3][0] == "call" and val[3][2] == (v,) and not val[3][3]:
        val = ("call", ("call", ("attr", B, "get"), (k, val[3][1]), ()), (v,), ())
    if val == ("call", ("call", ("attr", B, "get"), (k, VK), ()), (v,), ()):
        return "named_or_var"
    named = ("call", ("sub", B, k), (v,), ())
    if val == ("ifexp", ("cmp", "in", k, B), named, v):
        return "named_else_raw"
    if val == ("ifexp", ("cmp", "in", k, B), named, k):
        return "named_else_key"
    if val == ("call", VK, (v,), ()):
        return "all_var"
    if val == v:
        return "raw"
    return None


def _generator_as_comp(prog: Program, call):
    """`_helper(a, b)` for a module-level generator function of the binding module whose body is one loop that yields exactly
    once per element (`for i, v in enumerate(values): yield X if C else Y`, also as an if/else of two yields): the generator
    expression it equals, with the arguments substituted -- a binder that moves its generator expression into such a helper
    reads like the one that spells it out."""
    if not (call[0] == "call" and call[1][0] == "ref" and call[1][1].startswith(MOD + ".") and not call[3]):
        return None
    fi = prog.functions.get(call[1][1])
    if fi is None or fi.cls is not None or fi.node.decorator_list or len(call[2]) != len(fi.params):
        return None
    try:
        ps = P.paths_of(prog, fi)
    except AnalysisError:
        return None
    its, alts = set(), []
    for p in ps:
        loops = [e for e in p.events if e[0] == "loop"]
        if len(loops) != 1 or p.exit[0] != "fall":
            return None
        its.add(loops[0][1])
        ys = [e[1] for e in p.events if e[0] == "yield"]
        if loops[0][2] == 0:
            if ys:
                return None
            continue
        if len(ys) != 1:
            return None
        alts.append((list(p.guards()), ys[0]))
    if len(its) != 1 or not alts:
        return None
    it = next(iter(its))
    if len(alts) == 1 and not alts[0][0]:
        elt = alts[0][1]
    elif len(alts) == 2 and len(alts[0][0]) == 1 and len(alts[1][0]) == 1 and alts[0][0][0][0] == alts[1][0][0][0] and alts[0][0][0][1] != alts[1][0][0][1]:
        g = alts[0][0][0][0]
        yes = alts[0][1] if alts[0][0][0][1] else alts[1][1]
        no = alts[1][1] if alts[0][0][0][1] else alts[0][1]
        elt = ("ifexp", g, yes, no)
    else:
        return None
    comp = ("comp", "gen", elt, ((it, "_"),), ())
    return P.substitute(comp, dict(zip(fi.params, call[2])))


def binder_summaries(prog: Program, rep: Report):
    base = prog.cls(f"{MOD}.AbstractBinding")
    out = {}
    for c in prog.subclasses_of(base.qualname):
        f = prog.lookup_method(c, "__call__")
        if f is None or f.cls is base:
            continue
        ps = P.paths_of(prog, f)
        rets = P.returns(ps)
        if len(ps) != 1 or len(rets) != 1:
            rep.undecided("R10.1", c.qualname, f.loc, f"{len(ps)} paths through __call__; the summary domain expects straight-line binders")
            continue
        r = rets[0][1]
        if r[0] != "tuple" or len(r[1]) != 2:
            rep.undecided("R10.1", c.qualname, f.loc, "return value is not an (args, kwargs) pair: " + T.show(r)[:200])
            continue
        r = T.rewrite(r, lambda x: _generator_as_comp(prog, x))
        pos = summarise_pos(r[1][0])
        kw = summarise_kw(r[1][1])
        kwt = r[1][1]
        if kw is None and kwt[0] == "comp" and kwt[1] == "dict" and kwt[4] and len(kwt[3]) == 1 and kwt[3][0][0] == ("call", ("attr", ("param", "kwargs"), "items"), (), ()):
            # a filtered pass over the caller's keywords: whatever the test, some keyword can fail it and is then not
            # forwarded, so the target never gets to reject it
            conds = "; ".join(T.show(cd)[:50] for cd in kwt[4])
            rep.violated("R10.1", c.qualname, f.loc, f"the caller's keywords are filtered before they are forwarded ({conds}): a keyword that fails the test is dropped silently, so a call Python would reject (unexpected keyword argument) is accepted -- bind(f)('1', c='3') returns instead of raising TypeError", detail="keywords-forwarded")
            continue
        if pos is None:
            # positional arguments paired off with a stored sequence of routines: zip() stops at the shorter operand, so on a
            # binder that sees *all* positional arguments (no *args in the signature: Python accepts no more of them than
            # there are parameters) the surplus ones are dropped instead of reaching the target, which would refuse them
            pt = r[1][0]
            if pt[0] == "call" and T.refname(pt[1]) == "builtins.tuple" and len(pt[2]) == 1:
                pt = ("tuple", (("star", pt[2][0]),))
            trunc = None
            for part in pt[1] if pt[0] == "tuple" else ():
                cpt = part[1] if part[0] == "star" else part
                if cpt[0] == "comp" and len(cpt[3]) == 1:
                    it = cpt[3][0][0]
                    if it[0] == "call" and T.refname(it[1]) == "builtins.zip" and dict(it[3]).get("strict") != ("const", True):
                        kinds = [_seg_source(a) for a in it[2]]
                        if "all" in kinds and any(k is None for k in kinds):
                            trunc = T.show(it)[:80]
            if trunc:
                rep.violated("R10.1", c.qualname, f.loc, f"the positional arguments are paired off with a stored sequence by `{trunc}`: zip() stops at the shorter operand, so positional arguments beyond the registered ones are dropped before the call -- bind(g)('1', 2, 'surplus') for `def g(a: int, b: str)` returns instead of raising TypeError (a call Python rejects must still be rejected)", detail="positional-truncated")
                continue
        if pos is None or kw is None:
            rep.undecided("R10.1", c.qualname, f.loc, "binder expression outside the summary idiom set: " + T.show(r)[:300])
            continue
        out[c.qualname] = (pos, kw)
        if kw == "named_else_key":
            rep.violated("R10.1", c.qualname, f.loc, "a keyword that is not registered for conversion is forwarded with its *name* as its value (`binding[k](v) if k in binding else k`): a class that accepts further keywords -- a TypedDict class, whose signature the library makes up -- is called with them corrupted: bind(Options)(a='1', extra='3') returns {'a': 1, 'extra': 'extra'}", {"pos": pos, "kw": kw}, detail="unregistered-keyword-value")
            continue
        rep.held("R10.1", c.qualname, f.loc, f"summary pos={pos} kw={kw}", {"pos": pos, "kw": kw})
    return out


# ------------------------------------------------------------------------------------------ R10.2
def _kind_of_const(term):
    """KIND for `inspect.Parameter.X` / `param.X`."""
    if term[0] == "ref":
        return KIND_CONST.get(term[1].rsplit(".", 1)[-1])
    if term[0] == "attr":
        return KIND_CONST.get(term[2])
    return None


def _under_kind(term, kind):
    def f(tm):
        if tm[0] == "cmp" and tm[1] in ("==", "is", "!=", "isnot"):
            a, b = tm[2], tm[3]
            for x, y in ((a, b), (b, a)):
                if x[0] == "attr" and x[2] == "kind":
                    k = _kind_of_const(y)
                    if k:
                        eq = k == kind
                        return ("const", eq if tm[1] in ("==", "is") else not eq)
        if tm[0] == "cmp" and tm[1] in ("<", "<=", ">", ">="):
            # inspect._ParameterKind is an IntEnum in declaration order
            a, b = tm[2], tm[3]
            ra = KINDS.index(kind) if a[0] == "attr" and a[2] == "kind" else (KINDS.index(_kind_of_const(a)) if _kind_of_const(a) else None)
            rb = KINDS.index(kind) if b[0] == "attr" and b[2] == "kind" else (KINDS.index(_kind_of_const(b)) if _kind_of_const(b) else None)
            if ra is not None and rb is not None and ((a[0] == "attr" and a[2] == "kind") or (b[0] == "attr" and b[2] == "kind")):
                return ("const", {"<": ra < rb, "<=": ra <= rb, ">": ra > rb, ">=": ra >= rb}[tm[1]])
        if tm[0] == "cmp" and tm[1] in ("in", "notin") and tm[2][0] == "attr" and tm[2][2] == "kind" and tm[3][0] in ("tuple", "set", "list"):
            ks = [_kind_of_const(x) for x in tm[3][1]]
            if all(ks):
                return ("const", (kind in ks) == (tm[1] == "in"))
        return None

    return T.fold_bool(T.rewrite(term, f))


def _affine(term):
    """Evaluate an index expression at two points to get (a, b) of a*i+b, or None / 'none'."""
    if term == ("const", None):
        return "none"

    def at(i):
        def f(tm):
            if tm[0] == "index":
                return ("const", i)
            return None

        r = T.fold_bool(T.rewrite(term, f))
        return r[1] if r[0] == "const" and isinstance(r[1], int) else None

    y0, y1 = at(10), at(20)
    if y0 is None or y1 is None:
        return None
    a = (y1 - y0) // 10
    return (a, y0 - a * 10)


def _startpos_vars(prog: Program) -> set:
    """Names of the loop-carried variables the startpos= argument is computed from."""
    try:
        sim = FactorySim(prog)
    except AnalysisError:
        return set()
    out = set()
    for p in sim.post_paths:
        if p.exit[0] == "return" and p.exit[1][0] == "call":
            sp = dict(p.exit[1][3]).get("startpos")
            if sp is not None:
                out |= {s[1] for s in T.walk(sp) if s[0] == "param" and s[1] in sim.vars}
    return out


_OWN_HELPERS: dict = {}


def own_param(prog: Program, term):
    """The parameter X when `term` is the routine for X's own annotation: unmarshaller(X.annotation), or a call of a private
    helper of the binding module every return of which is that, or -- for an annotation that is a string -- the lazy proxy
    over refs.forwardref(X.annotation, module=<the callable's __module__>)."""
    UM = "typelib.unmarshals.api.unmarshaller"
    if T.is_call_to(term, UM) and len(term[2]) == 1 and not term[3] and term[2][0][0] == "attr" and term[2][0][2] == "annotation":
        return term[2][0][1]
    if term[0] == "call" and term[1][0] == "ref" and term[1][1].startswith(f"{MOD}._") and term[1][1] in prog.functions and not term[3]:
        g = prog.functions[term[1][1]]
        key = (id(prog), g.qualname)
        if key not in _OWN_HELPERS:
            ok = None
            for gp, r in P.returns(P.paths_of(prog, g)):
                x = None
                if T.is_call_to(r, UM) and len(r[2]) == 1 and r[2][0][0] == "attr" and r[2][0][2] == "annotation" and r[2][0][1][0] == "param":
                    x = r[2][0][1][1]
                elif r[0] == "call" and (T.refname(r[1]) or "").endswith(".DelayedUnmarshaller") and r[2]:
                    fr = r[2][0]
                    if T.is_call_to(fr, "typelib.py.refs.forwardref") and fr[2] and fr[2][0][0] == "attr" and fr[2][0][2] == "annotation" and fr[2][0][1][0] == "param":
                        mod = dict(fr[3]).get("module")
                        from_callable = mod is not None and T.contains(mod, lambda y: y == ("const", "__module__") or (y[0] == "attr" and y[2] == "__module__"))
                        if from_callable:
                            x = fr[2][0][1][1]
                if x is None:
                    ok = False
                    break
                ok = x if ok in (None, x) else False
                if ok is False:
                    break
            _OWN_HELPERS[key] = ok
        pn = _OWN_HELPERS[key]
        if pn and pn in g.params and len(term[2]) > g.params.index(pn):
            return term[2][g.params.index(pn)]
    return None


def factory_facts(prog: Program, rep: Report):
    f = prog.function(f"{MOD}._get_binding")
    ps = P.paths_of(prog, f)
    facts = {}
    loop_paths = [p for p in ps if any(e[0] == "loop" and e[2] == 1 for e in p.events)]
    skip_paths = [p for p in ps if not any(e[0] == "loop" and e[2] == 1 for e in p.events)]
    if not loop_paths or not skip_paths:
        raise AnalysisError("binding._get_binding: parameter loop not found")
    for kind in KINDS:
        feas = []
        for p in loop_paths:
            ok = True
            for g, pol in p.guards():
                v = _under_kind(g, kind)
                if v[0] == "const" and bool(v[1]) != pol:
                    ok = False
                    break
            if ok:
                feas.append(p)
        if not feas:
            rep.undecided("R10.2", f"{MOD}._get_binding", f.loc, f"no feasible loop path for kind {kind}", detail=kind)
            continue
        cands = []
        for p in feas:
            if p.exit[0] != "return":
                rep.undecided("R10.2", f"{MOD}._get_binding", f.loc, f"kind {kind}: path does not return", detail=kind)
                continue
            # keys registered on the local mapping that is later passed as binding=
            ret = p.exit[1]
            if ret[0] != "call":
                rep.undecided("R10.2", f"{MOD}._get_binding", f.loc, "return is not a binder construction", detail=kind)
                continue
            kwargs = dict(ret[3])
            reg_index = reg_name = False
            um_ok = True
            um_term = None
            for e in p.events:
                if e[0] == "setitem" and e[1][0] == "dict":
                    idx, val = e[2], e[3]
                    xp = own_param(prog, val)
                    if xp is None or xp[0] == "call":  # (a parameter *derived* from the loop's one -- param.replace(annotation=…) -- is not its own)
                        um_ok = False
                    um_term = val
                    if idx[0] == "index":
                        reg_index = True
                    elif idx[0] == "unpack" or idx[0] == "key":
                        reg_name = True
            if um_term is None:
                for e in p.events:
                    if e[0] == "assign" and own_param(prog, e[2]) is not None and own_param(prog, e[2])[0] != "call":
                        um_term = e[2]
            truth = None
            truth_call = None
            for e in p.events:
                if e[0] == "assign" and e[2][0] == "call" and T.refname(e[2][1]) == f"{MOD}._Truth":
                    truth_call = e[2]
            # the truth may also be built inline in the subscript
            if truth_call is None:
                for c in T.calls_in(ret):
                    if T.refname(c[1]) == f"{MOD}._Truth":
                        truth_call = c
            if truth_call is not None:
                truth = {}
                for k, v in truth_call[3]:
                    vv = _under_kind(v, kind)
                    truth[k] = vv[1] if vv[0] == "const" else None
            maxpos = None
            inloop = False
            startpos_vars = _startpos_vars(prog)
            for e in p.events:
                if e[0] == "loop" and e[2] == 1:
                    inloop = True
                if inloop and e[0] == "assign" and e[1] in startpos_vars:
                    maxpos = e[2]
            sp = kwargs.get("startpos")
            cands.append({
                "reg_index": reg_index,
                "reg_name": reg_name,
                "um_ok": um_ok,
                "truth": truth,
                "maxpos": _affine(maxpos) if maxpos is not None else "unchanged",
                "varpos": kwargs.get("varpos"),
                "varkwd": kwargs.get("varkwd"),
                "um_term": um_term,
                "binding_kw": kwargs.get("binding"),
                "startpos_term": sp,
                "cls_term": ret[1],
                "loc": f.loc,
            })
        if not cands:
            continue
        # several feasible paths for one kind (a further condition inside the loop): all must register the parameter's own
        # annotation; a path that does not is the one judged
        off = [c for c in cands if not c["um_ok"] or (c["um_term"] is None)]
        same = all(all(c[k] == cands[0][k] for k in ("reg_index", "reg_name", "truth", "maxpos", "varpos", "varkwd")) for c in cands)
        if off:
            off[0]["um_ok"] = False
            facts[kind] = off[0]
        elif same:
            facts[kind] = cands[0]
        elif kind in ("PO", "PK", "KO") and len({(c["reg_index"], c["reg_name"]) for c in cands}) > 1 and all(c["truth"] == cands[0]["truth"] and c["maxpos"] == cands[0]["maxpos"] for c in cands):
            # the same kind is registered on one feasible path and not on another: whether a named parameter is registered
            # depends on something else than its kind (its annotation, its default).  The binders that look a keyword up with
            # `binding.get(k, varkwd)` then convert an unregistered named parameter with the **kwargs routine.
            rep.violated("R10.2", f"{MOD}._get_binding", f.loc, f"a {kind} parameter is registered for conversion on some paths of the loop only (by something other than its kind): an un-annotated named parameter that is left out of the table is converted with the **kwargs unmarshaller when it is passed by keyword to a callable that also has an annotated **kwargs (the pass-through routine for `inspect.Parameter.empty` is what keeps it untouched)", detail=f"{kind}-registered-by-kind")
            facts[kind] = max(cands, key=lambda c: (c["reg_index"] is not None, c["reg_name"] is not None))
        else:
            rep.undecided("R10.2", f"{MOD}._get_binding", f.loc, f"{len(feas)} feasible loop paths for kind {kind} with different facts", detail=kind)
    # startpos as a function of max_pos, from the kind path whose max_pos is index-based and from the skip path
    skip = skip_paths[0]
    sp_none = None
    if skip.exit[0] == "return" and skip.exit[1][0] == "call":
        t0 = dict(skip.exit[1][3]).get("startpos")
        if t0 is not None:
            t0 = T.fold_bool(t0)
            sp_none = t0[1] if t0[0] == "const" else "?"
    facts["_startpos_none"] = sp_none
    return f, facts


def check_factory(prog, rep, f, facts):
    name = f"{MOD}._get_binding"
    for kind in KINDS:
        ft = facts.get(kind)
        if ft is None:
            continue
        need_i = kind in ("PO", "PK")
        need_n = kind in ("PK", "KO")
        rep.check(
            (ft["reg_index"] or not need_i) and (ft["reg_name"] or not need_n) and ft["um_ok"],
            "R10.2", name, ft["loc"],
            f"kind {kind}: parameter's own unmarshaller(param.annotation) registered under index={ft['reg_index']} name={ft['reg_name']}",
            f"kind {kind}: registration missing or not the parameter's own annotation (index={ft['reg_index']} name={ft['reg_name']} own-annotation={ft['um_ok']})",
            detail=f"{kind}-registration",
        )  # fmt: skip
        tr = ft["truth"]
        want = {v: (k == kind) for k, v in FLAG_OF.items()}
        rep.check(tr == want, "R10.2", name, ft["loc"], f"kind {kind} sets exactly its own presence flag in _Truth", f"kind {kind}: _Truth flags {tr} != {want}", detail=f"{kind}-flags")
        if kind == "VA":
            rep.check(ft["varpos"] is not None and ft["varpos"] == ft["um_term"], "R10.2", name, ft["loc"], "*args unmarshaller flows to varpos=", f"varpos= receives {T.show(ft['varpos'])[:120] if ft['varpos'] else None}", detail="VA-varpos")
            rep.check(ft["varkwd"] == ("const", None), "R10.2", name, ft["loc"], "varkwd untouched by *args", detail="VA-not-varkwd")
        if kind == "VK":
            rep.check(ft["varkwd"] is not None and ft["varkwd"] == ft["um_term"], "R10.2", name, ft["loc"], "**kwargs unmarshaller flows to varkwd=", f"varkwd= receives {T.show(ft['varkwd'])[:120] if ft['varkwd'] else None}", detail="VK-varkwd")
            rep.check(ft["varpos"] == ("const", None), "R10.2", name, ft["loc"], "varpos untouched by **kwargs", detail="VK-not-varpos")
        if kind in ("PO", "PK", "KO"):
            rep.check(ft["varpos"] == ("const", None) and ft["varkwd"] == ("const", None), "R10.2", name, ft["loc"], f"kind {kind} leaves varpos/varkwd unset", detail=f"{kind}-novar")
        bk = ft["binding_kw"]
        rep.check(bk is not None and bk[0] == "dict", "R10.2", name, ft["loc"], "binding= receives the locally filled mapping", detail=f"{kind}-bindingflow", facts={"binding": T.show(bk)[:160] if bk else None})


def startpos_of(facts, seq):
    """Compose the per-kind max_pos transfers along a concrete kind sequence and apply the startpos formula."""
    m = None
    last = None
    for i, k in enumerate(seq):
        tr = facts[k]["maxpos"]
        if tr == "unchanged":
            continue
        if tr == "none":
            m = None
        elif tr is None:
            return "?"
        else:
            m = tr[0] * i + tr[1]
        last = (k, i)
    if m is None:
        return facts["_startpos_none"]
    # evaluate the startpos= term of the kind path that last wrote max_pos, at that index
    k, i = last
    term = facts[k]["startpos_term"]
    if term is None:
        return None

    def f(tm):
        if tm[0] == "index":
            return ("const", i)
        return None

    r = T.fold_bool(T.rewrite(term, f))
    return r[1] if r[0] == "const" else "?"


# ------------------------------------------------------------------------------------------ exact loop simulation
def _assigned_names(stmts) -> list[str]:
    import ast as _ast

    out = []
    for st in stmts:
        for n in _ast.walk(st):
            if isinstance(n, _ast.Name) and isinstance(n.ctx, _ast.Store) and n.id not in out:
                out.append(n.id)
    return out


class FactorySim:
    """_get_binding's parameter loop as a state transformer, applied to a concrete sequence of parameter kinds.

    Loop-carried variables are parameters of the loop body, so a guard such as `max_pos is None` is decided from the
    state the earlier iterations really left, not from the initial value."""

    def __init__(self, prog: Program):
        import ast as _ast

        self.prog = prog
        self.f = prog.function(f"{MOD}._get_binding")
        body = self.f.node.body
        idx = [i for i, st in enumerate(body) if isinstance(st, _ast.For)]
        if len(idx) != 1:
            raise AnalysisError("_get_binding: expected exactly one top-level parameter loop")
        self.pre, self.loop, self.post = body[: idx[0]], body[idx[0]], body[idx[0] + 1 :]
        tgt = _assigned_names([_ast.Expr(self.loop.target)]) or []
        tnames = [n.id for n in _ast.walk(self.loop.target) if isinstance(n, _ast.Name)]
        self.targets = tnames
        self.vars = [v for v in _assigned_names(self.pre) + _assigned_names(self.loop.body) if v not in tnames]
        self.vars = list(dict.fromkeys(self.vars))
        pre_paths = P.block_paths(prog, self.f, self.pre, self.f.params, "pre")
        if len(pre_paths) != 1:
            raise AnalysisError("_get_binding: branching before the parameter loop")
        self.init = {v: pre_paths[0].env.get(v) for v in self.vars}
        dicts = [v for v, t0 in self.init.items() if t0 is not None and t0[0] == "dict"]
        if len(dicts) != 1:
            raise AnalysisError("_get_binding: expected exactly one local mapping filled by the parameter loop")
        self.binding_var = dicts[0]
        self.body_paths = P.block_paths(prog, self.f, self.loop.body, self.vars + tnames + self.f.params, "loop-body")
        self.post_paths = P.block_paths(prog, self.f, self.post, self.vars + self.f.params, "post")
        # which target is the index / the name / the parameter object (from `for i, (name, param) in enumerate(params.items())`)
        del tgt

    def run(self, seq):
        sigma = {v: (t if t is not None else ("const", None)) for v, t in self.init.items()}
        binding_keys_idx, binding_keys_name = {}, {}
        tnames = self.targets
        if len(tnames) != 3:
            return None
        iname, nname, pname = tnames
        for j, kind in enumerate(seq):
            sigma[iname] = ("const", j)
            sigma[nname] = ("ref", f"<name:{j}>")
            sigma[pname] = ("ref", f"<param:{j}>")
            chosen = None
            for p in self.body_paths:
                ok = True
                for g, pol in p.guards():
                    v = _under_kind(P.substitute(g, sigma), kind)
                    if v[0] != "const":
                        return None
                    if bool(v[1]) != pol:
                        ok = False
                        break
                if ok:
                    if chosen is not None:
                        return None
                    chosen = p
            if chosen is None:
                return None
            new = dict(sigma)
            for e in chosen.events:
                if e[0] == "assign" and e[1] in self.vars:
                    new[e[1]] = _under_kind(P.substitute(e[2], sigma), kind)
                elif e[0] == "setitem" and e[1] == ("param", self.binding_var):
                    k = _under_kind(P.substitute(e[2], sigma), kind)
                    v = _under_kind(P.substitute(e[3], sigma), kind)
                    if k[0] == "const" and isinstance(k[1], int):
                        binding_keys_idx[k[1]] = v
                    elif k[0] == "ref" and k[1].startswith("<name:"):
                        binding_keys_name[int(k[1][6:-1])] = v
                    else:
                        return None
            sigma = new
        # after the loop
        ret = None
        for p in self.post_paths:
            ok = True
            for g, pol in p.guards():
                v = T.fold_bool(P.substitute(g, sigma))
                if v[0] != "const" or bool(v[1]) != pol:
                    ok = v[0] == "const" and False
                    break
            if ok and p.exit[0] == "return":
                ret = T.fold_bool(P.substitute(p.exit[1], sigma))
        if ret is None or ret[0] != "call":
            return None
        kw = dict(ret[3])
        truth = None
        for c in T.calls_in(ret):
            if T.refname(c[1]) == f"{MOD}._Truth":
                truth = {k: (v[1] if v[0] == "const" else None) for k, v in c[3]}

        def own(v, j):
            return own_param(self.prog, v) == ("ref", f"<param:{j}>")

        def which(v):
            if v is None or v == ("const", None):
                return None
            for j in range(len(seq)):
                if own(v, j):
                    return j
            return "?"

        sp = kw.get("startpos")
        return {
            "keys_idx": {j for j, v in binding_keys_idx.items()},
            "keys_name": {j for j, v in binding_keys_name.items()},
            "own": all(own(v, j) for j, v in list(binding_keys_idx.items()) + list(binding_keys_name.items())),
            "startpos": sp[1] if sp is not None and sp[0] == "const" else "?",
            "varpos": which(kw.get("varpos")),
            "varkwd": which(kw.get("varkwd")),
            "truth": truth,
            "binding_is_local": kw.get("binding") is not None and kw["binding"][0] in ("dict", "param"),
        }


# ------------------------------------------------------------------------------------------ R10.3
def matrix(prog: Program):
    mod = prog.module(MOD)
    tm = P.module_term(prog, mod, "_BINDING_CLS_MATRIX")
    if tm[0] != "dict":
        raise AnalysisError("_BINDING_CLS_MATRIX is not a dict display")
    truth_cls = prog.cls(f"{MOD}._Truth")
    fields = [s.target.id for s in truth_cls.node.body if hasattr(s, "target") and hasattr(s.target, "id")]
    defaults = {}
    for s in truth_cls.node.body:
        if hasattr(s, "target") and getattr(s, "value", None) is not None:
            try:
                import ast as _ast

                defaults[s.target.id] = _ast.literal_eval(s.value)
            except Exception:
                pass
    rows = {}
    for k, v in tm[1]:
        if k is None or k[0] != "call" or T.refname(k[1]) != truth_cls.qualname:
            raise AnalysisError("matrix key is not a _Truth(...) constant: " + T.show(k)[:100])
        vals = dict(defaults)
        for n, a in zip(fields, k[2]):
            vals[n] = a[1] if a[0] == "const" else None
        for n, a in k[3]:
            vals[n] = a[1] if a[0] == "const" else None
        if any(vals.get(n) is None for n in fields):
            raise AnalysisError("matrix key has a non-constant field")
        key = tuple(bool(vals[FLAG_OF[x]]) for x in KINDS)  # (PO, PK, VA, KO, VK)
        c = prog.class_of(v[1]) if v[0] == "ref" else None
        rows[key] = (c[0].qualname if c else None, T.show(v))
    return rows


def simulate(summary, startpos, seq, npos, kwnames, facts=None):
    """Apply a binder summary to a call of `npos` positionals and `kwnames` keywords.

    Returns (positional converters by output position, keyword converters by name); a converter
    is ('param', j) | 'varpos' | 'varkwd' | 'raw' | 'key' | ('crash', why)."""
    pos, kw = summary
    names = [f"p{j}" for j in range(len(seq))]
    if isinstance(facts, dict) and "keys_idx" in facts:
        keys_idx = set(facts["keys_idx"])
        keys_name = {names[j] for j in facts["keys_name"]}
    else:
        keys_idx = {j for j, k in enumerate(seq) if facts is None or facts[k]["reg_index"]}
        keys_name = {n for n, k in zip(names, seq) if facts is None or facts[k]["reg_name"]}
    has_va = "VA" in seq
    has_vk = "VK" in seq
    out_pos = []
    S = startpos
    for src, conv in pos:
        if src == "all":
            rng = list(range(npos))
        elif src == "head":
            rng = list(range(npos))[: S if S != "?" else None] if S != "?" else None
        else:
            rng = list(range(npos))[S if S != "?" else None :] if S != "?" else None
        if rng is None:
            return None
        for rel, j in enumerate(rng):
            idx = rel if src == "tail" else j  # enumerate over a tail slice restarts at 0
            if conv == "raw":
                out_pos.append((j, "raw"))
            elif conv == "var":
                out_pos.append((j, "varpos" if has_va else ("crash", "varpos is None")))
            else:
                if idx in keys_idx:
                    out_pos.append((j, ("param", idx)))
                elif conv == "indexed!":
                    out_pos.append((j, ("crash", "KeyError")))
                else:
                    out_pos.append((j, "raw"))
    def canon(c):
        if isinstance(c, tuple) and c[0] == "param":
            if seq[c[1]] == "VA":
                return "varpos"
            if seq[c[1]] == "VK":
                return "varkwd"
        return c

    out_pos = [(j, canon(c)) for j, c in out_pos]
    out_kw = {}
    for k in kwnames:
        if kw == "raw":
            out_kw[k] = "raw"
        elif kw == "all_var":
            out_kw[k] = "varkwd" if has_vk else ("crash", "varkwd is None")
        elif kw == "named_or_var":
            out_kw[k] = ("param", names.index(k)) if k in keys_name else ("varkwd" if has_vk else ("crash", "varkwd is None"))
        else:
            out_kw[k] = ("param", names.index(k)) if k in keys_name else ("raw" if kw == "named_else_raw" else "key")
    out_kw = {k: canon(c) for k, c in out_kw.items()}
    return out_pos, out_kw


def expected(seq, npos, kwnames):
    """Python's binding rule."""
    names = [f"p{j}" for j in range(len(seq))]
    npospar = sum(1 for k in seq if k in ("PO", "PK"))
    exp_pos = []
    for j in range(npos):
        exp_pos.append((j, ("param", j) if j < npospar else "varpos"))
    exp_kw = {}
    for k in kwnames:
        if k in names and seq[names.index(k)] in ("PK", "KO"):
            exp_kw[k] = ("param", names.index(k))
        else:
            exp_kw[k] = "varkwd"
    return exp_pos, exp_kw


def accepted_calls(seq):
    """All call shapes Python accepts for this signature (defaults everywhere): (npos, kwnames, tag)."""
    names = [f"p{j}" for j in range(len(seq))]
    npo = seq.count("PO")
    npk = seq.count("PK")
    has_va = "VA" in seq
    has_vk = "VK" in seq
    pk_names = [n for n, k in zip(names, seq) if k == "PK"]
    ko_names = [n for n, k in zip(names, seq) if k == "KO"]
    phantom = [n for n, k in zip(names, seq) if k in ("PO", "VA", "VK")]
    maxpos = npo + npk + (2 if has_va else 0)
    for npos in range(0, maxpos + 1):
        # PK parameters not consumed positionally may be passed by keyword
        consumed = max(0, min(npos - npo, npk)) if npos >= npo else 0
        free_pk = pk_names[consumed:]
        if npos < npo:
            # PO params have defaults; PK given positionally impossible; still fine
            free_pk = pk_names
        opts = free_pk + ko_names
        for r in range(0, min(len(opts), 3) + 1):
            for sub in itertools.combinations(opts, r):
                yield npos, list(sub), "plain"
                if has_vk:
                    yield npos, list(sub) + ["extra1"], "extra-kw"
                    yield npos, list(sub) + ["extra1", "extra2"], "extra-kw"
                    for ph in phantom:
                        yield npos, list(sub) + [ph], "phantom"


MAXN = 2


def signatures_for(row):
    """Concrete kind sequences exhibiting exactly the kinds of this row: 1..MAXN parameters per countable kind
    (2 on the quick tier, 3 on the thorough tier)."""
    po, pk, va, ko, vk = row
    rng = list(range(1, MAXN + 1))
    for npo in ([0] if not po else rng):
        for npk in ([0] if not pk else rng):
            for nko in ([0] if not ko else rng):
                yield ["PO"] * npo + ["PK"] * npk + (["VA"] if va else []) + ["KO"] * nko + (["VK"] if vk else [])


def check_rows(prog, rep, summaries, facts, rows):
    loc = prog.module(MOD).relpath
    fsim = FactorySim(prog)
    allrows = list(itertools.product([False, True], repeat=5))
    sims = 0
    phantom_bad = []
    for row in allrows:
        label = "".join(k for k, b in zip(KINDS, row) if b) or "none"
        if row not in rows:
            rep.violated("R10.3", f"{MOD}._BINDING_CLS_MATRIX", loc, f"row {label} missing from the matrix (KeyError at bind time)", detail=f"row-{label}")
            continue
        cls, shown = rows[row]
        if cls is None or cls not in summaries:
            rep.undecided("R10.3", f"{MOD}._BINDING_CLS_MATRIX", loc, f"row {label}: binder {shown} has no summary", detail=f"row-{label}")
            continue
        summ = summaries[cls]
        bad = []
        for seq in signatures_for(row):
            st = fsim.run(seq)
            if st is None:
                bad.append((seq, 0, [], "the parameter loop could not be simulated for this signature (guard or key outside the idiom set)"))
                continue
            want_truth = {FLAG_OF[k]: (k in seq) for k in KINDS}
            if st["truth"] != want_truth:
                bad.append((seq, 0, [], f"_get_binding computes presence flags {st['truth']} for kinds {seq}: another matrix row is selected"))
                continue
            va = seq.index("VA") if "VA" in seq else None
            vk = seq.index("VK") if "VK" in seq else None
            if st["varpos"] != va or st["varkwd"] != vk or not st["own"]:
                bad.append((seq, 0, [], f"varpos/varkwd/binding do not hold the parameters' own unmarshallers (varpos<-param {st['varpos']}, varkwd<-param {st['varkwd']}, own={st['own']})"))
                continue
            sp = st["startpos"]
            for npos, kwn, tag in accepted_calls(seq):
                sims += 1
                got = simulate(summ, sp, seq, npos, kwn, st)
                if got is None:
                    bad.append((seq, npos, kwn, "startpos undetermined"))
                    continue
                exp = expected(seq, npos, kwn)
                if got[0] != exp[0]:
                    bad.append((seq, npos, kwn, f"positional: got {got[0]} want {exp[0]}"))
                elif got[1] != exp[1]:
                    diff = {k for k in exp[1] if got[1].get(k) != exp[1][k]}
                    names = [f"p{j}" for j in range(len(seq))]
                    if tag == "phantom" and all(k in names and seq[names.index(k)] in ("PO", "VA", "VK") for k in diff):
                        phantom_bad.append((label, seq, npos, kwn, {k: got[1][k] for k in diff}))
                    else:
                        bad.append((seq, npos, kwn, f"keyword: got { {k: got[1][k] for k in sorted(diff)} } want { {k: exp[1][k] for k in sorted(diff)} }"))
        short = cls.rsplit(".", 1)[-1]
        if bad:
            seq, npos, kwn, why = bad[0]
            rep.violated(
                "R10.3", f"{MOD}._BINDING_CLS_MATRIX", loc,
                f"row {label} -> {short} (pos={summ[0]}, kw={summ[1]}) misroutes {len(bad)} accepted call shape(s); first: signature kinds {seq}, {npos} positional, keywords {kwn}: {why}",
                {"row": label, "binder": short, "failing_shapes": len(bad), "first": [seq, npos, kwn, why]}, detail=f"row-{label}",
            )  # fmt: skip
        else:
            rep.held("R10.3", f"{MOD}._BINDING_CLS_MATRIX", loc, f"row {label} -> {short}: every accepted call shape routed to the parameter's own unmarshaller", {"row": label, "binder": short}, detail=f"row-{label}")
    rep.count("simulated_call_shapes", sims)
    if phantom_bad:
        label, seq, npos, kwn, got = phantom_bad[0]
        rep.violated(
            "R10.3", f"{MOD}._get_binding", facts["PO"]["loc"],
            f"names of positional-only / *args / **kwargs parameters are registered as keyword keys, so an extra keyword of that name is converted by that parameter's unmarshaller instead of the **kwargs one ({len(phantom_bad)} shapes; first: row {label} kinds {seq} keywords {kwn} -> {got})",
            {"shapes": len(phantom_bad)}, detail="phantom-keys",
        )  # fmt: skip
    else:
        rep.held("R10.3", f"{MOD}._get_binding", facts["PO"]["loc"], "no phantom keyword keys", detail="phantom-keys")


# ------------------------------------------------------------------------------------------ R10.4
def check_flow(prog: Program, rep: Report):
    # AbstractBinding.__init__ stores each keyword under its own name
    init = prog.function(f"{MOD}.AbstractBinding.__init__")
    (p,) = P.paths_of(prog, init)
    stores = {e[2]: e[3] for e in p.events if e[0] == "setattr" and e[1] == ("param", "self")}
    for n in ("binding", "varkwd", "varpos", "startpos", "signature"):
        rep.check(stores.get(n) == ("param", n), "R10.4", init.qualname, init.loc, f"self.{n} <- parameter {n}", f"self.{n} <- {T.show(stores.get(n)) if stores.get(n) else 'nothing'}", detail=n)
    # BoundRoutine.__call__
    f = prog.function(f"{MOD}.BoundRoutine.__call__")
    for p in P.paths_of(prog, f):
        if p.exit[0] != "return":
            continue
        r = p.exit[1]
        ok = False
        if r[0] == "call" and r[1] == ("attr", ("param", "self"), "call"):
            b = None
            stars = [a for a in r[2] if a[0] == "star"]
            dstars = [v for k, v in r[3] if k is None]
            if len(stars) == 1 and len(dstars) == 1 and len(r[2]) == 1 and len(r[3]) == 1:
                a0, k0 = stars[0][1], dstars[0]
                if a0[0] == "unpack" and k0[0] == "unpack" and a0[1] == k0[1] and (a0[2], k0[2]) == (0, 1):
                    b = a0[1]
                elif a0[0] == "sub" and k0[0] == "sub" and a0[1] == k0[1] and (a0[2], k0[2]) == (("const", 0), ("const", 1)):
                    b = a0[1]
            if b is not None and b[0] == "call" and b[1] == ("attr", ("param", "self"), "binding"):
                argmap = {}
                for i, a in enumerate(b[2]):
                    argmap[["args", "kwargs"][i] if i < 2 else i] = a
                for k, v in b[3]:
                    argmap[k] = v
                ok = argmap.get("args") == ("param", "args") and argmap.get("kwargs") == ("param", "kwargs")
        rep.check(ok, "R10.4", f.qualname, f.loc, "returns self.call(*bargs, **bkwargs) with both taken from self.binding(args, kwargs)", "BoundRoutine.__call__ does not splat the binding's result into the callable: " + T.show(r)[:200])
    # wrap(): closure
    w = prog.function(f"{MOD}.wrap")
    inner = None
    import ast as _ast

    for n in _ast.walk(w.node):
        if isinstance(n, _ast.FunctionDef) and n is not w.node:
            inner = n
    if inner is None:
        rep.undecided("R10.4", w.qualname, w.loc, "no closure found in wrap()")
    else:
        fi, ips = P.closure_paths(prog, w, inner.name)
        wpaths = P.paths_of(prog, w)
        outer = P.closure_env(prog, w)
        defaults = {}
        a = inner.args
        ev = P.Evaluator(prog, w.module, w)
        for arg, d in zip(a.kwonlyargs, a.kw_defaults):
            if d is not None:
                defaults[arg.arg] = ev.expr(d, dict(outer))
        good = False
        for p in ips:
            if p.exit[0] != "return":
                continue
            r = p.exit[1]
            if r[0] == "call" and r[1] == ("param", "obj") and len(r[2]) == 1 and len(r[3]) == 1 and r[2][0][0] == "star" and r[3][0][0] is None:
                a0, k0 = r[2][0][1], r[3][0][1]
                if a0[0] == "unpack" and k0[0] == "unpack" and a0[1] == k0[1] and (a0[2], k0[2]) == (0, 1):
                    b = a0[1]
                    if b[0] == "call" and b[2] == (("param", "args"), ("param", "kwargs")) and not b[3]:
                        callee = b[1]
                        if callee[0] == "param" and defaults.get(callee[1]) is not None:
                            callee = defaults[callee[1]]
                        good = T.is_call_to(callee, f"{MOD}._get_binding") and callee[2] == (("param", "obj"),)
        rep.check(good, "R10.4", w.qualname, w.loc, "wrapper returns obj(*bargs, **bkwargs) from _get_binding(obj)(args, kwargs)", "wrap(): the closure does not call obj with the binding's result", detail="closure-flow")
        decs = []
        for pth in wpaths:
            for e in pth.events:
                if e[0] == "decorate":
                    decs.extend(e[2])
        wr = any(T.is_call_to(d, "functools.wraps") and d[2] == (("param", "obj"),) for d in decs)

        def metadata_copy(tm):
            """functools.update_wrapper(f, obj) / functools.wraps(obj)(f): (f, obj), both return f itself."""
            if T.is_call_to(tm, "functools.update_wrapper") and len(tm[2]) == 2 and not tm[3]:
                return tm[2]
            if tm[0] == "call" and T.is_call_to(tm[1], "functools.wraps") and len(tm[2]) == 1 and len(tm[1][2]) == 1 and not tm[1][3]:
                return (tm[2][0], tm[1][2][0])
            return None

        for pth in wpaths:
            for tm in pth.all_terms():
                for sx in T.walk(tm):
                    mc = metadata_copy(sx)
                    if mc is not None and mc[0][0] == "closure" and mc[1] == ("param", "obj"):
                        wr = True
        rep.check(wr, "R10.4", w.qualname, w.loc, "closure decorated with functools.wraps(obj) (metadata preserved)", "wrap(): closure is not decorated with functools.wraps(obj)", detail="wraps")
        # the closure is what is returned on the non-class path; class path rebinds __init__
        ret_closure = cls_branch = False
        cls_bare: list = []
        for pth in wpaths:
            g = pth.guards()
            isclass = [pol for tm, pol in g if T.is_call_to(tm, "inspect.isclass") and tm[2] == (("param", "obj"),)]
            if pth.exit[0] == "return":
                rv = pth.exit[1]
                mc = metadata_copy(rv)
                if mc is not None:
                    rv = mc[0]
                if isclass == [False] and rv[0] == "closure":
                    ret_closure = True
                if isclass == [True]:
                    st = [e for e in pth.events if e[0] == "setattr" and e[1] == ("param", "obj") and e[2] == "__init__"]
                    if st and T.is_call_to(st[0][3], f"{MOD}.wrap") and st[0][3][2] == (("attr", ("param", "obj"), "__init__"),) and pth.exit[1] == ("param", "obj"):
                        cls_branch = True
                    elif pth.exit[1] == ("param", "obj") and not st:
                        cls_bare.append(pth)
        rep.check(ret_closure, "R10.4", w.qualname, w.loc, "non-class path returns the wrapping closure", detail="returns-closure")
        rep.check(cls_branch, "R10.4", w.qualname, w.loc, "class path rebinds obj.__init__ = wrap(obj.__init__) and returns obj", detail="class-branch")
        rep.check(not cls_bare, "R10.4", w.qualname, w.loc, "no class comes back from wrap() with the constructor it came in with", "an exit of wrap() hands a class back without having replaced its constructor: a decorated class that inherits __init__ (or whatever the added condition excludes) is returned as it is, every argument reaches the constructor unconverted and nothing raises", detail="class-branch-every-exit")
    # forwarding wrappers own no parameter a caller's keyword could land on: `**kwargs` belongs to the wrapped callable
    import ast as _ast2

    mod = prog.module(MOD)
    nfw = 0
    for n in _ast2.walk(mod.tree):
        if isinstance(n, (_ast2.FunctionDef, _ast2.AsyncFunctionDef)) and n.args.kwarg is not None and n.args.vararg is not None:
            nfw += 1
            capturable = [a.arg for a in n.args.args + n.args.kwonlyargs]
            rep.check(not capturable, "R10.4", f"{MOD}.{n.name}", f"{mod.relpath}:{n.lineno}", f"{n.name}(*args, **kwargs) has no keyword-capturable parameter of its own", f"{n.name} forwards **kwargs but owns the keyword-capturable parameter(s) {capturable}: a wrapped callable with a parameter (or **kw key) of that name cannot be called — bind(f)(self=1) raises \"multiple values for argument 'self'\", wrap(f)(__binding=…) replaces the binder", detail="own-params")
    rep.count("forwarding_wrappers", nfw)
    # bind()
    b = prog.function(f"{MOD}.bind")
    okb = False
    for p in P.paths_of(prog, b):
        if p.exit[0] == "return":
            r = p.exit[1]
            if T.is_call_to(r, f"{MOD}.BoundRoutine"):
                kw = dict(r[3])
                for i, a in enumerate(r[2]):
                    kw[["call", "binding"][i]] = a
                okb = kw.get("call") == ("param", "obj") and kw.get("binding") is not None and T.is_call_to(kw["binding"], f"{MOD}._get_binding") and kw["binding"][2] == (("param", "obj"),)
    rep.check(okb, "R10.4", b.qualname, b.loc, "bind(obj) = BoundRoutine(call=obj, binding=_get_binding(obj))")
    # unannotated parameters are unresolvable (no-op)
    unres = P.module_term(prog, prog.module("typelib.py.inspection"), "_UNRESOLVABLE")
    names = [T.refname(x) for x in unres[1]] if unres[0] in ("tuple", "list", "set") else []
    rep.check("inspect.Parameter.empty" in names, "R10.4", "typelib.py.inspection._UNRESOLVABLE", prog.module("typelib.py.inspection").relpath, "inspect.Parameter.empty is unresolvable, so unannotated parameters get the no-op routine", detail="empty")


def check_signature_subject(prog: Program, rep: Report):
    """The signature that is bound is the signature of the very object that is called."""
    f = prog.function(f"{MOD}._get_binding")
    ok = False
    for p in P.paths_of(prog, f):
        for c in p.calls():
            if T.refname(c[1]) in ("typelib.py.inspection.cached_signature", "typelib.py.inspection.signature", "inspect.signature") and c[2] == (("param", "obj"),):
                ok = True
    rep.check(ok, "R10.5", f.qualname, f.loc, "the binding is computed from the signature of obj itself", "_get_binding does not take the signature of the callable it is given", detail="factory")
    sig = prog.function("typelib.py.inspection.signature")
    obj = ("param", sig.params[0])
    bad = []
    n = 0
    for p, r in P.returns(P.paths_of(prog, sig)):
        for c in [r] + T.calls_in(r):
            if T.is_call_to(c, "inspect.signature"):
                n += 1
                if c[2][:1] != (obj,):
                    bad.append(T.show(c)[:80])
    rep.check(n > 0 and not bad, "R10.5", sig.qualname, sig.loc, "inspect.signature is applied to the callable itself", f"inspect.signature is applied to something other than the callable that will be called ({bad[:1]}): for a bound method of a decorated function the unwrapped function still has `self`, so every positional converter shifts by one", detail="subject")
    # functools.cache keys on hash/== of the callable.  Functions and methods compare by identity, but the scope includes
    # callable *instances*: a NamedTuple or frozen dataclass with __call__ compares by value, a dataclass(eq=True) is unhashable
    memo = prog.memoised_functions()
    for qn in (f"{MOD}._get_binding", "typelib.py.inspection.cached_signature"):
        if qn in memo:
            loc = prog.functions[qn].loc if qn in prog.functions else sig.loc
            rep.violated("R10.5", qn, loc, f"{qn.rsplit('.', 1)[1]} is memoised by {memo[qn].split('(')[0]}, i.e. keyed by == / hash of the callable: two callable instances that compare equal (NamedTuples of different classes with equal fields) share one binding, and an unhashable callable instance (a dataclass with the default eq) cannot be bound at all", detail="key-identity")
        else:
            rep.held("R10.5", qn, sig.loc, "not memoised on equality of the callable", detail="key-identity")
    insp = prog.module("typelib.py.inspection")
    if "cached_signature" in insp.assigns:
        cs = P.module_term(prog, insp, "cached_signature")
        rep.check(cs[0] == "call" and (T.refname(cs[1]) in ("functools.cache",) or "typelib.py.inspection.cached_signature" in prog.memoised_functions()) and cs[2] == (("ref", "typelib.py.inspection.signature"),), "R10.5", "typelib.py.inspection.cached_signature", sig.loc, "cached_signature memoises signature() itself, keyed by the callable", "cached_signature is not compat.cache(signature)", detail="cached")
    elif "cached_signature" in insp.functions:
        cf = insp.functions["cached_signature"]
        o = ("param", cf.params[0])
        keys = []
        for p in P.paths_of(prog, cf):
            for e in p.events:
                if e[0] == "setitem" and e[1][0] == "ref":
                    keys.append(e[2])
            if p.exit[0] == "return" and p.exit[1][0] == "sub" and p.exit[1][1][0] == "ref":
                keys.append(p.exit[1][2])
        rep.check(bool(keys) and all(k == o for k in keys), "R10.5", cf.qualname, cf.loc, "the signature memo is keyed by the callable itself", f"the signature memo is keyed by {sorted({T.show(k)[:50] for k in keys})}, not by the callable: two callables sharing that key (closures of one def, a bound method and its function) are bound with one another's signature", detail="cached")
    else:
        rep.undecided("R10.5", "typelib.py.inspection.cached_signature", sig.loc, "cached_signature not found", detail="cached")


def r10_6(prog: Program, rep: Report):
    """inspection.signature() takes *any* callable: functions, bound methods, callable instances.  The printed form of a bound
    method contains the repr of its instance, so a predicate that reads str(obj) (a '[' in it, a 'typing.' prefix) answers
    about the instance's data.  Every predicate that guards a special-cased signature must be free of the object's text."""
    f = prog.function("typelib.py.inspection.signature")
    obj = ("param", f.params[0])
    textual = []
    n = 0
    for p in P.paths_of(prog, f):
        special = p.exit[0] == "return" and not T.is_call_to(p.exit[1], "inspect.signature")
        if not special:
            continue
        for g, pol in p.guards():
            for x in T.walk(g):
                if x[0] == "call" and x[2][:1] == (obj,) and T.refname(x[1]) in prog.functions:
                    n += 1
                    callee = prog.functions[T.refname(x[1])]
                    cp = ("param", callee.params[0])
                    reads_text = any(
                        T.contains(tm, lambda y: (T.is_call_to(y, "builtins.str", "builtins.repr") and y[2][:1] == (cp,)) or (y[0] == "fmt" and y[1] == cp))
                        for q in P.paths_of(prog, callee) for tm in q.all_terms()
                    )  # fmt: skip
                    if reads_text and pol:
                        # harmless only when the same path also knows the object is a class
                        if not any(val and T.is_call_to(a, "inspect.isclass") for a, val in T.derive_atoms(p.guards())):
                            textual.append(callee.name)
    rep.check(not textual, "R10.6", f.qualname, f.loc, f"the {n} predicate(s) guarding the special-cased signatures do not read the object's text (or apply to classes only)", f"signature() special-cases an object when {sorted(set(textual))[0] if textual else ''}(obj) holds, and that predicate reads str(obj): the text of a bound method or callable instance contains the repr of the instance, so bind(svc.add) for a dataclass instance with a list field (repr 'Service(seen=[])') takes the tuple branch and raises TypeError: issubclass() arg 1 must be a class", detail="no-text-predicates")


def r10_7(prog: Program, rep: Report):
    """An annotation that is a *string* (`from __future__ import annotations`, a quoted forward reference) names something in
    the module of the callable.  Handed to the memoised routine factory as a bare string it is looked up from the stack of
    whoever binds the callable, and at once -- while the class or module that the name belongs to may still be in the making.
    Wherever the factory is applied to `param.annotation`, the path has established that the annotation is not a string."""
    f = prog.function(f"{MOD}._get_binding")
    UM = "typelib.unmarshals.api.unmarshaller"
    n, bad = 0, 0
    for p in P.splice_helpers(prog, P.paths_of(prog, f)):
        calls = [x for tm in p.all_terms() for x in T.walk(tm) if T.is_call_to(x, UM) and len(x[2]) == 1 and x[2][0][0] == "attr" and x[2][0][2] == "annotation"]
        if not calls:
            continue
        atoms = T.derive_atoms(p.guards())
        for c in dict.fromkeys(calls):
            ann = c[2][0]
            n += 1
            not_str = any(
                ((not val) and ((a[0] == "cmp" and a[1] == "is" and ("attr", ann, "__class__") in a[2:4] and ("ref", "builtins.str") in a[2:4]) or (T.is_call_to(a, "builtins.isinstance") and a[2][:1] == (ann,) and T.contains(a[2][1], lambda z: z == ("ref", "builtins.str")))))
                for a, val in atoms
            )  # fmt: skip
            if not not_str:
                bad += 1
    # ... and "the module of the callable" is, for a class, the module its constructor was written in: an inherited __init__
    # need not live in the module of the class (wrap() binds the function itself; unmarshal() reads the hints from it)
    obj = ("param", f.params[0])
    n_ref, by_class, by_instance = 0, [], []
    for p in P.splice_helpers(prog, P.paths_of(prog, f)):
        atoms = T.derive_atoms(p.guards())
        not_class = any((not val) and T.is_call_to(a, "inspect.isclass") and a[2][:1] == (obj,) for a, val in atoms)
        for tm in p.all_terms():
            for x in T.walk(tm):
                if T.is_call_to(x, "typelib.py.refs.forwardref") and x[2] and x[2][0][0] == "attr" and x[2][0][2] == "annotation":
                    m = dict(x[3]).get("module")
                    if m is None:
                        continue
                    n_ref += 1
                    ctor = T.contains(m, lambda y: (y[0] == "attr" and y[2] in ("__init__", "__new__")) or (T.is_call_to(y, "builtins.getattr") and len(y[2]) >= 2 and y[2][1] in (("const", "__init__"), ("const", "__new__"))))
                    # (the statement form: the callable itself is the fallback on the path where its constructor / __call__ was
                    #  looked at and found to be no plain function)
                    consulted = lambda names: any((not val) and T.is_call_to(a, "inspect.isfunction") and T.contains(a, lambda y: (y[0] == "attr" and y[2] in names) or (T.is_call_to(y, "builtins.getattr") and len(y[2]) >= 2 and y[2][1][0] == "const" and y[2][1][1] in names)) for a, val in atoms)  # noqa: E731
                    if not ctor and not not_class and T.contains(m, lambda y: y == obj) and not consulted(("__init__", "__new__")):
                        by_class.append(T.show(m)[:60])
                    # ... and for an instance that is called through its class's __call__, the module of that method
                    is_class = any(val and T.is_call_to(a, "inspect.isclass") and a[2][:1] == (obj,) for a, val in atoms)
                    is_routine = any(val and T.is_call_to(a, "inspect.isroutine", "inspect.isfunction", "inspect.ismethod") and a[2][:1] == (obj,) for a, val in atoms)
                    via_call = T.contains(m, lambda y: (y[0] == "attr" and y[2] == "__call__") or (T.is_call_to(y, "builtins.getattr") and len(y[2]) >= 2 and y[2][1] == ("const", "__call__")))
                    if not is_class and not is_routine and not via_call and T.contains(m, lambda y: y == obj) and not consulted(("__call__",)):
                        by_instance.append(T.show(m)[:60])
    if n_ref:
        rep.check(not by_class, "R10.7", f.qualname, f.loc, "for a class the string annotations belong to the module of its constructor", f"the module for a string annotation is read from the callable itself ({by_class[:1]}) also when it is a class: a class that inherits an annotated __init__ from a base in another module has 'Money' looked up in its own module -- bind(Savings) converts with the wrong class (or NameError) where wrap(Savings) and unmarshal(Savings, ...) use the base's", detail="string-annotation-carrier")
    if n_ref:
        rep.check(not by_instance, "R10.7", f.qualname, f.loc, "for a callable instance the string annotations belong to the module of its class's __call__", f"the module for a string annotation is read from the object itself ({by_instance[:1]}) also when it is an instance called through an inherited __call__: the names are looked up in the module of the instance's class, not in the one the method was written in -- bind(Sub()) raises NameError or converts with another module's class", detail="string-annotation-carrier-call")
    if not n:
        rep.undecided("R10.7", f.qualname, f.loc, "no routine is built from a parameter's annotation", detail="string-annotation")
        return
    rep.check(not bad, "R10.7", f.qualname, f.loc, f"the routine factory is applied to param.annotation only where the annotation is known not to be a string ({n} site(s) on paths)", "param.annotation is handed to the memoised routine factory whatever it is: a string annotation (PEP 563 module, quoted forward reference) is then looked up from the stack of whoever calls bind()/wrap() -- a function of another module gets the caller's unrelated class of that name, or NameError -- and at decoration time: `@wrap def merge(self, other: 'Node')` inside the body of Node raises NameError", detail="string-annotation")


def run(prog: Program, rep: Report, tier: str):
    global MAXN
    MAXN = 3 if tier == "thorough" else 2
    rep.rule("R10.7", "string annotations are resolved in the callable's module, when first needed", floor=1)
    r10_7(prog, rep)
    rep.rule("R10.1", "each binder's __call__ reduces to an effect summary (pos segments, keyword mode)", floor=16)
    rep.rule("R10.2", "_get_binding per-kind facts: own-annotation unmarshaller registered by index and name, own flag, varpos/varkwd, binding flow", floor=15)
    rep.rule("R10.3", "all 32 matrix rows route every accepted call shape to the parameter's own unmarshaller", floor=33)
    rep.rule("R10.4", "bind/wrap/BoundRoutine dataflow, metadata and parameter hygiene of the forwarding wrappers", floor=13)
    rep.rule("R10.5", "the signature bound is the signature of the callable that is called", floor=3)
    rep.rule("R10.6", "the signature helper decides by what the object is, never by how it prints", floor=1)
    r10_6(prog, rep)
    summaries = binder_summaries(prog, rep)
    f, facts = factory_facts(prog, rep)
    if all(k in facts for k in KINDS):
        check_factory(prog, rep, f, facts)
        # startpos must equal nPO+nPK whenever *args is present, nPO for PO-only, None otherwise
        for seq, want in ((["PO", "PK", "VA"], 2), (["PK", "PK", "VA", "KO"], 2), (["VA"], 0), (["PO", "PO", "PK"], 2), (["PK", "KO"], None), (["PO", "PO", "PO", "VA", "VK"], 3)):
            got = startpos_of(facts, seq)
            if got == "?":
                # (the closed form could not be read off the code: run the loop itself on this kind sequence)
                try:
                    simres = FactorySim(prog).run(seq)
                except AnalysisError:
                    simres = None
                if simres is not None:
                    got = simres["startpos"]
            rep.check(got == want, "R10.2", f"{MOD}._get_binding", f.loc, f"startpos for kinds {seq} = {want}", f"startpos for kinds {seq} is {got}, must be {want}", detail="startpos-" + "".join(seq))
        rows = matrix(prog)
        check_rows(prog, rep, summaries, facts, rows)
    check_flow(prog, rep)
    check_signature_subject(prog, rep)
