"""One module per property; each exposes run(prog, report, tier) plus ASSUMPTIONS, TRUSTED, EXPLANATION."""
