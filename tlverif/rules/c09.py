"""C09 — the type graph is a complete dependency order with every cycle cut."""

from __future__ import annotations

from .. import oracle
from .. import paths as P
from .. import terms as T
from ..model import AnalysisError, Program
from ..report import Report
from . import common as C

EXPLANATION = (
    "R09.1 in get_type_graph every child that is not in the skip set contributes a predecessor of its parent, and graph.add(parent, *predecessors) runs on "
    "every iteration (Literal parents are added childless by design). R09.2 a TypeNode whose type derives from refs.forwardref passes cyclic=True, and "
    "cyclic=True occurs only on paths dominated by the revisit test. R09.3 _level yields every inspection.args(t) item and every item of the (exhaustive "
    "for structured types) type hints. R09.4 static_order on str/ForwardRef evaluates the reference and tail-calls the memoised self; otherwise it is exactly "
    "[*itertypes(t)], which is the TopologicalSorter's static_order of get_type_graph(t). R09.5 provenance of the deferred node: its name must not derive from "
    "a subscript-dropping function while the cut admits subscripted generics, and its module must derive from the child's __module__, never from its qualified name."
)
ASSUMPTIONS = [
    "duplicate-freeness and sequence equality across spellings are value-level (ND)",
    "graphlib.TopologicalSorter.static_order puts predecessors first; only the root has no successor",
    "finitely many distinct annotations are reachable from a type (termination, see C07)",
]
TRUSTED = oracle.TRUSTED + ["graphlib.TopologicalSorter"]
MOD = "typelib.graph"


def graph_paths(prog: Program):
    """The walk's paths, with the small private helpers of the module it calls read in place (`_evaluated(child)`,
    `_cyclic_class_node(...)`); `_level` stays a call (rules name it)."""
    import ast as _ast

    f = prog.function(f"{MOD}.get_type_graph")
    ps = P.paths_of(prog, f)

    def small(fi):
        if fi.qualname in P.NOT_INLINED or fi.module is not f.module:
            return False
        return not any(isinstance(n, (_ast.For, _ast.While, _ast.Yield, _ast.YieldFrom)) for n in _ast.walk(fi.node))

    if len(ps) <= 300:
        ps = P.splice_helpers(prog, ps, only=small)
    return f, ps


def child_of(p):
    """The loop variable holding the member annotation: second component of an element of _level(...)."""
    name = None
    cur = None
    for e in p.events:
        if e[0] == "assign" and e[2][0] == "unpack" and e[2][2] == 1 and e[2][1][0] == "elem" and T.is_call_to(e[2][1][1], f"{MOD}._level") and name in (None, e[1]):
            # (the loop variable; a local of a helper read in place that is given the same value is not it)
            name, cur = e[1], e[2]
        elif e[0] == "assign" and name is not None and e[1] == name:
            cur = e[2]  # the member was normalised in place (e.g. a reference evaluated)
    return cur


def _is_typenode(tm) -> bool:
    return T.is_call_to(tm, f"{MOD}.TypeNode")


def node_args(tm) -> dict:
    names = ["type", "unwrapped", "var", "cyclic"]
    d = {}
    for n, a in zip(names, tm[2]):
        d[n] = a
    for k, v in tm[3]:
        d[k] = v
    return d


def r09_1_2(prog: Program, rep: Report):
    f, ps = graph_paths(prog)
    q = f.qualname
    iter_paths = [p for p in ps if any(e[0] == "while" and e[2] == 1 for e in p.events)]
    if not iter_paths:
        raise AnalysisError("get_type_graph: worklist loop not found")
    n_child = 0
    ok_pred = True
    ok_add = True
    ok_skip = True
    skipset = None
    cyc_ok = True
    fwd_ok = True
    cut_ok = True
    for p in iter_paths:
        adds = [e[1] for e in p.events if e[0] == "eval" and e[1][0] == "call" and e[1][1][0] == "attr" and e[1][1][2] == "add" and T.is_call_to(e[1][1][1], "graphlib.TopologicalSorter")]
        # the add for the popped parent
        parent_adds = [a for a in adds if a[2] and a[2][0][0] == "call" and a[2][0][1][0] == "attr" and a[2][0][1][2] in ("popleft", "pop")]
        if not parent_adds:
            ok_add = False
            continue
        looped = [e for e in p.events if e[0] == "loop" and e[2] == 1]
        if not looped:
            continue
        n_child += 1
        add = parent_adds[-1]
        preds = [x for x in add[2][1:]]
        nodes = []
        for x in preds:
            if x[0] == "star" and x[1][0] == "list":
                nodes += list(x[1][1])
        child = child_of(p)
        skipped = [(g, pol) for g, pol in p.guards() if g[0] == "cmp" and g[1] == "in" and g[2] == child and g[3][0] in ("tuple", "set", "list")]
        via_pred = [(g, pol) for g, pol in p.guards() if T.is_call_to(g, f"{C.INSP}.isunresolvable") and g[2] == (child,)]
        if via_pred and via_pred[0][1]:
            un = P.module_term(prog, prog.module(C.INSP), "_UNRESOLVABLE")
            skipset = sorted(T.refname(x) or T.show(x) for x in un[1]) if un[0] in ("tuple", "list", "set") else ["<_UNRESOLVABLE>"]
            if nodes:
                ok_skip = False
            continue
        if skipped and skipped[0][1]:
            skipset = sorted(T.refname(x) or T.show(x) for x in skipped[0][0][3][1])
            if nodes:
                ok_skip = False
            continue
        if not skipped:
            ok_skip = ok_skip and True
        if len(nodes) != 1 or not _is_typenode(nodes[0]):
            ok_pred = False
            continue
        na = node_args(nodes[0])
        from_ref = T.is_call_to(na.get("type", ("const", None)), "typelib.py.refs.forwardref")
        cyclic = na.get("cyclic") == ("const", True)
        revisit = any(pol and T.contains(g, lambda s: s[0] == "cmp" and s[1] == "in" and s[3][0] == "set" and (s[2] == child or T.is_call_to(s[2], f"{C.INSP}.unwrap"))) for g, pol in p.guards())
        # a node the walk does not descend into (not pushed on the worklist) is a cut and must say so; one it does descend into must not
        worklist = add[2][0][1][1]  # what the parent was popped from
        pushed = any(e[0] == "eval" and e[1][0] == "call" and e[1][1][0] == "attr" and e[1][1][2] in ("append", "appendleft", "extend") and e[1][1][1] == worklist and nodes[0] in e[1][2] for e in p.events)
        if not pushed and not cyclic:
            cut_ok = False
        if pushed and cyclic:
            cut_ok = False
        if from_ref and not cyclic:
            fwd_ok = False
        if cyclic and not revisit:
            cyc_ok = False
        if not cyclic and not from_ref:
            # plain child node denotes the child itself
            if na.get("type") != child:
                ok_pred = False
    rep.check(ok_add, "R09.1", q, f.loc, "graph.add(parent, …) runs for every popped parent", "a popped parent is not added to the graph on some path", detail="add-parent")
    rep.check(ok_pred and n_child > 0, "R09.1", q, f.loc, "every non-skipped child becomes exactly one predecessor node of its parent", "a child that is not in the skip set does not become a predecessor of its parent (members would be built after their container)", detail="predecessor")
    rep.check(ok_skip and skipset is not None, "R09.1", q, f.loc, f"children are skipped only when they are in {skipset}", "a child is skipped outside the declared skip set", detail="skip-only")
    # the revisit test must ask for the very thing that is recorded as visited (the member annotation itself)
    asks_label = True
    for p in iter_paths:
        child = child_of(p)
        cut = any(_is_typenode(s) and node_args(s).get("cyclic") == ("const", True) for tm in p.all_terms() for s in T.walk(tm))
        if cut and child is not None:
            if not any(pol and T.contains(g, lambda s: s[0] == "cmp" and s[1] == "in" and s[2] == child and s[3][0] == "set") for g, pol in p.guards()):
                asks_label = False
    # ... and a member is a revisit when the annotation *or* its unwrapped form was seen: requiring both misses a cycle closed
    # through a label (NewType / alias of a class under construction) and a label met again after its class
    in_set = lambda s: s[0] == "cmp" and s[1] == "in" and s[3][0] == "set"  # noqa: E731
    both = any(g[0] == "boolop" and g[1] == "and" and sum(1 for x in g[2] if in_set(x)) >= 2 for p in iter_paths for g, _pol in p.guards())
    rep.check(not both, "R09.2", q, f.loc, "seen is `annotation in visited or unwrapped in visited`", "a member counts as seen only when the annotation *and* its unwrapped form are both recorded: a cycle closed through a NewType / alias label (recorded under the label, asked for under the class, or the other way round) is never recognised -- CycleError or a walk that does not end", detail="revisit-either")
    rep.check(asks_label, "R09.2", q, f.loc, "the revisit test looks the member annotation itself up in `visited` (that is what gets recorded)", "the revisit test only looks the *unwrapped* annotation up, while `visited` records the annotation itself: a cycle closed through an alias or NewType label is never recognised (CycleError / non-termination)", detail="revisit-asks-label")
    rep.check(cut_ok, "R09.2", q, f.loc, "a member node is flagged cyclic exactly when the walk does not descend into it", "a member the walk does not descend into (a revisit) is emitted without the cyclic flag, or one it does descend into carries it: the un-flagged stand-in equals the real node of that annotation, the sorter sees a dependency of the node on itself (CycleError) and the routine factories take the stand-in for the real routine", detail="cut-is-flagged")
    rep.check(fwd_ok, "R09.2", q, f.loc, "every forward-reference node is flagged cyclic", "a node built from refs.forwardref is not flagged cyclic=True (the flag is invisible to == and to the exact-list tests)", detail="fwd-implies-cyclic")
    rep.check(cyc_ok, "R09.2", q, f.loc, "cyclic=True occurs only under the revisit test", "a node is flagged cyclic on a path that did not establish a revisit", detail="cyclic-implies-revisit")
    return skipset


def drops_subscript(prog: Program, fn: str) -> bool:
    f = prog.functions.get(fn)
    if f is None:
        return False
    for p, r in P.returns(P.paths_of(prog, f)):
        for s in T.walk(r):
            if s[0] == "sub" and s[2] == ("const", 0) and s[1][0] == "call" and s[1][1][0] == "attr" and s[1][1][2] in ("split", "partition") and s[1][2] and s[1][2][0] == ("const", "["):
                return True
    return False


def drops_qualifier(prog: Program, fn: str) -> bool:
    """Does the function return only the last dotted component of a name?"""
    f = prog.functions.get(fn)
    if f is None:
        return False
    for p, r in P.returns(P.paths_of(prog, f)):
        for s in T.walk(r):
            if s[0] == "sub" and s[2] == ("const", -1) and s[1][0] == "call" and s[1][1][0] == "attr" and s[1][1][2] in ("rsplit", "split", "rpartition") and (not s[1][2] or s[1][2][0] == ("const", ".")):
                return True
    return False


def r09_5(prog: Program, rep: Report):
    f, ps = graph_paths(prog)
    q = f.qualname
    calls = {}
    admits_subscripted = False
    for p in ps:
        child = child_of(p)
        not_class = any((not pol) and T.is_call_to(g, "inspect.isclass") and g[2] == (child,) for g, pol in p.guards())
        for c in p.calls():
            # (the reference *synthesised for the cut* names a module; turning a string member into a reference does not)
            if T.is_call_to(c, "typelib.py.refs.forwardref") and "module" in dict(c[3]):
                calls[T.show(c) + str(not_class)] = (c, child, not_class)
                # an unlabelled generic (the annotation is its own unwrapped form) may have been taken by an earlier
                # branch that keeps the annotation itself; a *labelled* one (NewType / alias of a generic) has a name
                is_own_unwrapped = lambda s: s[0] == "cmp" and s[1] == "is" and (T.is_call_to(s[3], f"{C.INSP}.unwrap") or T.is_call_to(s[2], f"{C.INSP}.unwrap"))  # noqa: E731
                diverted = any((not pol) and T.contains(g, is_own_unwrapped) for g, pol in p.guards())
                # ... or the branch is reached for classes only (no class is a subscripted generic)
                if any(val and T.is_call_to(a, "inspect.isclass") for a, val in T.derive_atoms(p.guards())):
                    diverted = True
                for g, pol in p.guards():
                    if pol and T.contains(g, lambda s: T.is_call_to(s, f"{C.INSP}.issubscriptedgeneric")) and not diverted:
                        admits_subscripted = True
    # every reference that becomes (a component of) a cyclic-flagged node says which module its name lives in: without
    # `module=` the name is looked for by walking the stack of whoever first builds a routine for it
    moduleless = []
    for p in ps:
        for tm in p.all_terms():
            for s_ in T.walk(tm):
                if _is_typenode(s_) and node_args(s_).get("cyclic") == ("const", True):
                    for role in ("type", "unwrapped"):
                        a_ = node_args(s_).get(role)
                        if a_ is not None and T.is_call_to(a_, "typelib.py.refs.forwardref") and "module" not in dict(a_[3]):
                            moduleless.append(role)
    if calls or moduleless:
        rep.check(not moduleless, "R09.5", q, f.loc, "both references of a deferred class carry its module", f"the `{(sorted(set(moduleless)) or ['?'])[0]}` reference of a deferred class is made without `module=`: its name is resolved from the call stack of whoever first needs it (another module's class of that name, or NameError) instead of in the module of the class", detail="cut-reference-module")
    if not calls:
        rep.held("R09.5", q, f.loc, "the cut does not synthesise forward references", nontrivial=False)
        rep.held("R09.5", q, f.loc, "no module is synthesised", detail="module", nontrivial=False)
        return
    name_bad = mod_bad = False
    name_why = mod_why = ""
    qual_bad = ""
    for c, child, not_class in calls.values():
        first = c[2][0] if c[2] else None
        kw = dict(c[3])
        module = kw.get("module")
        if first is not None and child is not None:
            droppers = [T.refname(s[1]) for s in T.walk(first) if s[0] == "call" and T.refname(s[1]) and s[2] and s[2][0] == child and drops_subscript(prog, T.refname(s[1]))]
            if droppers and admits_subscripted:
                name_bad = True
                name_why = f"the reference name is computed by {droppers[0].rsplit('.', 1)[-1]}(child), which cuts the string at '[', while the cut also takes subscripted generics: list[Node] is deferred as ForwardRef('list')"
            shorteners = [T.refname(s[1]) for s in T.walk(first) if s[0] == "call" and T.refname(s[1]) and s[2] and s[2][0] == child and drops_qualifier(prog, T.refname(s[1]))]
            if shorteners and not not_class:
                qual_bad = f"the reference to a class is named by {shorteners[0].rsplit('.', 1)[-1]}(child), which keeps only the last dotted component: the nested class Order.Item is deferred as ForwardRef('Item'), which names nothing (or another class) in its module"
        if module is not None and child is not None:
            from_qual = [s for s in T.walk(module) if s[0] == "call" and T.refname(s[1]) in (f"{C.INSP}.qualname", f"{C.INSP}.name")]
            from_qualattr = [s for s in T.walk(module) if s[0] == "attr" and s[2] in ("__qualname__", "__name__")]
            # a typing repr ('typing.Optional[...]') does carry its module; a class' qualified name never does
            if (from_qual or from_qualattr) and not not_class:
                mod_bad = True
            # the reference stands for the *label* (alias / NewType object): its module is the label's own, which is
            # what TypeContext.__missing__ rebuilds the key from
            wrong_src = [s for s in T.walk(module) if T.is_call_to(s, "builtins.getattr") and len(s[2]) >= 2 and s[2][1] == ("const", "__module__") and s[2][0] != child]
            if wrong_src:
                mod_bad = True
                mod_why = f"module= is taken from {T.show(wrong_src[0][2][0])[:50]} instead of the member annotation itself: a NewType/alias defined in another module than the class it wraps is registered under a key the context never asks for"
                mod_why = "module= is derived from the child's qualified name (a __qualname__ never contains the module): Outer.Inner is deferred with module='Outer'"
    # only a class is denoted by its qualified name: a reference synthesised for anything else (a PEP 604 union, whose text
    # has no '[' and is cut at its first dot; Final[X], named 'Final'; an alias or NewType, looked for under the name of what
    # it wraps) denotes something else or nothing
    by_name_nonclass = [c for c, child, not_class in calls.values() if not_class or not any(True for _ in [0])]
    guarded = True
    for p in ps:
        child = child_of(p)
        if any(T.is_call_to(c, "typelib.py.refs.forwardref") and "module" in dict(c[3]) for c in p.calls()):
            atoms = T.derive_atoms(p.guards())
            if not any(val and T.is_call_to(a, "inspect.isclass") and len(a[2]) == 1 and (a[2][0] == child or (T.contains(a[2][0], lambda y: T.is_call_to(y, f"{MOD}._level")) and not T.contains(a[2][0], lambda y: T.is_call_to(y, f"{C.INSP}.unwrap", f"{C.INSP}.origin", "typing.get_origin")))) for a, val in atoms):
                guarded = False
    if not guarded and not name_bad:
        name_bad = True
        name_why = "a revisited member that is not a class can be deferred as a forward reference built from its printed name: `Foo | None` met twice becomes ForwardRef('Foo | None', module='int | __main__')-like text split at its first dot, Final[Foo] becomes ForwardRef('Final', module='typing'), an alias of list[int] becomes ForwardRef('list') -- the member gets a no-op routine (warning only) or construction raises"
    del by_name_nonclass
    rep.check(not name_bad, "R09.5", q, f.loc, "the deferred node's name keeps the child's parameters (only classes are deferred by name)", name_why, detail="name<-qualname")
    rep.check(not mod_bad, "R09.5", q, f.loc, "the deferred node's module comes from the child's __module__", mod_why, detail="module<-qualname")
    rep.check(not qual_bad, "R09.5", q, f.loc, "a deferred class is named by its whole qualified name", qual_bad, detail="name-keeps-qualifier")


def leaf_test_object(prog: Program, rep: Report, rule: str):
    """The leaf test of the walk (is this a Literal / an unresolvable form: do not enumerate members) is asked of the very object
    whose members are enumerated otherwise: both look at the *unwrapped* annotation, or `Final[Literal['a']]` / an alias of a
    NewType of a Literal is not recognised and the Literal's values are walked as if they were member annotations."""
    f, ps = graph_paths(prog)
    norm = lambda tm: T.rewrite(tm, lambda y: ("call", ("ref", f"{C.INSP}.unwrap"), (("attr", y[1], "type"),), ()) if y[0] == "attr" and y[2] == "unwrapped" else None)  # noqa: E731
    LEAF = (f"{C.INSP}.isliteral", f"{C.INSP}.isunresolvable")
    sites, bad = 0, []
    for p in ps:
        lv = [x for tm in p.all_terms() for x in T.walk(tm) if T.is_call_to(x, f"{MOD}._level") and x[2]]
        if not lv:
            continue
        subject = norm(lv[0][2][0])
        for a, val in T.derive_atoms(p.guards()):
            if T.is_call_to(a, *LEAF) and a[2]:
                sites += 1
                if norm(a[2][0]) != subject:
                    bad.append(f"{T.refname(a[1]).rsplit('.', 1)[-1]}({T.show(a[2][0])[-40:]}) while members are taken from {T.show(lv[0][2][0])[-50:]}")
    if not sites:
        rep.undecided(rule, f.qualname, f.loc, "no leaf test found on the paths that enumerate members", detail="leaf-test-object")
        return
    rep.check(not bad, rule, f.qualname, f.loc, "the leaf test and the member enumeration look at the same (unwrapped) object", f"the leaf test is asked of another object than the one whose members are enumerated: {sorted(set(bad))[:2]} -- under Final[...] or a two-step alias/NewType chain a Literal is not recognised, its values are walked as member annotations ('red' becomes a string reference: NameError when the routine is built)", detail="leaf-test-object")


def r09_3(prog: Program, rep: Report):
    f = prog.function(f"{MOD}._level")
    t = ("param", f.params[0])
    ys = []
    fps = P.paths_of(prog, f)
    for p in fps:
        ys = [e[1] for e in p.events if e[0] == "yield"]
    args_ok = hints_ok = False

    def hints_src(src):
        if T.is_call_to(src, f"{C.INSP}.get_type_hints") and src[2][:1] == (t,):
            ex = dict(src[3]).get("exhaustive") or (src[2][1] if len(src[2]) > 1 else None)
            return ex is not None and T.is_call_to(ex, f"{C.INSP}.isstructuredtype") and ex[2] == (t,)
        return False

    # explicit loops: `for a in args(t): yield None, a` / `for k, v in hints.items(): yield k, v`, nothing filtered
    full = max(fps, key=lambda p: sum(1 for e in p.events if e[0] == "yield"), default=None)
    if full is not None:
        filtered = any(T.contains(g, lambda x: x[0] in ("elem", "key", "value")) for g, _ in full.guards())
        for e in full.events:
            if e[0] != "yield" or filtered:
                continue
            y = e[1]
            if y[0] == "tuple" and len(y[1]) == 2:
                a, b = y[1]
                if a == ("const", None) and b[0] == "elem" and T.is_call_to(b[1], f"{C.INSP}.args") and b[1][2] == (t,):
                    args_ok = True
                if a[0] == "key" and b[0] == "value" and a[1] == b[1] and hints_src(a[1]):
                    hints_ok = True
    # not a generator at all: `return [*((None, a) for a in args(t)), *hints.items()]`
    for _, r in P.returns(fps):
        if r[0] in ("list", "tuple"):
            for part in r[1]:
                if part[0] != "star":
                    continue
                x = part[1]
                if x[0] == "comp" and not x[4] and len(x[3]) == 1:
                    it = x[3][0][0]
                    if T.is_call_to(it, f"{C.INSP}.args") and it[2] == (t,) and x[2] == ("tuple", (("const", None), ("elem", it))):
                        args_ok = True
                if x[0] == "call" and x[1][0] == "attr" and x[1][2] == "items" and hints_src(x[1][1]):
                    hints_ok = True
    for y in ys:
        if y[0] == "elem" and y[1][0] == "comp":
            c = y[1]
            it = c[3][0][0]
            if T.is_call_to(it, f"{C.INSP}.args") and it[2] == (t,) and c[2] == ("tuple", (("const", None), ("elem", it))) and not c[4]:
                args_ok = True
        if y[0] == "elem" and y[1][0] == "call" and y[1][1][0] == "attr" and y[1][1][2] == "items":
            src = y[1][1][1]
            if T.is_call_to(src, f"{C.INSP}.get_type_hints") and src[2][:1] == (t,):
                ex = dict(src[3]).get("exhaustive") or (src[2][1] if len(src[2]) > 1 else None)
                if ex is not None and T.is_call_to(ex, f"{C.INSP}.isstructuredtype") and ex[2] == (t,):
                    hints_ok = True
    rep.check(args_ok, "R09.3", f.qualname, f.loc, "every generic argument is a member (unfiltered)", "_level does not yield every inspection.args(t) item as (None, arg)", detail="args")
    rep.check(hints_ok, "R09.3", f.qualname, f.loc, "every type hint is a member (signature hints for structured types)", "_level does not yield every item of get_type_hints(t, exhaustive=isstructuredtype(t))", detail="hints")
    # callers use the unwrapped parent
    g, ps = graph_paths(prog)
    lv = [c for p in ps for c in p.calls() if T.is_call_to(c, f"{MOD}._level")]
    ok = bool(lv) and all(T.is_call_to(c[2][0], f"{C.INSP}.unwrap") for c in lv if c[2])
    rep.check(ok, "R09.3", g.qualname, g.loc, "members are taken from the unwrapped parent", "get_type_graph does not take the members of the unwrapped parent", detail="unwrapped-parent")


def r09_8(prog: Program, rep: Report):
    """String annotations taken from a constructor signature arrive in the walk as ForwardRef objects.  They are ordinary
    members, not cycle cuts: unless the walk evaluates them, they become un-flagged reference nodes and the class they name
    (and its members) never gets nodes of its own."""
    hs = prog.functions.get(f"{C.INSP}._hints_from_signature")
    makes_refs = hs is not None and any(T.contains(tm, lambda x: T.is_call_to(x, "typelib.py.refs.forwardref")) for p in P.paths_of(prog, hs) for tm in p.all_terms())
    f, ps = graph_paths(prog)
    evaluates = False
    for p in ps:
        child = child_of(p)
        for e in p.events:
            if e[0] == "assign" and T.is_call_to(e[2], "typelib.py.refs.evaluate") and e[2][2] and (child is None or e[2][2][0] == child or e[2][2][0][0] == "unpack" or T.contains(e[2][2][0], lambda x: x == child) or e[2] == child):
                if any(pol and (T.is_call_to(g, "builtins.isinstance") and "typing.ForwardRef" in {T.refname(x) for x in (P.flatten_display(prog, g[2][1]) or [g[2][1]])} or T.is_call_to(g, f"{C.INSP}.isforwardref")) for g, pol in p.guards()):
                    evaluates = True
    # sibling agreement: whatever static_order() accepts as a reference at the root, the walk accepts for a member
    def ref_classes(guards, subject_ok):
        out = set()
        for g, pol in guards:
            if pol and T.is_call_to(g, "builtins.isinstance") and len(g[2]) == 2 and subject_ok(g[2][0]):
                for x in P.flatten_display(prog, g[2][1]) or [g[2][1]]:
                    if T.refname(x):
                        out.add(T.refname(x))
        return out

    so = prog.function(f"{MOD}.static_order")
    st = ("param", so.params[0])
    root_cls = set()
    for p in P.paths_of(prog, so):
        if p.exit[0] == "return" and T.contains(p.exit[1], lambda x: T.is_call_to(x, "typelib.py.refs.evaluate")):
            root_cls |= ref_classes(p.guards(), lambda x: x == st)
    member_cls = set()
    for p in ps:
        child = child_of(p)
        if any(e[0] == "assign" and T.contains(e[2], lambda x: T.is_call_to(x, "typelib.py.refs.evaluate")) for e in p.events):
            member_cls |= ref_classes(p.guards(), lambda x: child is None or x == child or x[0] in ("unpack", "elem"))
    if root_cls:
        missing = sorted(root_cls - member_cls)
        rep.check(not missing, "R09.8", f.qualname, f.loc, f"every reference class accepted at the root ({sorted(root_cls)}) is evaluated when it arrives as a member", f"static_order() evaluates a root given as {sorted(root_cls)}, but the walk evaluates members of class {sorted(member_cls)} only: {missing} members -- the raw string arguments a builtin generic keeps, list['Node'], dict[str, 'Item'] -- become nodes whose type is a str object and the dispatch raises TypeError (issubclass() arg 1 must be a class)", detail="reference-members-classes")
    # what is evaluated: a reference made of the text when the member is a str, the member itself when it is a ForwardRef
    made_ok, n_made = True, 0
    for p in ps:
        # the member as it arrives (before it is re-bound to what it evaluates to): the subject of the reference test
        raw = [g[2][0] for g, pol in p.guards() if pol and T.is_call_to(g, "builtins.isinstance") and len(g[2]) == 2 and g[2][0][0] in ("unpack", "elem") and "typing.ForwardRef" in {T.refname(x) for x in (P.flatten_display(prog, g[2][1]) or [g[2][1]])}]
        if not raw:
            continue
        child = raw[0]
        for e in p.events:
            if e[0] == "assign" and T.is_call_to(e[2], "typelib.py.refs.evaluate") and e[2][2]:
                n_made += 1
                a = e[2][2][0]

                def fold(tm, is_str, child=child):
                    y = T.rewrite(tm, lambda z: ("const", is_str) if T.is_call_to(z, "builtins.isinstance") and z[2][:1] == (child,) and T.refname(z[2][1]) == "builtins.str" else None)
                    while y[0] == "ifexp" and y[1][0] == "const":
                        y = y[2] if y[1][1] else y[3]
                    return y

                as_text, as_ref = fold(a, True), fold(a, False)
                # (the statement form decides on the path which of the two cases this is)
                known = [pol for g, pol in p.guards() if T.is_call_to(g, "builtins.isinstance") and g[2][:1] == (child,) and T.refname(g[2][1]) == "builtins.str"]
                text_ok = T.is_call_to(as_text, "typelib.py.refs.forwardref") and as_text[2][:1] == (child,)
                if known and known[-1]:
                    if not text_ok:
                        made_ok = False
                elif known:
                    if as_ref != child:
                        made_ok = False
                elif not text_ok or as_ref != child:
                    made_ok = False
    if n_made:
        rep.check(made_ok, "R09.8", f.qualname, f.loc, "a str member is evaluated through refs.forwardref(member), a ForwardRef member as it is", "what the walk evaluates for a member that is a reference is not `forwardref(member)` for a str and the member itself for a ForwardRef (the two cases are swapped, or the reference is never made): refs.evaluate hands a str back unchanged, so list['Node'] keeps a member that is a str object (TypeError in the dispatch), or a ForwardRef is wrapped in another one", detail="reference-members-made")
    # ... and "says nothing" (Any / no annotation) is asked of what the reference names: on a path that evaluates a member,
    # the skip test is applied to the evaluated value
    n_eval = skipped_raw = 0
    for p in ps:
        ev_vals = [e[2] for e in p.events if e[0] == "assign" and T.is_call_to(e[2], "typelib.py.refs.evaluate")]
        if not ev_vals:
            continue
        n_eval += 1
        tests = [g for g, _pol in p.guards() if g[0] == "cmp" and g[1] in ("in", "notin") and T.contains(g[3], lambda y: T.refname(y) == "typing.Any")] + [g for g, _pol in p.guards() if g[0] == "cmp" and g[1] in ("is", "isnot", "==", "!=") and any(T.refname(s_) == "typing.Any" for s_ in g[2:4])]
        if not any(T.contains(g, lambda y: T.is_call_to(y, "typelib.py.refs.evaluate")) for g in tests):
            skipped_raw += 1
    if n_eval:
        rep.check(not skipped_raw, "R09.8", f.qualname, f.loc, f"the Any / no-annotation skip is applied to the evaluated member ({n_eval} evaluating path(s))", "the walk asks whether a member says nothing (Any, no annotation) before it evaluates the member's reference: under `from __future__ import annotations` a second parameter annotated Any is cut as ForwardRef('typing.Any', module='typing'), which does not evaluate (NameError: name 'typing' is not defined) -- the first one became an ordinary node, the evaluated twin has no Any node at all", detail="skip-after-evaluation")
    if not makes_refs:
        rep.held("R09.8", f.qualname, f.loc, "signature hints are never handed over as references", nontrivial=False)
    else:
        rep.check(evaluates, "R09.8", f.qualname, f.loc, "a member that arrives as a ForwardRef is evaluated before it becomes a node", "members that arrive as ForwardRef objects (string annotations of an __init__ signature, `from __future__ import annotations`) become ordinary nodes with cyclic=False: a reference node that is no cycle cut, and no node at all for the class it names or for that class's members", detail="reference-members")


def r09_4(prog: Program, rep: Report):
    f = prog.function(f"{MOD}.static_order")
    t = ("param", f.params[0])
    ref_ok = plain_ok = False
    other = []
    for p, r in P.returns(P.spaths(prog, f)):
        isref = [pol for g, pol in p.guards() if T.is_call_to(g, "builtins.isinstance") and g[2][0] == t]
        # (a reference path: some class test on the input succeeded -- the test for "is a reference", possibly followed, in a
        #  helper that dereferences, by the one that tells a string from a ForwardRef)
        if isref and any(isref) and isref[0] is True:
            if T.is_call_to(r, f.qualname) and r[2] and T.is_call_to(r[2][0], "typelib.py.refs.evaluate"):
                a = r[2][0][2][0]
                if a == t or T.contains(a, lambda s: T.is_call_to(s, "typelib.py.refs.forwardref") and s[2][:1] == (t,)):
                    ref_ok = True
        elif isref and not any(isref):
            it = ("call", ("ref", f"{MOD}.itertypes"), (t,), ())
            if r == ("list", (("star", it),)) or (T.is_call_to(r, "builtins.list") and r[2] == (it,)):
                plain_ok = True
            else:
                other.append(T.show(r)[:70])
    rep.check(ref_ok, "R09.4", f.qualname, f.loc, "str/ForwardRef inputs are evaluated and delegated to the memoised static_order", "a reference input is not evaluated and passed back through static_order", detail="reference")
    rep.check(not other, "R09.4", f.qualname, f.loc, "no other exit for a non-reference input", f"a non-reference input has an exit that is not the fresh list of itertypes(t) ({other[0] if other else ''}): nodes or lists of another memoised entry are handed out (and relabelled) instead of being built for this annotation", detail="plain-only")
    rep.check(plain_ok, "R09.4", f.qualname, f.loc, "otherwise the result is exactly [*itertypes(t)]", "static_order is not exactly the list of itertypes(t)", detail="plain")
    g = prog.function(f"{MOD}.itertypes")
    ok = False
    for p in P.spaths(prog, g):
        for e in p.events:
            if e[0] == "yield" and e[1][0] == "elem":
                c = e[1][1]
                if c[0] == "call" and c[1][0] == "attr" and c[1][2] == "static_order" and T.is_call_to(c[1][1], f"{MOD}.get_type_graph"):
                    ok = True
    rep.check(ok, "R09.4", g.qualname, g.loc, "itertypes yields TopologicalSorter.static_order() of get_type_graph(t)", "itertypes does not yield the sorter's static order of the type graph", detail="itertypes")
    memo = prog.is_memoised(f)
    # (whether static_order is memoised is not observable in its result: recorded, not required)
    rep.held("R09.4", f.qualname, f.loc, "static_order is memoised (reference inputs share the evaluated type's entry)" if memo else "static_order is not memoised (each call walks the graph again; the result is the same)", detail="memo", nontrivial=bool(memo))


def r09_10(prog: Program, rep: Report, rule="R09.10"):
    """A revisited generic deferred *as the annotation itself* (flagged cyclic, not descended into) only works if (a) the
    flag makes the node distinct from the real node of the same annotation -- otherwise the sorter sees a member depending
    on its own container (CycleError) -- and (b) both factories build a lazy proxy for such a node and let that stand-in
    give way when the real node arrives (otherwise the root resolves to a proxy of itself: unbounded recursion)."""
    import ast as _ast

    f, ps = graph_paths(prog)
    own = False
    for p in ps:
        child = child_of(p)
        for tm in p.all_terms():
            for x in T.walk(tm):
                if _is_typenode(x) and node_args(x).get("cyclic") == ("const", True):
                    ty = node_args(x).get("type")
                    if ty is not None and not T.contains(ty, lambda y: T.is_call_to(y, "typelib.py.refs.forwardref") and "module" in dict(y[3])):
                        own = True
    if not own:
        rep.held(rule, f.qualname, f.loc, "the walk defers revisits as forward references only (no annotation-typed deferred nodes)", detail="own-type-deferred", nontrivial=False)
        return
    # (a) the flag takes part in equality
    tn = prog.classes.get(f"{MOD}.TypeNode")
    distinct = None
    if tn is not None:
        for n in tn.node.body:
            if isinstance(n, _ast.AnnAssign) and isinstance(n.target, _ast.Name) and n.target.id == "cyclic":
                distinct = True
                if isinstance(n.value, _ast.Call):
                    for kw in n.value.keywords:
                        if kw.arg in ("compare", "hash") and isinstance(kw.value, _ast.Constant) and kw.value.value is False:
                            distinct = False
    if distinct is None:
        rep.undecided(rule, f"{MOD}.TypeNode", f.loc, "field `cyclic` of TypeNode not found", detail="deferred-distinct")
    else:
        rep.check(distinct, rule, f"{MOD}.TypeNode", tn.loc, "a deferred node is distinct from the real node of the same annotation (cyclic takes part in ==/hash)", "TypeNode.cyclic is excluded from ==/hash while the walk defers a revisited generic as the annotation itself: the deferred node *is* the real node for the sorter, a member then depends on its own container (list[JSON] inside JSON inside list[JSON]) and static_order raises CycleError", detail="deferred-distinct")
    # (b) both factories
    for d in ("marshal", "unmarshal"):
        disp = C.dispatcher(prog, d)
        rows = C.handlers(prog, d)
        proxy = rows[0].routine if rows and rows[0].pred_name == "isforwardref" else None
        node = ("param", disp.params[0])
        ctxp = ("param", disp.params[1])
        cyc = ("attr", node, "cyclic")
        dps = P.paths_of(prog, disp)
        lazy = False
        reuse_ok = True
        reuse_seen = False
        for p, r in P.returns(dps):
            gs = p.guards()
            # (the callee is the proxy class by name and the path has decided `node.cyclic`: whether a scan of the table was
            # spliced in before it -- `cls = Proxy if cyclic else _scan(t)` -- does not matter)
            if proxy is not None and T.is_call_to(r, proxy.qualname) and any(g == cyc and pol for g, pol in gs) and r[2][:1] in ((("attr", node, "type"),), (("attr", node, "unwrapped"),)):
                lazy = True
            if r[0] == "sub" and r[1] == ctxp:
                reuse_seen = True
                is_proxy = lambda g: proxy is not None and T.is_call_to(g, "builtins.isinstance") and T.refname(g[2][1]) == proxy.qualname  # noqa: E731
                ok = any((g == cyc and pol) or (is_proxy(g) and not pol) for g, pol in gs) or any(pol and g[0] == "boolop" and g[1] == "or" and all(x == cyc or (x[0] == "not" and is_proxy(x[1])) for x in g[2]) for g, pol in gs)
                # (De Morgan: `is_stand_in = not node.cyclic and isinstance(known, Proxy)`; `if not is_stand_in: return known`)
                if not ok and any((not pol) and g[0] == "boolop" and g[1] == "and" and all(x == ("not", cyc) or is_proxy(x) for x in g[2]) for g, pol in gs):
                    ok = True
                if not ok:
                    reuse_ok = False
        rep.check(lazy, rule, disp.qualname, disp.loc, f"{d}: a cyclic-flagged node that is not built yet gets the lazy proxy", f"{d}: a node flagged cyclic is dispatched like any other: the routine of a revisited generic is built at once from a context that does not hold its members yet (KeyError), or the stand-in is never created", detail=f"{d}-deferred-lazy")
        rep.check(reuse_ok or not reuse_seen, rule, disp.qualname, disp.loc, f"{d}: the stand-in of a deferred generic gives way to the routine of the real node", f"{d}: the routine already stored under the annotation is reused for the real node even when it is the lazy stand-in of a deferred revisit: the root of list[Node] becomes a proxy that resolves to itself (RecursionError on the first call)", detail=f"{d}-deferred-gives-way")


def run(prog: Program, rep: Report, tier: str):
    rep.rule("R09.10", "annotation-typed deferred nodes: distinct from the real node, resolved lazily, and giving way to it", floor=1)
    r09_10(prog, rep)
    rep.rule("R09.1", "every non-skipped child contributes a predecessor; parents always added", floor=3)
    rep.rule("R09.2", "forward-ref node ⇔ cyclic flag ⇔ revisit; revisit test agrees with what is recorded", floor=3)
    rep.rule("R09.3", "_level = generic arguments ∪ type hints of the unwrapped parent", floor=3)
    rep.rule("R09.8", "members that arrive as references are evaluated, not emitted as un-flagged reference nodes", floor=1)
    r09_8(prog, rep)
    rep.rule("R09.9", "leaf test of the walk: no concrete class (incl. one defining __call__) is a leaf, the documented special forms are", floor=1)
    C.leaf_test_agreement(prog, rep, "R09.9")
    leaf_test_object(prog, rep, "R09.9")
    rep.rule("R09.4", "reference inputs delegate to the memoised self; plain inputs = [*itertypes(t)]", floor=4)
    rep.rule("R09.7", "references are named by qualified name and own module (refs.forwardref rules, shared with R11.7)", floor=5)
    rep.rule("R09.6", "termination: revisits of every type with members are cut (shared with R07.6)", floor=1)
    rep.rule("R09.5", "deferred node denotes exactly the type (name and module provenance)", floor=3)
    r09_1_2(prog, rep)
    r09_3(prog, rep)
    r09_4(prog, rep)
    r09_5(prog, rep)
    # termination: the cut covers every type with members (shared with R07.6)
    from ..report import Report as _R, absorb
    from . import c07

    sub = _R("C09", tier)
    sub.rule("R07.6", "", 0)
    c07.r07_6(prog, sub)
    absorb(rep, sub, {"R07.6": "R09.6"})
    from . import c11

    sub = _R("C09", tier)
    sub.rule("R09.7", "", 0)
    c11.r11_7(prog, sub, rule="R09.7")
    absorb(rep, sub, {"R09.7": "R09.7"})
    c11.class_name_not_stripped(prog, rep, "R09.7")
    c11.module_binds_name(prog, rep, "R09.7")
    c11.stack_walk_from_caller(prog, rep, "R09.7")
