"""C03 — unmarshal never returns a value outside the target type (structural necessary conditions)."""

from __future__ import annotations

from .. import oracle
from .. import paths as P
from .. import terms as T
from ..model import Program
from ..report import Report
from . import common as C
from . import composites as K

EXPLANATION = (
    "R03.1 provenance (taint) analysis of every composite unmarshaller: each element/key/value that reaches the output constructor passed "
    "through a member routine the constructor resolved from the type context; structured keys are filtered by membership in the field map. "
    "R03.2 every return of a scalar/temporal unmarshaller is class-guarded on its path (isinstance / __class__ is), freshly constructed from the "
    "target class, or a delegation. R03.3 a zip of routine stack and input is arity-checked. R03.4 Literal returns are dominated by a membership "
    "test on the same value and the fall-through raises ValueError. R03.5 GENERIC_TYPE_MAP yields concrete constructors of the right kind (shared with C17). "
    "R03.6 composite forms reach the routine of their own kind. R03.7 a TypedDict result has its required keys. R03.8 the graph's leaf test routes no "
    "concrete class to the pass-through routine. R03.9 member hints are produced without Annotated[...] wrappers (no predicate looks through one). R03.10 = R15.10."
)
ASSUMPTIONS = [
    "required keys of a total TypedDict are runtime metadata enforced by nothing in the constructor path (ND; dynamic-only observation)",
    "Enum call semantics (value lookup yields declared members) are Python's",
    "values nested under Any / unparameterised containers are passed through by contract",
    "NoOp routines are pass-through by contract for unresolvable types",
]
TRUSTED = oracle.TRUSTED


def composite_unmarshallers(prog: Program):
    out = []
    for c in C.routine_classes(prog, "unmarshal"):
        sl = K.slots_of(prog, c)
        f = C.call_of(prog, c)
        if sl and f is not None:
            out.append((c, sl, f))
    return out


def is_union_like(prog, f) -> bool:
    """The routine serves the union row of a dispatch table, or tries members in a loop and returns the first result
    (no container is built)."""
    if f.cls is not None:
        for d in ("marshal", "unmarshal"):
            for r in C.handlers(prog, d):
                if r.pred_name == "isuniontype" and r.routine is not None and r.routine.qualname == f.cls.qualname:
                    return True
    for p, r in P.returns(P.paths_of(prog, f)):
        a = K.applied_slot(r)
        if a and a[0] == "each":
            return True
    return False


def r03_1(prog: Program, rep: Report, direction="unmarshal", rule="R03.1"):
    n = 0
    for c in C.routine_classes(prog, direction):
        sl = K.slots_of(prog, c)
        f = C.call_of(prog, c)
        if not sl or f is None or f.cls is not c and not sl:
            continue
        if is_union_like(prog, f):
            continue
        for p, r in P.returns(P.paths_of(prog, f)):
            # a validated result variable: follow `result = <expr>` (already substituted by the evaluator)
            shape, leaves, conds = K.output_leaves(r, [g for g, pol in p.guards() if pol])
            n += 1
            if leaves is None:
                rep.violated(rule, c.qualname, f.loc, f"output of the composite routine is not built from converted members: {T.show(r)[:160]}", detail="shape")
                continue
            bad = []
            for role, leaf in leaves:
                a = K.applied_slot(leaf)
                if a is not None and a[1] in sl:
                    comp = K.component_of(a[3])
                    if comp is None:
                        bad.append(f"{role}: routine {a[1]} is applied to {T.show(a[3])[:60]}, not to a component of the input")
                    continue
                comp = K.component_of(leaf)
                if comp is not None:
                    # raw component: allowed only for a structured key filtered by membership in a dict slot
                    filt = any(cd[0] == "cmp" and cd[1] == "in" and cd[2] == leaf and T.self_attr(cd[3]) in sl and sl[T.self_attr(cd[3])].kind == "dict" for cd in conds)
                    if role == "k" and filt:
                        continue
                    bad.append(f"{role}: raw {comp[0]} of the input reaches the output unconverted")
                elif K.derives_from_input(leaf):
                    bad.append(f"{role}: {T.show(leaf)[:70]} derives from the input without passing a member routine")
            rep.check(not bad, rule, c.qualname, f.loc, f"{shape}: every member reaching the output is converted by a context-resolved routine", f"{shape}: " + "; ".join(bad), detail="members")
    return n


def target_guard(guards, x) -> bool:
    """Is `x` proven to be an instance of self.t by a guard on this path?"""
    for g, pol in guards:
        if not pol:
            continue
        if T.is_call_to(g, "builtins.isinstance") and len(g[2]) == 2 and g[2][0] == x and g[2][1] in (C.sattr("t"), C.sattr("origin")):
            return True
        if g[0] == "cmp" and g[1] in ("is", "==") and g[2] == ("attr", x, "__class__") and g[3] in (C.sattr("t"), C.sattr("origin")):
            return True
        if g[0] == "cmp" and g[1] in ("is", "==") and T.is_call_to(g[2], "builtins.type") and g[2][2] == (x,) and g[3] in (C.sattr("t"), C.sattr("origin")):
            return True
    return False


CTOR_ROOTS = (C.sattr("t"), C.sattr("origin"), C.sattr("caster"))


def constructed(term) -> bool:
    """self.t(...) / self.t.now(...).replace(...) / re.compile(...)"""
    if term[0] != "call":
        return False
    f = term[1]
    if f in CTOR_ROOTS:
        return True
    if T.refname(f) == "re.compile":
        return True
    if f[0] == "attr":
        base = f[1]
        if base in CTOR_ROOTS and f[2] in ("now", "fromtimestamp", "fromisoformat", "utcfromtimestamp", "today", "fromordinal", "combine"):
            return True
        if f[2] in ("replace", "astimezone") and constructed(base):
            return True
    return False


def r03_2(prog: Program, rep: Report):
    n = 0
    for c in C.routine_classes(prog, "unmarshal"):
        f = C.call_of(prog, c)
        if f is None or f.cls is not c:
            continue
        if K.slots_of(prog, c):
            continue
        if c.name.startswith("NoOp"):
            rep.held("R03.2", c.qualname, f.loc, "pass-through routine for unresolvable types (by contract)", nontrivial=False)
            continue
        seen = set()
        def _alts(tm, conds=()):
            if tm[0] == "ifexp":
                return _alts(tm[2], conds + ((tm[1], True),)) + _alts(tm[3], conds + ((tm[1], False),))
            return [(tm, conds)]

        def _judge(p, r, extra=()):
            gs = list(p.guards()) + list(extra)
            if constructed(r):
                return True, "constructed from the target class"
            if target_guard(gs, r):
                return True, "class-guarded on this path"
            if r == ("const", None) and any(g[0] == "cmp" and g[3] == ("const", None) for g, _ in gs):
                return True, "None after a None test"
            if r[0] == "call" and r[1] == C.sattr("resolved"):
                return True, "delegation to the resolved routine"
            if r[0] == "call" and r[1][0] == "attr" and r[1][2] == "__call__" and T.is_call_to(r[1][1], "builtins.super"):
                return True, "delegation to the parent routine (checked on its own)"
            if any(pol and g[0] == "cmp" and g[1] == "in" and g[2] == r and g[3] == C.sattr("values") for g, pol in gs):
                return True, "member of the literal's values"
            return False, ""

        # (private helper methods are read in place)
        for p, r in P.returns(P.spaths(prog, f, cls=c)):
            key = T.show(r)[:120]
            ok, why = _judge(p, r)
            if not ok and r[0] == "ifexp":
                # a returned conditional expression is each of its arms under its test
                verdicts = [_judge(p, a, ex) for a, ex in _alts(r)]
                if all(v for v, _ in verdicts):
                    ok, why = True, "each arm: " + "; ".join(sorted({w for _, w in verdicts}))
            if (key, ok) in seen:
                continue
            seen.add((key, ok))
            n += 1
            rep.check(ok, "R03.2", c.qualname, f.loc, f"return {key[:70]}: {why}", f"return {key} is neither class-guarded on its path, nor constructed from the target class, nor a delegation", detail=f"ret#{len(seen)}")
    return n


def r03_3(prog: Program, rep: Report):
    n = 0
    for c in C.routine_classes(prog, "unmarshal"):
        sl = K.slots_of(prog, c)
        f = C.call_of(prog, c)
        if f is None or not sl:
            continue
        ps = P.paths_of(prog, f)
        zips = []
        for p, r in P.returns(ps):
            for s in T.walk(r):
                if T.is_call_to(s, "builtins.zip") and any(T.self_attr(a) in sl for a in s[2]):
                    zips.append((p, r, s))
        if not zips:
            continue
        n += 1
        ok_all = True
        why = ""
        for p, r, z in zips:
            strict = dict(z[3]).get("strict") == ("const", True)
            if strict:
                continue
            guarded = False
            for g, pol in p.guards():
                lens = [s for s in T.walk(g) if T.is_call_to(s, "builtins.len")]
                if g[0] == "cmp" and g[1] in ("==", "!=") and len(lens) >= 2:
                    sides = {lens[0][2][0], lens[1][2][0]}
                    has_result = r in sides
                    has_stack = any(T.self_attr(x) in sl or T.self_attr(x) == "stack" for x in sides)
                    consistent = (g[1] == "==") == pol
                    if has_result and has_stack and consistent:
                        guarded = True
            if guarded:
                # the other branch must raise
                raises = any(q.exit[0] == "raise" for q in ps)
                guarded = raises
            if not guarded:
                ok_all = False
                why = "zip() of the routine stack with the input silently truncates to the shorter side; the result is not arity-checked (tuple[int, str] from [1] yields (1,))"
        rep.check(ok_all, "R03.3", c.qualname, f.loc, "fixed-tuple result is arity-checked (strict zip or a length test that raises)", why, detail="arity")
    return n


def r03_4(prog: Program, rep: Report, direction="unmarshal", rule="R03.4"):
    rows = C.handlers(prog, direction)
    lit = [r for r in rows if r.pred_name == "isliteral" and r.routine]
    if not lit:
        rep.violated(rule, f"{C.DIRS[direction][0]}._HANDLERS", rows[0].loc, "no Literal row in the dispatch table", detail="row")
        return
    c = lit[0].routine
    f = C.call_of(prog, c)
    ps = P.paths_of(prog, f)
    rets = P.returns(ps)
    for i, (p, r) in enumerate(rets):
        ok = any(pol and g[0] == "cmp" and g[1] == "in" and g[2] == r and g[3] == C.sattr("values") for g, pol in p.guards())
        rep.check(ok, rule, c.qualname, f.loc, f"return {T.show(r)[:50]} is dominated by a membership test on the same value", f"return {T.show(r)[:80]} is not dominated by `<that value> in self.values`", detail=f"ret#{i}")
    # `x in self.values` is identity-or-equality: True == 1 == 1.0 == Decimal(1), so a value of another class than the
    # declared member passes and is handed back.  A class-aware test (same class, or the declared member returned) is needed.
    eq_only = []
    for i, (p, r) in enumerate(rets):
        for g, pol in p.guards():
            if pol and g[0] == "cmp" and g[1] == "in" and g[2] == r and g[3] == C.sattr("values"):
                class_aware = any(T.contains(g2, lambda x: (x[0] == "attr" and x[2] == "__class__") or T.is_call_to(x, "builtins.type", "builtins.isinstance")) for g2, _ in p.guards())
                if not class_aware:
                    eq_only.append(i)
    rep.check(not eq_only, rule, c.qualname, f.loc, "membership is class-aware (or the declared member is what is returned)", "membership is tested with `in` alone (identity or ==) and the input object is returned: True, 1.0 and Decimal(1) pass for Literal[1] and come back unchanged; 1 passes for Literal[True]", detail="equality-membership")
    falls = [p for p in ps if p.exit[0] != "return"]
    okf = bool(falls) and all(p.exit[0] == "raise" and T.is_call_to(p.exit[1], "builtins.ValueError") for p in falls)
    rep.check(okf, rule, c.qualname, f.loc, "every non-member path raises ValueError", "a non-member path does not end in raise ValueError", detail="reject")
    vals = C.init_attrs(prog, c).get("values", [])
    okv = bool(vals) and all(K.is_args_call(v) for v in vals)
    rep.check(okv, rule, c.qualname, f.loc, "self.values are the Literal's own arguments", "self.values is not inspection.args(t)", detail="values")


def r03_7(prog, rep):
    """The structured routine builds a TypedDict with plain dict(**kwargs): nothing enforces the required keys unless the
    routine compares what it collected with `__required_keys__` (dataclasses and named tuples raise by themselves)."""
    fb = C.fallback_routine(prog, "unmarshal")
    if fb is None:
        rep.undecided("R03.7", "unmarshal:fallback", "", "structured routine not found")
        return
    f = C.call_of(prog, fb)
    raw_req = lambda x: x == ("const", "__required_keys__") or (x[0] == "attr" and x[2] == "__required_keys__")  # noqa: E731
    # package helpers that read the runtime's __required_keys__ (the routine may go through one)
    readers = {}
    for q, g in prog.functions.items():
        if g.cls is None and q.startswith(f"{C.INSP}."):
            try:
                gps = P.paths_of(prog, g)
            except Exception:
                continue
            if any(T.contains(tm, raw_req) for pth in gps for tm in pth.all_terms()):
                # (with the private helpers it calls read in place: the evaluated hints / the peeling of Annotated may live there)
                readers[q] = P.spaths(prog, g)
    has_req = lambda x: raw_req(x) or (x[0] == "call" and T.refname(x[1]) in readers)  # noqa: E731
    enforced = False
    sites = []
    for c in prog.mro(fb):
        for m in c.methods.values():
            mps = P.paths_of(prog, m)
            for pth in mps:
                for tm in pth.all_terms():
                    if T.contains(tm, has_req):
                        enforced = True
                        if T.contains(tm, raw_req):
                            sites.append((m.qualname, mps))
                        for x in T.walk(tm):
                            if x[0] == "call" and T.refname(x[1]) in readers:
                                sites.append((T.refname(x[1]), readers[T.refname(x[1])]))
    # ... and the comparison has a consequence: some method of the routine raises under a test over the required keys
    raises = any(pth.exit[0] == "raise" and any(T.contains(g, has_req) for g, _ in pth.guards()) for c in prog.mro(fb) for m in c.methods.values() for pth in P.paths_of(prog, m))
    # the outcome is decided by the required-keys test alone: no path returns under the very test outcome that raises
    ps = P.paths_of(prog, f)
    on_raise = {(g, pol) for pth in ps if pth.exit[0] == "raise" for g, pol in pth.guards() if T.contains(g, has_req)}
    leaks = [pth for pth in ps if pth.exit[0] == "return" and not any((g, not pol) in on_raise for g, pol in pth.guards() if T.contains(g, has_req))]
    if on_raise:
        rep.check(not leaks, "R03.7", fb.qualname, f.loc, "a value with required keys missing never reaches the constructor (the required-keys test alone decides)", "a path builds the TypedDict although the required-keys test found keys missing: a further condition (e.g. __total__, which only describes the keys of the last class statement) lets a TypedDict without its required keys through", detail="typeddict-required-unconditional")
    # the runtime computes __required_keys__ from the annotations *as written*: a NotRequired[...] / Required[...] inside a string
    # annotation (from __future__ import annotations, or a quoted recursive member) is invisible to it.  Whoever reads the
    # attribute must correct it from the evaluated hints (get_type_hints(..., include_extras=True)).
    if sites:
        def corrected(gps):
            hints = any(T.contains(tm, lambda x: T.is_call_to(x, "typing.get_type_hints") and dict(x[3]).get("include_extras") == ("const", True)) for pth in gps for tm in pth.all_terms())
            marker = any(T.contains(tm, lambda x: T.refname(x) in ("typing.NotRequired", "typing_extensions.NotRequired")) for pth in gps for tm in pth.all_terms())
            return hints and marker
        ok_eval = all(corrected(gps) for _q, gps in sites)
        # with include_extras the hint of `id: Annotated[Required[int], "pk"]` is the Annotated form: the marker sits beneath it
        beneath = all(any(T.contains(tm, lambda x: T.refname(x) in ("typing.Annotated", "typing_extensions.Annotated")) for pth in gps for tm in pth.all_terms()) for _q, gps in sites if corrected(gps))
        rep.check(beneath, "R03.7", sorted({q for q, _ in sites})[0], f.loc, "the Required / NotRequired marker is looked for beneath Annotated[...]", "the marker is read off the outermost origin of the evaluated hint: for `id: Annotated[Required[int], 'pk']` in a string annotation (PEP 563) that origin is Annotated, the marker is missed and the stale runtime __required_keys__ is kept -- unmarshal(Patch, {'note': 'x'}) returns a Patch without its required `id`", detail="typeddict-required-annotated")
        where = sorted({q for q, _ in sites})[0]
        rep.check(ok_eval, "R03.7", where, f.loc, "the required keys are corrected from the evaluated hints (NotRequired / Required written in string annotations)", "the required keys are taken from the runtime's __required_keys__ as they are: under `from __future__ import annotations` (or for a quoted member) the runtime cannot see NotRequired[...], lists the key as required, and a valid value that omits it is rejected -- unmarshal(Movie, {'title': 'Alien'}) raises 'missing required keys: [year]' for `year: NotRequired[int]`", detail="typeddict-required-evaluated")
    # the correction itself, in whoever performs it: a key is *removed* where its marker is NotRequired and *added* where it is
    # Required (never the other way round, never under the negated test); Annotated is peeled at its first argument; and the
    # correction is not skipped for TypedDicts
    for q_, gps in dict(sites).items():
        if not any(T.contains(tm, lambda x: T.refname(x) in ("typing.NotRequired", "typing_extensions.NotRequired")) for pth in gps for tm in pth.all_terms()):
            continue
        NR = ("typing.NotRequired", "typing_extensions.NotRequired")
        RQ = ("typing.Required", "typing_extensions.Required")
        is_marker = lambda a, names: a[0] == "cmp" and a[1] in ("is", "==") and any(T.refname(x) in names for x in a[2:4])  # noqa: E731
        wrong = []
        for pth in gps:
            atoms = T.derive_atoms(pth.guards())
            nr = [val for a, val in atoms if is_marker(a, NR)]
            rq = [val for a, val in atoms if is_marker(a, RQ)]
            for e in pth.events:
                if e[0] == "eval" and e[1][0] == "call" and e[1][1][0] == "attr" and e[1][2]:
                    m = e[1][1][2]
                    if m in ("discard", "remove") and not (nr and nr[-1]):
                        wrong.append("a key is removed on a path where its marker is not known to be NotRequired")
                    if m == "add" and not (rq and rq[-1]):
                        wrong.append("a key is added on a path where its marker is not known to be Required")
            # set algebra: keys -= {… if m is NotRequired} / keys |= {… if m is Required}: every comprehension selected by a marker
            # is found with the sign under which it enters the result
            signed = []

            def collect(tm, added):
                if tm[0] == "binop" and tm[1] in ("-", "-="):
                    collect(tm[2], added)
                    collect(tm[3], not added)
                elif tm[0] == "binop" and tm[1] in ("|", "|="):
                    collect(tm[2], added)
                    collect(tm[3], added)
                elif tm[0] == "call" and T.refname(tm[1]) in ("builtins.frozenset", "builtins.set") and len(tm[2]) == 1:
                    collect(tm[2][0], added)
                elif tm[0] == "comp" and tm[4]:
                    signed.append((tm, added))

            if pth.exit[0] == "return":
                collect(pth.exit[1], True)
            for c, added in signed:
                flat = []
                for cd in c[4]:
                    flat += list(cd[2]) if cd[0] == "boolop" and cd[1] == "and" else [cd]
                pos_nr = any(is_marker(cd, NR) for cd in flat)
                pos_rq = any(is_marker(cd, RQ) for cd in flat)
                neg = any(cd[0] == "not" and (is_marker(cd[1], NR) or is_marker(cd[1], RQ)) for cd in flat) or any(cd[0] == "cmp" and cd[1] in ("isnot", "!=") and any(T.refname(y) in NR + RQ for y in cd[2:4]) for cd in flat)
                if neg:
                    wrong.append("the keys are selected by a *negated* marker test")
                if pos_rq and not pos_nr and not added:
                    wrong.append("the Required keys are subtracted")
                if pos_nr and not pos_rq and added:
                    wrong.append("the NotRequired keys are added")
            for tm in pth.all_terms():
                for x in T.walk(tm):
                    if x[0] == "sub" and T.is_call_to(x[1], "typing.get_args") and x[2][0] == "const" and x[2][1] != 0 and any(T.contains(g, lambda y: T.refname(y) in ("typing.Annotated", "typing_extensions.Annotated")) for g, _ in pth.guards()):
                        wrong.append(f"Annotated[...] is peeled at argument {x[2][1]} (the metadata), not at its first argument (the type)")
            # a TypedDict never leaves without the correction
            if pth.exit[0] == "return" and any(val and T.is_call_to(a, f"{C.INSP}.istypeddict") for a, val in atoms) and not any(T.contains(tm, lambda x: T.is_call_to(x, "typing.get_type_hints")) for tm in pth.all_terms()) and not any(e[0] in ("caught", "suppressed") for e in pth.events):
                wrong.append("a TypedDict is answered from the runtime's __required_keys__ without the correction")
        rep.check(not wrong, "R03.7", q_, f.loc, "a key is removed exactly where its marker is NotRequired and added exactly where it is Required", f"the correction of the required keys is wrong: {sorted(set(wrong))[:2]} -- under string annotations a NotRequired key is demanded or a Required one is not: unmarshal(Movie, {{'title': 'Alien'}}) raises for `year: NotRequired[int]`, or returns a Movie without a Required key", detail="typeddict-required-markers")
    # a parameterised generic TypedDict (`Page[int]`) is an alias object: it forwards no dunder attribute of the class.  Whoever
    # reads a TypedDict dunder (__required_keys__, __total__, __optional_keys__) reads it from the origin class
    DUNDERS = ("__required_keys__", "__total__", "__optional_keys__")
    raw_reads = []
    bare_origin = []
    n_reads = 0
    for q, g in prog.functions.items():
        if not q.startswith(f"{C.INSP}.") or g.cls is not None:
            continue
        try:
            gps = P.paths_of(prog, g)
        except Exception:
            continue
        params = {("param", n) for n in g.params}
        for pth in gps:
            # the statement form of `get_origin(x) or x`: on a path where get_origin(x) was tested, the branch decides which
            # of the two is read (falsy / None: the class itself; truthy: the origin)
            no_origin, has_origin = set(), set()
            for gd, val in pth.guards():
                subj, holds = gd, val
                if gd[0] == "cmp" and gd[1] in ("is", "==") and gd[3] == ("const", None):
                    subj, holds = gd[2], not val
                if T.is_call_to(subj, "typing.get_origin") and subj[2]:
                    (has_origin if holds else no_origin).add(subj[2][0])
            for tm in pth.all_terms():
                for x in T.walk(tm):
                    subject = None
                    if T.is_call_to(x, "builtins.getattr") and len(x[2]) >= 2 and x[2][1][0] == "const" and x[2][1][1] in DUNDERS:
                        subject = x[2][0]
                    elif x[0] == "attr" and x[2] in DUNDERS:
                        subject = x[1]
                    if subject is None:
                        continue
                    n_reads += 1
                    if subject in params and subject not in no_origin:
                        raw_reads.append(f"{g.name}: {T.show(x)[:50]}")
                    # typing.get_origin() of a class that is no alias is None: read without the `or obj` fallback, every
                    # plain TypedDict answers from None (no required keys, total)
                    if T.is_call_to(subject, "typing.get_origin") and subject[2] and subject[2][0] in params and subject[2][0] not in has_origin:
                        bare_origin.append(f"{g.name}: {T.show(x)[:60]}")
    if n_reads:
        rep.check(not raw_reads, "R03.7", f"{C.INSP}", "", f"{n_reads} read(s) of a TypedDict dunder attribute go through the origin class", f"a TypedDict dunder is read from the annotation as given ({sorted(set(raw_reads))[:2]}): a parameterised generic TypedDict is an alias that forwards no dunder attribute, so Page[int] has no required keys (and is taken for total) -- unmarshal(Page[int], {{}}) returns {{}} where unmarshal(Page, {{}}) raises 'missing required keys'", detail="typeddict-dunder-of-alias")
    if n_reads:
        rep.check(not bare_origin, "R03.7", f"{C.INSP}", "", "the origin class is `get_origin(x) or x`: a class that is no alias is read itself", f"a TypedDict dunder is read from typing.get_origin(x) alone ({sorted(set(bare_origin))[:2]}): for a TypedDict class that is not parameterised get_origin() is None, the attribute is read off None, and no key is required -- unmarshal(Movie, {{}}) == {{}}", detail="typeddict-dunder-origin-or-self")
    rep.check(enforced and raises, "R03.7", fb.qualname, f.loc, "required TypedDict keys are checked before the mapping is built", "the structured routine never consults __required_keys__ (or nothing is raised when keys are missing): for a TypedDict target, dict(**kwargs) accepts any subset of the fields — unmarshal(Movie, {}) == {} although `title` and `year` are required (dataclasses and named tuples reject the same input)", detail="typeddict-required")


def run(prog: Program, rep: Report, tier: str):
    rep.rule("R03.1", "no raw member reaches the output of a composite unmarshaller", floor=5)
    rep.rule("R03.2", "scalar/temporal returns are class-guarded, constructed, or delegated", floor=25)
    rep.rule("R03.3", "fixed-tuple arity", floor=1)
    rep.rule("R03.4", "Literal membership dominates every return and is class-aware; fall-through raises ValueError", floor=5)
    rep.rule("R03.7", "a TypedDict result has its required keys", floor=1)
    r03_7(prog, rep)
    rep.rule("R03.9", "member hints carry no Annotated wrapper (shared with R18.11)", floor=1)
    from . import c11

    c11.hints_stripped(prog, rep, "R03.9")
    rep.rule("R03.10", "members of a parameterised user generic get the alias's arguments in the member's own parameter order (shared with R15.10)", floor=1)
    from . import c15

    c15.alias_substitution(prog, rep, "R03.10")
    c15.string_annotation_parameters(prog, rep, "R03.10")
    rep.rule("R03.8", "no concrete class is routed to the pass-through routine (leaf test interpreted on the catalogue; shared with R09.9)", floor=1)
    C.leaf_test_agreement(prog, rep, "R03.8")
    rep.rule("R03.6", "composite forms reach the routine of their own structural kind (fixed tuples keep arity/positions; shared with R01.6)", floor=15)
    rep.rule("R03.5", "origin map yields concrete constructors of the mapped kind (shared with R17.1)", floor=18)
    r03_1(prog, rep)
    r03_2(prog, rep)
    r03_3(prog, rep)
    r03_4(prog, rep)
    from . import c17

    c17.origin_map_kinds(prog, rep, rule="R03.5")
    from ..report import Report as _R, absorb
    from . import c01

    sub = _R("C03", tier)
    sub.rule("R01.6", "", 0)
    pe = C.PredEval(prog)
    c01.r01_6(prog, sub, C.handlers(prog, "marshal"), C.handlers(prog, "unmarshal"), pe)
    absorb(rep, sub, {"R01.6": "R03.6"})
