"""C16 — type-context lookups see through aliases and references."""

from __future__ import annotations

from .. import oracle
from .. import paths as P
from .. import terms as T
from ..model import Program
from ..report import Report

EXPLANATION = (
    "The class is a 20-line dict subclass; its behaviour is fixed by structural facts plus dict, unwrap and forwardref (checked under C11). "
    "R16.1 in __missing__ the lookup under the unwrapped key dominates the forward-reference lookup. R16.2 a KeyError raise guarded by "
    "isinstance(key, ForwardRef) dominates every self[<fresh forward ref>] (no unbounded recursion on a miss). R16.3 get() wraps self[key] in a handler "
    "covering KeyError, returns the hit from inside it and the default on the miss path. R16.4 the only store is self[key] = <value read from self under the "
    "unwrapped key>, under the queried key; no other mutation. R16.5 the class derives from dict and defines no other lookup hooks that could shadow stored keys."
)
ASSUMPTIONS = [
    "agreement with the reference model over operation sequences is a history statement (ND)",
    "dict.__getitem__ calls __missing__ only for absent keys (Python)",
    "inspection.unwrap and refs.forwardref behave as checked under C11",
]
TRUSTED = oracle.TRUSTED
MOD = "typelib.ctx"
KEY = ("param", "key")
SELF = ("param", "self")
UNWRAP = ("call", ("ref", "typelib.py.inspection.unwrap"), (KEY,), ())


def run(prog: Program, rep: Report, tier: str):
    rep.rule("R16.1", "unwrapped lookup before the forward-reference lookup", floor=1)
    rep.rule("R16.2", "ForwardRef miss raises KeyError before any recursive lookup", floor=2)
    rep.rule("R16.3", "get(): KeyError-covering handler, hit returned, default on miss", floor=3)
    rep.rule("R16.4", "memo write only of the looked-up value under the queried key; no other mutation", floor=2)
    rep.rule("R16.5", "dict subclass without shadowing hooks", floor=2)
    rep.rule("R16.6", "the forward reference built for a key names that key (refs.forwardref rules, shared with R11.7)", floor=5)
    rep.rule("R16.8", "the forward reference consulted last is built from the queried key itself", floor=1)
    rep.rule("R16.7", "the unwrapped form of a key is what the graph registered (unwrap rules, shared with R11.1)", floor=13)
    cls = prog.cls(f"{MOD}.TypeContext")
    miss = cls.methods.get("__missing__")
    if miss is None:
        rep.violated("R16.1", cls.qualname, cls.loc, "TypeContext has no __missing__: lookups do not see through aliases or references")
        return
    ps = P.splice_helpers(prog, P.paths_of(prog, miss), cls=cls)
    q = miss.qualname
    # (private methods which only the lookup hook calls are part of it: their events are spliced in above)
    import ast as _ast

    def _self_calls(fn):
        return {n.func.attr for n in _ast.walk(fn.node) if isinstance(n, _ast.Call) and isinstance(n.func, _ast.Attribute) and isinstance(n.func.value, _ast.Name) and n.func.value.id == "self"}

    hook_helpers = {n for n in _self_calls(miss) if n.startswith("_") and not n.startswith("__") and n in cls.methods}
    hook_helpers -= {n for name, m in cls.methods.items() if name != "__missing__" and name not in hook_helpers for n in _self_calls(m)}
    # R16.2
    fr_raise = [p for p in ps if p.exit[0] == "raise" and T.is_call_to(p.exit[1], "builtins.KeyError") and any(pol and T.is_call_to(g, "builtins.isinstance") and g[2] == (KEY, ("ref", "typing.ForwardRef")) for g, pol in p.guards())]
    rep.check(bool(fr_raise), "R16.2", q, miss.loc, "a missed ForwardRef key raises KeyError", "a missed ForwardRef key does not raise KeyError", detail="raise")
    rec_ok = True
    fr_lookup_paths = []
    for p in ps:
        subs = [s for tm in p.all_terms() for s in T.walk(tm) if s[0] == "sub" and s[1] == SELF]
        for s in subs:
            if T.contains(s[2], lambda x: T.is_call_to(x, "typelib.py.refs.forwardref")):
                fr_lookup_paths.append(p)
                guarded = any((not pol) and T.is_call_to(g, "builtins.isinstance") and g[2] == (KEY, ("ref", "typing.ForwardRef")) for g, pol in p.guards())
                if not guarded:
                    rec_ok = False
    rep.check(rec_ok and bool(fr_lookup_paths), "R16.2", q, miss.loc, "self[forwardref(key)] is reached only when key is not itself a ForwardRef", "self[forwardref(key)] can be reached with a ForwardRef key: a missing key recurses without bound (get() does not suppress RecursionError)", detail="recursion-guard")
    # R16.1
    ok_order = bool(fr_lookup_paths)
    for p in fr_lookup_paths:
        tried = any((not pol) and g == ("cmp", "in", UNWRAP, SELF) for g, pol in p.guards())
        if not tried:
            ok_order = False
    hit_paths = [p for p in ps if p.exit[0] == "return" and p.exit[1] == ("sub", SELF, UNWRAP)]
    ok_order = ok_order and bool(hit_paths) and all(any(pol and g == ("cmp", "in", UNWRAP, SELF) for g, pol in p.guards()) for p in hit_paths)
    rep.check(ok_order, "R16.1", q, miss.loc, "the unwrapped key is tried (and returned on a hit) before the forward reference", "the forward-reference lookup is not dominated by a failed lookup under the unwrapped key (or the unwrapped hit is not returned)", detail="order")
    # R16.8: the reference tried last is the one that names the *queried* key (a reference built from the unwrapped form names
    # another type: what is stored under the reference to an alias is then missed, what is stored under the reference to its
    # target is handed out for the alias), and the miss path returns exactly what is stored under that reference
    named = []
    for p in fr_lookup_paths:
        for tm in p.all_terms():
            for s_ in T.walk(tm):
                if T.is_call_to(s_, "typelib.py.refs.forwardref"):
                    named.append(bool(s_[2]) and s_[2][0] == KEY)
    ret_ok = all(p.exit[0] != "return" or (p.exit[1][0] == "sub" and p.exit[1][1] == SELF and T.is_call_to(p.exit[1][2], "typelib.py.refs.forwardref")) or p.exit[1] == ("sub", SELF, UNWRAP) for p in fr_lookup_paths)
    rep.check(bool(named) and all(named) and ret_ok, "R16.8", q, miss.loc, "the last resort is self[forwardref(key)]: the reference that names the queried key itself", "the fallback reference is not built from the queried key (or its value is not what the miss returns): a value stored under the reference naming an alias is no longer found for it, and one stored under the reference to the alias's target answers for the alias", detail="reference-names-key")
    # R16.4
    stores = [(p, e) for p in ps for e in p.events if e[0] == "setitem" and e[1] == SELF]
    ok_store = all(e[2] == KEY and e[3] == ("sub", SELF, UNWRAP) for p, e in stores)
    rep.check(ok_store, "R16.4", q, miss.loc, "the memo write stores the value found under the unwrapped key, under the queried key" if stores else "no memo write (unobservable by contract)", "a store in __missing__ writes another key or another value than the one just looked up", detail="memo")
    other = []
    for name, m in cls.methods.items():
        for p in P.paths_of(prog, m):
            for e in p.events:
                if e[0] in ("delete",) or (e[0] == "setitem" and e[1] == SELF and name != "__missing__" and name not in hook_helpers) or (e[0] == "setattr" and e[1] == SELF):
                    other.append(f"{name}: {e[0]}")
            for c in p.calls():
                if c[1][0] == "attr" and c[1][1] == SELF and c[1][2] in ("pop", "popitem", "clear", "update", "setdefault", "__delitem__", "__setitem__"):
                    other.append(f"{name}: self.{c[1][2]}()")
    rep.check(not other, "R16.4", cls.qualname, cls.loc, "no other mutation of the mapping by lookups", f"lookups mutate the mapping: {other[:3]}", detail="no-other-mutation")
    # R16.3
    g = cls.methods.get("get")
    if g is None:
        rep.held("R16.3", cls.qualname, cls.loc, "get() inherited from dict would bypass __missing__", nontrivial=False)
        rep.violated("R16.3", cls.qualname, cls.loc, "TypeContext.get is not defined: dict.get does not consult __missing__, so aliases are invisible to get()", detail="defined")
    else:
        gps = P.paths_of(prog, g)
        dflt = ("param", g.params[2]) if len(g.params) > 2 else None
        hit = any(p.exit[0] == "return" and p.exit[1] == ("sub", SELF, KEY) for p in gps)
        rep.check(hit, "R16.3", g.qualname, g.loc, "a hit returns self[key]", "get() does not return self[key] on a hit", detail="hit")
        miss_paths = [p for p in gps if p.exit[0] == "return" and p.exit[1] != ("sub", SELF, KEY)]
        covers = False
        for p in miss_paths:
            for e in p.events:
                if e[0] == "suppressed":
                    names = [T.refname(a) or "" for a in e[1][2]]
                    covers = covers or oracle.exc_covered("builtins.KeyError", names)
                if e[0] == "caught":
                    names = [T.refname(x) or "" for x in (e[1][1] if e[1][0] == "tuple" else (e[1],))]
                    covers = covers or oracle.exc_covered("builtins.KeyError", names)
        rep.check(covers, "R16.3", g.qualname, g.loc, "the lookup runs under a handler that covers KeyError", "KeyError from the lookup escapes get()", detail="handler")
        rep.check(bool(miss_paths) and all(p.exit[1] == dflt for p in miss_paths), "R16.3", g.qualname, g.loc, "a miss returns the default", "a miss does not return the caller's default", detail="default")
    from ..report import Report as _R, absorb
    from . import c11

    sub = _R("C16", tier)
    sub.rule("R16.6", "", 0)
    c11.r11_7(prog, sub, rule="R16.6")
    absorb(rep, sub, {"R16.6": "R16.6"})
    sub = _R("C16", tier)
    sub.rule("R11.1", "", 0)
    c11.r11_1(prog, sub)
    absorb(rep, sub, {"R11.1": "R16.7"})
    # R16.5
    bases = prog.external_bases(cls)
    rep.check("builtins.dict" in bases, "R16.5", cls.qualname, cls.loc, "TypeContext is a dict", f"TypeContext is not a dict subclass (bases {bases})", detail="dict")
    shadow = sorted(set(cls.methods) & {"__getitem__", "__contains__", "__setitem__", "keys", "__iter__", "__delitem__", "__getattribute__"})
    rep.check(not shadow, "R16.5", cls.qualname, cls.loc, "no hook shadows dict's own lookup of stored keys", f"methods {shadow} replace dict's lookup: stored keys may not be found under themselves", detail="no-shadow")
