"""C07 — recursive and mutually recursive types work at every depth (structural necessary conditions)."""

from __future__ import annotations

from .. import oracle
from .. import paths as P
from .. import terms as T
from ..model import Program
from ..report import Report
from . import c03, c09
from . import common as C
from . import effects as E

EXPLANATION = (
    "R07.1 worklist discipline of graph.get_type_graph: a node is pushed only on a path that also records it as visited, and never on the revisit-and-can-be-"
    "cyclic branch, so every node that can have children is expanded at most once (termination for a finite type graph). R07.2 forward references "
    "dispatch to the lazy proxy first in both tables. R07.3 no constructor of a routine and no dispatch helper can reach the memoised factories "
    "(functools.cache stores nothing until the outer call returns, so such a path would recurse forever on a cycle). R07.4 the proxy resolves through the "
    "same-direction factory with its own type, stores the result and delegates every call to it. R07.5 every level is converted: the composite routines "
    "pass no member through raw (taint rule of C03, both directions)."
)
ASSUMPTIONS = [
    "correctness at depth d on values and recursion-limit behaviour are runtime statements (ND)",
    "finitely many distinct annotations are reachable from a type",
    "root-dependent failures for a parameterised generic root are recorded under C09 (known finding)",
]
TRUSTED = oracle.TRUSTED
GRAPH = "typelib.graph"


def r07_1(prog: Program, rep: Report):
    f, ps = c09.graph_paths(prog)
    q = f.qualname
    pushes = 0
    ok_visit = ok_excl = True
    for p in ps:
        in_iter = False
        for i, e in enumerate(p.events):
            if e[0] == "while" and e[2] == 1:
                in_iter = True
            if not in_iter or e[0] != "eval":
                continue
            c = e[1]
            if c[0] == "call" and c[1][0] == "attr" and c[1][2] in ("append", "appendleft", "extend") and T.is_call_to(c[1][1], "collections.deque"):
                pushes += 1
                node = c[2][0]
                # visited.add(node.type) on the same path
                added = False
                for e2 in p.events:
                    if e2[0] == "eval" and e2[1][0] == "call" and e2[1][1][0] == "attr" and e2[1][1][2] == "add" and e2[1][1][1][0] == "set":
                        a = e2[1][2][0]
                        if a == ("attr", node, "type") or (c09._is_typenode(node) and a == c09.node_args(node).get("type")):
                            added = True
                if not added:
                    ok_visit = False
                # not on the revisit ∧ can-be-cyclic branch
                gs = p.guards(i)
                revisit_true = any(pol and g[0] == "boolop" and g[1] == "or" and all(x[0] == "cmp" and x[1] == "in" for x in g[2]) for g, pol in gs)
                cyc_true = any(pol and T.contains(g, lambda s: T.is_call_to(s, f"{C.INSP}.issubscriptedgeneric")) for g, pol in gs)
                if revisit_true and cyc_true:
                    ok_excl = False
    rep.check(pushes > 0 and ok_visit, "R07.1", q, f.loc, "every push onto the worklist is paired with recording the node as visited", "a node is pushed onto the worklist without being recorded in `visited`: a cycle through it is expanded again and again", detail="push-visited")
    rep.check(pushes > 0 and ok_excl, "R07.1", q, f.loc, "a revisited node that can be cyclic is never pushed again", "a revisited, possibly cyclic node is pushed again: the walk does not terminate on a cycle", detail="no-repush")
    # the loop consumes the worklist
    pops = any(c[1][0] == "attr" and c[1][2] in ("popleft", "pop") and T.is_call_to(c[1][1], "collections.deque") for p in ps for c in p.calls())
    rep.check(pops, "R07.1", q, f.loc, "each iteration removes one node from the worklist", "the worklist is never popped", detail="pop")
    # root is recorded as visited before the loop
    root_visited = False
    for p in ps:
        for e in p.events:
            if e[0] == "assign" and e[2][0] == "set" and e[2][1] and any(x[0] == "attr" and x[2] == "type" for x in e[2][1]):
                root_visited = True
    rep.check(root_visited, "R07.1", q, f.loc, "the root is recorded as visited before the walk starts", "the root type is not in `visited` initially: a self-referential root is expanded twice", detail="root-visited")


def r07_6(prog: Program, rep: Report):
    """The cut must cover every type that has members: a revisited type that is declared terminal ("cannot be cyclic")
    yet has type arguments or field hints is pushed again and expanded forever."""
    f, ps = c09.graph_paths(prog)
    q = f.qualname
    pe = C.PredEval(prog)
    cut_paths = []
    for p in ps:
        for tm in p.all_terms():
            if any(c09._is_typenode(s) and c09.node_args(s).get("cyclic") == ("const", True) for s in T.walk(tm)):
                cut_paths.append(p)
                break
    if not cut_paths:
        rep.undecided("R07.6", q, f.loc, "cut branch not found")
        return
    is_cap = lambda g: not T.contains(g, lambda s: s[0] == "set") and T.contains(g, lambda s: T.is_call_to(s, f"{C.INSP}.issubscriptedgeneric", f"{C.INSP}.isstdlibtype", f"{C.INSP}.isstdlibsubtype", f"{C.INSP}.isstructuredtype", f"{C.INSP}.isbuiltintype") and s[2] and T.is_call_to(s[2][0], f"{C.INSP}.unwrap"))  # noqa: E731
    # every branch that emits a cyclic-flagged node, with the capability conditions (and their polarity) that lead to it
    cond_sets = []
    for p in cut_paths:
        # (a conjunction that held is each of its conjuncts: `is_cyclic = is_visited and can_be_cyclic` tested as one name)
        def _split(g, pol):
            if g[0] == "boolop" and ((g[1] == "and" and pol) or (g[1] == "or" and not pol)):
                return [y for o in g[2] for y in _split(o, pol)]
            if g[0] == "not":
                return _split(g[1], not pol)
            return [(g, pol)]

        cs = tuple((g, pol) for g0, pol0 in p.guards() for g, pol in _split(g0, pol0) if is_cap(g))
        if cs and cs not in cond_sets:
            cond_sets.append(cs)
    if not cond_sets:
        rep.undecided("R07.6", q, f.loc, "no cyclic-capability condition on the cut branch")
        return

    def abstract(term):
        return T.rewrite(term, lambda s: ("param", "U") if T.is_call_to(s, f"{C.INSP}.unwrap") else None)

    with_members = [a for a in C.catalogue() if a.subscripted or a.flags]
    # user classes that extend a standard collection and declare fields of their own (`class Scope(dict): parent: Optional[Scope]`)
    with_members += [C.TypeArg(b, False, (), frozenset({"annotated"})) for b in ("builtins.dict", "builtins.list", "collections.OrderedDict", "collections.deque")]
    bad = []
    decided = 0
    for a in with_members:
        outcome = False  # False: every branch refuses; True: some branch takes it; None: unknown
        for cs in cond_sets:
            vals = [(pe.val(abstract(g), {"U": a}, 0), pol) for g, pol in cs]
            if any(v is not None and v != ("raises",) and bool(pe.truthy(v)) != pol for v, pol in vals):
                continue  # this branch refuses
            if any(v is None or v == ("raises",) for v, pol in vals):
                outcome = None if outcome is False else outcome
                continue
            outcome = True
            break
        if outcome is None:
            continue
        decided += 1
        if outcome is False:
            bad.append(a.label())
    rep.check(
        not bad, "R07.6", q, f.loc,
        f"every catalogue type with members (generic arguments or field hints) is cyclic-capable for the cut ({decided} decided)",
        f"revisits of {bad[:4]} are treated as terminal although such types have members: a recursive NamedTuple / TypedDict is expanded again on every revisit (the walk does not terminate or the sorter reports a cycle)",
        detail="cut-covers-members",
    )  # fmt: skip
    rep.count("cut_condition_evaluations", len(with_members))


def r07_2_4(prog: Program, rep: Report):
    for d in ("marshal", "unmarshal"):
        rows = C.handlers(prog, d)
        api = C.DIRS[d][0]
        first = rows[0]
        factory = f"{api}.{'marshaller' if d == 'marshal' else 'unmarshaller'}"
        proxy = first.routine
        is_fwd = first.pred_name == "isforwardref" and proxy is not None
        rep.check(is_fwd, "R07.2", f"{api}._HANDLERS", first.loc, "forward references are dispatched first, to the lazy proxy", f"the first row is {first.pred_name} -> {first.routine_ref}: forward references reach class-valued predicates", detail="first-row")
        if not is_fwd:
            continue
        res = prog.lookup_method(proxy, "resolved")
        call = C.call_of(prog, proxy)
        ok_res = False
        if res is not None:
            for p, r in P.returns(P.paths_of(prog, res)):
                stores = [e for e in p.events if e[0] == "setattr" and e[1] == C.SELF]  # (whatever the latch attribute is called)
                for e in stores:
                    evaluated_t = ("call", ("ref", "typelib.py.refs.evaluate"), (C.sattr("t"),), ())
                    if T.is_call_to(e[3], factory) and (e[3][2] in ((C.sattr("t"),), (evaluated_t,)) or dict(e[3][3]).get("t") in (C.sattr("t"), evaluated_t)):
                        if r == e[3] or r == C.sattr(e[2]):
                            ok_res = True
        rep.check(ok_res, "R07.4", proxy.qualname, proxy.loc, f"the proxy resolves through {factory.rsplit('.', 1)[-1]}(self.t), stores and returns it", f"the proxy does not resolve through the same-direction factory {factory.rsplit('.', 1)[-1]}(self.t)", detail="resolve")
        ok_call = call is not None and all(r == ("call", C.sattr("resolved"), (("param", "val"),), ()) for p, r in P.returns(P.paths_of(prog, call))) and bool(P.returns(P.paths_of(prog, call)))
        rep.check(ok_call, "R07.4", proxy.qualname, proxy.loc, "every call is delegated to the resolved routine", "the proxy's __call__ does not return self.resolved(val) on every path: a level of the recursion is passed through raw", detail="delegate")
        # init does not resolve eagerly
        init = prog.lookup_method(proxy, "__init__")
        eager = init is not None and factory in E.reachable(prog, init, depth=4)
        rep.check(not eager, "R07.4", proxy.qualname, proxy.loc, "resolution is lazy (nothing is resolved at construction)", "the proxy resolves its target in __init__: building a cyclic type never returns", detail="lazy")


def r07_3(prog: Program, rep: Report):
    memo = prog.memoised_functions()
    factories = {q for q in memo if q.rsplit(".", 1)[-1] in ("marshaller", "unmarshaller", "codec") or q == f"{GRAPH}.static_order"}
    starts = []
    for d in ("marshal", "unmarshal"):
        for c in C.routine_classes(prog, d):
            init = c.methods.get("__init__")
            if init is not None:
                starts.append(init)
        starts.append(C.dispatcher(prog, d))
    n = 0
    for s in starts:
        chains = E.reachable(prog, s, depth=6)
        hit = sorted(set(chains) & (factories - {f"{GRAPH}.static_order"}))
        n += 1
        rep.check(not hit, "R07.3", s.qualname, s.loc, "cannot reach a memoised routine factory at build time", f"reaches the memoised factory at build time via {' -> '.join(chains[hit[0]]) if hit else ''}: a cyclic type recurses without bound (the cache entry exists only after the outer call returns)")
    return n


def text_is_no_collection(prog: Program, rep: Report, rule: str):
    """An element of a str is a str, and a one-character string is its own only element.  A routine that converts the elements of
    its input with a *member routine* (a routine slot of its own) must therefore not iterate text: for a recursive type
    (`Tree = dict[str, Tree | str]`) the member routine of a text leaf would be handed the same leaf again, without end.
    Every path of such a routine that iterates the input through serdes.itervalues / iteritems establishes first that the
    iterated object is not text (inspection.istexttype of its class, or an isinstance test against str)."""
    n = 0
    SRC = (f"{C.SERDES}.itervalues", f"{C.SERDES}.iteritems")
    for d in ("marshal", "unmarshal"):
        for c in C.routine_classes(prog, d):
            f = C.call_of(prog, c)
            if f is None:
                continue
            try:
                ps = P.spaths(prog, f, cls=c)  # (the text test may live in a private helper that raises: `_reject_text(decoded, val, t)`)
            except Exception:
                continue
            bad = []
            m = 0
            for p in ps:
                if p.exit[0] != "return":
                    continue
                # comprehensions over itervalues/iteritems(X) whose element applies a routine held in a slot of self
                sites = []
                for tm in p.all_terms():
                    for x in T.walk(tm):
                        if x[0] == "comp" and x[3] and T.is_call_to(x[3][0][0], *SRC) and x[3][0][0][2]:
                            applies = T.contains(x[2], lambda y: y[0] == "call" and y[1][0] == "attr" and y[1][1] == C.SELF and not y[3] and T.contains(("tuple", y[2]), lambda z: z[0] in ("elem", "key", "value", "unpack")))
                            if applies:
                                sites.append(x[3][0][0][2][0])
                if not sites:
                    continue
                atoms = T.derive_atoms(p.guards())
                for subject in dict.fromkeys(sites):
                    n += 1
                    m += 1

                    def not_text(a, val, subject=subject):
                        if val:
                            return False
                        if T.is_call_to(a, f"{C.INSP}.istexttype", f"{C.INSP}.isstringtype") and a[2] and a[2][0] in (("attr", subject, "__class__"), ("call", ("ref", "builtins.type"), (subject,), ())):
                            return True
                        if T.is_call_to(a, "builtins.isinstance") and a[2][:1] == (subject,) and T.contains(a[2][1], lambda z: z == ("ref", "builtins.str")):
                            return True
                        return False

                    if not any(not_text(a, val) for a, val in atoms):
                        bad.append(T.show(subject)[:40])
            if m:
                rep.check(not bad, rule, c.qualname, f.loc, f"{m} iteration path(s) that apply a member routine to the elements of the input exclude text first", f"the member routine is applied to the characters of a text input (elements of {sorted(set(bad))[:2]}): a one-character string is its own element, so for a recursive type a text leaf is handed to the same routine for ever -- Tree = dict[str, Tree | str]: marshal({{'a': 'x'}}, t=Tree) and unmarshal(Tree, {{'a': 'x'}}) end in RecursionError (so does the Record alias of the test models for any string leaf)", detail="text-is-no-collection")
    if not n:
        rep.undecided(rule, "typelib", "", "no routine converts the elements of its input with a member routine", detail="text-is-no-collection")
        return


def run(prog: Program, rep: Report, tier: str):
    rep.rule("R07.8", "text is not iterated as a collection of members (a one-character string is its own element)", floor=4)
    text_is_no_collection(prog, rep, "R07.8")
    rep.rule("R07.1", "worklist/visited discipline of the graph walk", floor=4)
    rep.rule("R07.2", "forward references dispatch to the lazy proxy first", floor=2)
    rep.rule("R07.3", "no build-time path into the memoised factories", floor=14)
    rep.rule("R07.4", "the proxy resolves lazily through the same-direction factory and delegates", floor=6)
    rep.rule("R07.7", "the proxy registered under a forward reference is found from the class itself (TypeContext rules, shared with C16)", floor=5)
    rep.rule("R07.6", "the cut's cyclic-capability condition covers every type with members", floor=1)
    rep.rule("R07.5", "every level is converted (no raw member in composite outputs, both directions)", floor=9)
    r07_1(prog, rep)
    r07_6(prog, rep)
    r07_2_4(prog, rep)
    r07_3(prog, rep)
    from ..report import Report as _R, absorb
    from . import c16

    sub = _R("C07", tier)
    c16.run(prog, sub, tier)
    absorb(rep, sub, {"R16.1": "R07.7", "R16.2": "R07.7", "R16.3": "R07.7"})
    from . import c11

    sub = _R("C07", tier)
    sub.rule("R07.7", "", 0)
    c11.r11_7(prog, sub, rule="R07.7")
    absorb(rep, sub, {"R07.7": "R07.7"})
    c11.module_binds_name(prog, rep, "R07.7")  # (a classic recursive value alias reports `typing` as its module)
    c11.stack_walk_from_caller(prog, rep, "R07.7")
    c03.r03_1(prog, rep, direction="unmarshal", rule="R07.5")
    c03.r03_1(prog, rep, direction="marshal", rule="R07.5")
