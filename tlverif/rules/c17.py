"""C17 — type predicates agree with Python's own type semantics (narrow, table-level claim)."""

from __future__ import annotations

from .. import oracle
from .. import paths as P
from .. import terms as T
from ..model import AnalysisError, Program
from ..report import Report
from . import common as C

EXPLANATION = (
    "Table-level necessary conditions only (the differential over a catalogue is a runtime comparison and is not decided): "
    "R17.1 every GENERIC_TYPE_MAP value is a concrete builtin, instantiable without arguments, and a (virtual) subclass of its key per the runtime's ABCs; "
    "R17.2 typing.X and collections.abc.X keys are both present and agree; R17.3 the class set each class-valued predicate tests equals the base its "
    "contract names (normalised by dropping redundant subclasses) and collection-kind predicates normalise through origin(); "
    "R17.4 predicates that use raising issubclass sit behind the special-form filters in both dispatch tables; R17.5 BUILTIN_TYPES is contained in STDLIB_TYPES and the *_TUPLE forms are built from the sets; "
    "R17.6 the abstract evaluation of each dispatch predicate on the stdlib catalogue agrees with the runtime's issubclass against the contract base."
)
ASSUMPTIONS = [
    "every predicate x every object of its domain (differential), stability across calls and never-raises are runtime statements (ND)",
    "special-form predicates (optional/union/literal/...) are not decided here beyond their position in the tables",
]
TRUSTED = oracle.TRUSTED

# predicate -> (contract base classes, must normalise through origin())
CONTRACT = {
    "isdatetype": (["datetime.date"], True),
    "isdatetimetype": (["datetime.datetime"], True),
    "istimetype": (["datetime.time"], True),
    "istimedeltatype": (["datetime.timedelta"], True),
    "isdecimaltype": (["decimal.Decimal"], True),
    "isfractiontype": (["fractions.Fraction"], True),
    "isuuidtype": (["uuid.UUID"], True),
    "isiterabletype": (["collections.abc.Iterable"], True),
    "isiteratortype": (["collections.abc.Iterator"], True),
    "istupletype": (["builtins.tuple"], True),
    "issequencetype": (["collections.abc.Sequence"], True),
    "iscollectiontype": (["collections.abc.Collection"], True),
    "ismappingtype": (["collections.abc.Mapping", "sqlite3.Row"], True),
    "isenumtype": (["enum.Enum"], False),
    "istexttype": (["builtins.str", "builtins.bytes", "builtins.bytearray", "builtins.memoryview"], False),
    "isstringtype": (["builtins.str"], False),
    "isbytestype": (["builtins.bytes", "builtins.bytearray", "builtins.memoryview"], False),
    "isnumbertype": (["numbers.Number"], False),
    "isintegertype": (["builtins.int"], False),
    "isfloattype": (["builtins.float"], False),
    "ispatterntype": (["re.Pattern"], False),
    "ispathtype": (["pathlib.PurePath"], False),
    # structural flavours: the class test must be transitive (issubclass / MRO membership), so subclasses agree with the runtime
    "isnamedtuple": (["builtins.tuple"], False),
    "istypedtuple": (["builtins.tuple"], False),
    "istypeddict": (["builtins.dict"], False),
}
STRUCTURAL = {"isnamedtuple", "istypedtuple", "istypeddict"}


def origin_map_kinds(prog: Program, rep: Report, rule="R17.1"):
    mod = prog.module(C.INSP)
    tm = P.module_term(prog, mod, "GENERIC_TYPE_MAP")
    if tm[0] != "dict":
        raise AnalysisError("GENERIC_TYPE_MAP is not a dict display")
    loc = f"{mod.relpath}:{mod.assign_nodes['GENERIC_TYPE_MAP'].lineno}"
    pairs = {}
    for k, v in tm[1]:
        if k is None or k[0] != "ref" or v[0] != "ref":
            rep.undecided(rule, f"{C.INSP}.GENERIC_TYPE_MAP", loc, "non-constant entry " + T.show(k or v)[:60])
            continue
        pairs[k[1]] = v[1]
        try:
            key_cls = oracle.resolve(k[1])
            val_cls = oracle.resolve(v[1])
            abc = getattr(key_cls, "__origin__", key_cls)
            concrete = isinstance(val_cls, type) and val_cls.__module__ == "builtins" and not getattr(val_cls, "__abstractmethods__", None)
            sub = issubclass(val_cls, abc)
            inst = True
            try:
                val_cls()
            except Exception:
                inst = False
        except Exception as e:  # pragma: no cover
            rep.undecided(rule, f"{C.INSP}.GENERIC_TYPE_MAP", loc, f"oracle cannot resolve {k[1]} -> {v[1]}: {e}", detail=k[1])
            continue
        rep.check(
            concrete and sub and inst, rule, f"{C.INSP}.GENERIC_TYPE_MAP", loc,
            f"{k[1]} -> {v[1]}: concrete builtin, instantiable, (virtual) subclass of its key",
            f"{k[1]} -> {v[1]}: not a concrete instantiable builtin of that kind (concrete={concrete}, subclass-of-key={sub}, instantiable={inst})",
            detail=k[1],
        )  # fmt: skip
    return pairs, loc


def r17_2(prog, rep, pairs, loc):
    import collections.abc as cabc
    import typing

    for k, v in pairs.items():
        if k.startswith("typing."):
            twin = "collections.abc." + getattr(getattr(typing, k.split(".", 1)[1]), "__origin__", type(None)).__name__
        elif k.startswith("collections.abc."):
            name = k.rsplit(".", 1)[1]
            tname = {"Set": "AbstractSet"}.get(name, name)
            twin = "typing." + tname if hasattr(typing, tname) else None
        else:
            continue
        if twin is None:
            continue
        rep.check(pairs.get(twin) == v, "R17.2", f"{C.INSP}.GENERIC_TYPE_MAP", loc, f"{k} and {twin} both map to {v}", f"{k} -> {v} but its other spelling {twin} -> {pairs.get(twin)}", detail=k)
    del cabc


def predicate_classes(prog: Program, name: str):
    """Class set a predicate tests with issubclass, and whether its subject is normalised through origin()."""
    f = prog.functions.get(f"{C.INSP}.{name}")
    if f is None:
        return None
    classes: list[str] = []
    via_origin = False
    raising = False
    extra_membership = []
    for p in P.spaths(prog, f):  # (the class test may sit in a private helper the predicate calls)
        terms = list(p.all_terms())
        for tm in terms:
            for c in T.calls_in(tm):
                n = T.refname(c[1])
                if (n == "builtins.issubclass" or n in prog.safe_subclass_helpers()) and len(c[2]) == 2:
                    if n == "builtins.issubclass":
                        raising = True
                    subj, cl = c[2]
                    if T.contains(subj, lambda s: T.is_call_to(s, f"{C.INSP}.origin")):
                        via_origin = True
                    cl_items = P.flatten_display(prog, cl) or (cl,)
                    for x in cl_items:
                        rn = T.refname(x)
                        inner = P.flatten_display(prog, x) if rn and rn.startswith("typelib.") else None
                        if inner is not None:
                            classes.extend(T.refname(y) for y in inner if T.refname(y))
                        elif rn:
                            classes.append(rn)
            for s in T.walk(tm):
                if s[0] == "cmp" and s[1] == "in" and T.refname(s[3]) and T.refname(s[3]).startswith(C.INSP + "._"):
                    extra_membership.append(T.refname(s[3]))
                # `X in {*inspect.getmro(obj)}` / `X in obj.__mro__` is a transitive class test as well
                if s[0] == "cmp" and s[1] == "in" and T.refname(s[2]) and (T.contains(s[3], lambda y: T.is_call_to(y, "inspect.getmro")) or T.contains(s[3], lambda y: y[0] == "attr" and y[2] == "__mro__")):
                    classes.append(T.refname(s[2]))
    return {"classes": sorted(set(classes)), "via_origin": via_origin, "raising": raising, "membership": sorted(set(extra_membership)), "loc": f.loc}


def _obj(c):
    o = oracle.resolve(c)
    return getattr(o, "__origin__", o)


def normalise(classes: list[str]) -> set[str]:
    """Drop members that are subclasses of other members; map typing aliases to their ABCs."""
    objs = []
    for c in classes:
        try:
            o = _obj(c)
        except Exception:
            objs.append((c, None))
            continue
        if not any(o is x for _, x in objs):
            objs.append((f"{o.__module__}.{o.__qualname__}", o))
    out = set()
    for n, o in objs:
        if o is None:
            out.add(n)
            continue
        dominated = False
        for _, d in objs:
            if d is not None and d is not o:
                try:
                    if issubclass(o, d):
                        dominated = True
                except TypeError:
                    pass
        if not dominated:
            out.add(n)
    return out


def _issub(a, b):
    try:
        return issubclass(_obj(a), _obj(b))
    except Exception:
        return False


def r17_3(prog, rep):
    facts = {}
    for name, (bases, need_origin) in CONTRACT.items():
        pc = predicate_classes(prog, name)
        if pc is None:
            rep.undecided("R17.3", f"{C.INSP}.{name}", prog.module(C.INSP).relpath, "predicate not found", detail="present")
            continue
        facts[name] = pc
        got = normalise(pc["classes"])
        want = normalise(bases)
        rep.check(got == want, "R17.3", f"{C.INSP}.{name}", pc["loc"], f"tests {sorted(got)} = its contract base", f"tests {sorted(got)} but its contract base is {sorted(want)}", detail="base")
        if need_origin:
            rep.check(pc["via_origin"], "R17.3", f"{C.INSP}.{name}", pc["loc"], "subject normalised through origin() (spelling independence)", "subject is not normalised through origin(): typing/collections.abc spellings and subscripted forms diverge", detail="origin")
    return facts


def r17_4(prog, rep, facts):
    special = ["isforwardref", "isunresolvable", "isnonetype", "isliteral", "isuniontype"]
    for direction in ("marshal", "unmarshal"):
        rows = C.handlers(prog, direction)
        api = C.DIRS[direction][0]
        last_special = max((r.index for r in rows if r.pred_name in special), default=-1)
        have = {r.pred_name for r in rows if r.index <= last_special}
        for r in rows:
            names = [r.pred_name] if not r.pred_name.startswith("λ:") else r.pred_name[2:].split("&")
            for nm in names:
                pc = facts.get(nm)
                if pc and pc["raising"]:
                    rep.check(
                        r.index > last_special and set(special) <= have, "R17.4", f"{api}._HANDLERS", r.loc,
                        f"raising predicate {nm} is consulted only after the special-form filters",
                        f"raising predicate {nm} can be applied to a special form (a filter is missing or comes later)", detail=nm,
                    )  # fmt: skip


def r17_5(prog, rep):
    mod = prog.module(C.INSP)
    b = P.module_term(prog, mod, "BuiltIntypeT")
    s = P.module_term(prog, mod, "STDLibtypeT")
    loc = mod.relpath

    def members(tm):
        if tm[0] == "sub" and tm[2][0] == "tuple":
            return [T.refname(x) or T.show(x) for x in tm[2][1]]
        return None

    bm, sm = members(b), members(s)
    if bm is None or sm is None:
        rep.undecided("R17.5", f"{C.INSP}.STDLIB_TYPES", loc, "type tables are not Union[...] displays")
        return
    rep.check(f"{C.INSP}.BuiltIntypeT" in sm or set(bm) <= set(sm), "R17.5", f"{C.INSP}.STDLIB_TYPES", loc, "every builtin type is also a stdlib type", "STDLibtypeT does not include BuiltIntypeT", detail="subset")
    for name, src in (("BUILTIN_TYPES_TUPLE", "BUILTIN_TYPES"), ("STDLIB_TYPES_TUPLE", "STDLIB_TYPES")):
        tm = P.module_term(prog, mod, name)
        ok = T.is_call_to(tm, "builtins.tuple") and tm[2] == (("ref", f"{C.INSP}.{src}"),)
        rep.check(ok, "R17.5", f"{C.INSP}.{name}", loc, f"{name} is built from {src}", f"{name} is not tuple({src})", detail=name)
    for name, src in (("BUILTIN_TYPES", "BuiltIntypeT"), ("STDLIB_TYPES", "STDLibtypeT")):
        tm = P.module_term(prog, mod, name)
        ok = T.is_call_to(tm, "builtins.frozenset") and T.contains(tm, lambda x: x in (("attr", ("ref", f"{C.INSP}.{src}"), "__args__"), ("ref", f"{C.INSP}.{src}.__args__")))
        rep.check(ok, "R17.5", f"{C.INSP}.{name}", loc, f"{name} is the frozenset of {src}'s members", f"{name} is not derived from {src}.__args__", detail=name)


def r17_6(prog, rep):
    """Abstract evaluation of each contract predicate on the catalogue == runtime issubclass against the contract base."""
    pe = C.PredEval(prog)
    n = 0
    for name, (bases, _) in CONTRACT.items():
        f = prog.functions.get(f"{C.INSP}.{name}")
        if f is None or name in STRUCTURAL:
            continue
        dis = []
        for a in C.catalogue():
            if a.subscripted or a.flags:
                continue
            got = pe.accepts(("ref", f.qualname), a)
            if got is None or got == ("raises",):
                continue
            # the library's documented abstract -> builtin mapping applies before the class test
            mapped = a.cls
            if CONTRACT[name][1]:
                o = pe.val(("call", ("ref", f"{C.INSP}.origin"), (("param", "x"),), ()), {"x": a}, 0)
                mapped = o.cls if isinstance(o, C.TypeArg) else a.cls
            want = any(_issub(mapped, b) for b in bases)
            a_cls = mapped
            if name in ("issequencetype", "iscollectiontype"):
                # documented widening: the builtin containers listed in _COLLECTIONS count as well
                want = want or a_cls in ("builtins.list", "builtins.set", "builtins.tuple", "builtins.frozenset", "builtins.dict", "builtins.str", "builtins.bytes")
            if name == "ismappingtype":
                want = want or _issub(a.cls, "types.MappingProxyType") or _issub(a.cls, "builtins.dict")
            n += 1
            if bool(pe.truthy(got)) != want:
                dis.append((a.label(), bool(pe.truthy(got)), want))
        rep.check(not dis, "R17.6", f"{C.INSP}.{name}", f.loc, "agrees with issubclass against its contract base on every plain catalogue class", f"disagrees with the runtime on {dis[:4]}", detail="catalogue")
    rep.count("catalogue_evaluations", n)


def _consts_in(term) -> set:
    out = set()
    for s in T.walk(term):
        if s[0] == "const" and isinstance(s[1], (str, int, bool, type(None))) or (s[0] == "const" and s[1] is Ellipsis):
            out.add(s[1])
    return out


def _all_members_loop(prog, qual) -> bool:
    """The loop spelling of `all(pred(a) for a in members)`: some path leaves the loop with False under a failed recursive test
    of an element, and some path returns True after it."""
    f = prog.functions.get(qual)
    if f is None:
        return False
    fails = passes = False
    for p in P.paths_of(prog, f):
        in_loop = any(e[0] == "loop" and e[2] == 1 for e in p.events)
        if p.exit[0] == "return" and p.exit[1] == ("const", False) and in_loop and any((not pol) and T.is_call_to(g, qual) and g[2] and g[2][0][0] == "elem" for g, pol in p.guards()):
            fails = True
        if p.exit[0] == "return" and p.exit[1] == ("const", True) and any(e[0] == "loop" for e in p.events):
            passes = True
    return fails and passes


def r17_8(prog, rep):
    """Special-form predicates: the facts each answer must be computed from (resolved callees and constants), whatever the spelling."""
    insp = prog.module(C.INSP)

    def rets(name):
        f = prog.functions.get(f"{C.INSP}.{name}")
        if f is None:
            return None, []
        def named(tm):
            # (a tuple of classes / special forms that has been given a name at module level is that tuple)
            def ex(y):
                if y[0] == "ref" and y[1].startswith(C.INSP + "._"):
                    items = P.flatten_display(prog, y)
                    if items is not None and len(items) <= 12:
                        return ("tuple", tuple(items))
                return None
            return T.rewrite(tm, ex)

        plain = [r for _, r in P.returns(P.paths_of(prog, f))] + [g for p in P.paths_of(prog, f) for g, _ in p.guards()]
        return f, plain + [y for y in (named(x) for x in plain) if y not in plain]

    def has_call(terms, *names):
        return any(T.contains(t0, lambda s: T.is_call_to(s, *names)) for t0 in terms)

    def has_ref(terms, *names):
        return any(T.contains(t0, lambda s: s[0] == "ref" and s[1] in names) for t0 in terms)

    checks = {
        "isuniontype": lambda ts: {"Union", "UnionType"} <= set().union(*[_consts_in(t0) for t0 in ts]) and has_call(ts, f"{C.INSP}.origin") or (has_ref(ts, "typing.Union") and has_ref(ts, "types.UnionType")),
        "isliteral": lambda ts: has_ref(ts, "typing.Literal") and has_call(ts, f"{C.INSP}.origin", "typing.get_origin"),
        "isforwardref": lambda ts: has_ref(ts, "typing.ForwardRef"),
        "isfinal": lambda ts: has_ref(ts, "typing.Final") and has_call(ts, f"{C.INSP}.origin", "typing.get_origin"),
        "isclassvartype": lambda ts: has_ref(ts, "typing.ClassVar"),
        "isfixedtupletype": lambda ts: has_ref(ts, "builtins.tuple") and any(Ellipsis in _consts_in(t0) for t0 in ts) and has_call(ts, f"{C.INSP}.args", "typing.get_args"),
        "isstructuredtype": lambda ts: has_call(ts, f"{C.INSP}.isfixedtupletype") and has_call(ts, f"{C.INSP}.isnamedtuple") and has_call(ts, f"{C.INSP}.istypeddict") and has_call(ts, f"{C.INSP}.isstdlibsubtype") and has_call(ts, f"{C.INSP}.isuniontype") and has_call(ts, f"{C.INSP}.isliteral"),
        "isstdlibtype": lambda ts: has_ref(ts, f"{C.INSP}.STDLIB_TYPES") and has_call(ts, f"{C.INSP}.resolve_supertype") and (has_call(ts, "builtins.all") or _all_members_loop(prog, f"{C.INSP}.isstdlibtype")),
        "isbuiltintype": lambda ts: has_ref(ts, f"{C.INSP}.BUILTIN_TYPES") and has_call(ts, f"{C.INSP}.resolve_supertype"),
        "isunresolvable": lambda ts: has_ref(ts, f"{C.INSP}._UNRESOLVABLE"),
        "ishashable": lambda ts: any(T.contains(t0, lambda s: s[0] == "cmp" and s[1] == "isnot" and s[3] == ("const", None)) for t0 in ts),
        "isproperty": lambda ts: has_ref(ts, "builtins.property") and has_ref(ts, "functools.cached_property"),
        "isdescriptor": lambda ts: has_ref(ts, f"{C.INSP}._DESCRIPTOR_METHODS") and has_call(ts, "builtins.dir"),
        "istypealiastype": lambda ts: has_ref(ts, "typing.TypeAliasType") and has_call(ts, "builtins.isinstance"),
        "iscallable": lambda ts: has_ref(ts, "typing.Callable") and has_call(ts, "inspect.isroutine"),
    }
    why = {
        "isuniontype": "must recognise both typing.Union and types.UnionType (X | Y) through origin()",
        "isliteral": "must test the origin against typing.Literal",
        "isforwardref": "must test for typing.ForwardRef",
        "isfinal": "must test the origin against Final",
        "isclassvartype": "must test for typing.ClassVar",
        "isfixedtupletype": "tuple origin, non-empty args, last argument not Ellipsis",
        "isstructuredtype": "fixed tuple ∨ namedtuple ∨ typed dict ∨ (not stdlib ∧ not union ∧ not literal)",
        "isstdlibtype": "membership in STDLIB_TYPES after NewType resolution; unions need all members",
        "isbuiltintype": "membership in BUILTIN_TYPES after NewType resolution",
        "isunresolvable": "membership in _UNRESOLVABLE",
        "ishashable": "__hash__ is not None",
        "isproperty": "property or functools.cached_property",
        "isdescriptor": "any of the descriptor protocol methods among dir(obj)",
        "istypealiastype": "isinstance against TypeAliasType",
        "iscallable": "routine, typing.Callable or a collections.abc.Callable subclass",
    }
    for name, fn in checks.items():
        f, ts = rets(name)
        if f is None:
            rep.undecided("R17.8", f"{C.INSP}.{name}", insp.relpath, "predicate not found")
            continue
        rep.check(bool(fn(ts)), "R17.8", f.qualname, f.loc, f"computed from the facts its contract names ({why[name]})", f"no longer computed from the facts its contract names: {why[name]}", detail="facts")
    # special forms are recognised by identity of the origin, never by its *name*: a user class may be called Union
    for nm in ("isuniontype", "isoptionaltype", "isliteral"):
        f, ts = rets(nm)
        if f is None:
            continue
        by_name = []
        for t0 in ts + [tm for pth in P.paths_of(prog, f) for tm in pth.all_terms()]:
            for x in T.walk(t0):
                if x[0] == "cmp" and x[1] in ("==", "in", "!=", "notin"):
                    a, b = x[2], x[3]
                    names_call = lambda y: T.contains(y, lambda z: T.is_call_to(z, f"{C.INSP}.name", f"{C.INSP}.qualname") or (z[0] == "attr" and z[2] in ("__name__", "__qualname__")))  # noqa: E731
                    texts = lambda y: (y[0] == "const" and isinstance(y[1], str)) or (y[0] in ("tuple", "set", "list") and y[1] and all(e[0] == "const" and isinstance(e[1], str) for e in y[1]))  # noqa: E731
                    if (names_call(a) and texts(b)) or (names_call(b) and texts(a)):
                        by_name.append(T.show(x)[:70])
        rep.check(not by_name, "R17.8", f.qualname, f.loc, "the special form is recognised by identity of the origin", f"{nm} compares the *name* of the origin with text ({by_name[0] if by_name else ''}): a user class named Union / UnionType / Optional is reported as that special form and routed to the union routine", detail="by-identity")
    # the bare qualifier counts as the qualifier: the compared subject falls back to the object itself
    for nm, target in (("isclassvartype", "typing.ClassVar"), ("isfinal", "typing.Final")):
        f, ts = rets(nm)
        if f is None:
            continue
        ok = False
        for t0 in ts:
            for s in T.walk(t0):
                if s[0] == "cmp" and s[1] in ("is", "==") and T.refname(s[3]) == target:
                    subj = s[2]
                    if T.is_call_to(subj, f"{C.INSP}.origin"):
                        ok = True
                    elif T.is_call_to(subj, "builtins.getattr") and len(subj[2]) == 3 and subj[2][1] == ("const", "__origin__") and subj[2][2] == subj[2][0]:
                        ok = True
                    elif subj[0] == "boolop" and subj[1] == "or" and T.is_call_to(subj[2][0], "typing.get_origin"):
                        ok = True
        rep.check(ok, "R17.8", f.qualname, f.loc, f"the bare {target.rsplit('.', 1)[-1]} is recognised as well (the compared subject falls back to the object itself)", f"{nm} compares typing.get_origin(obj) only: the unsubscripted {target.rsplit('.', 1)[-1]} (a legal annotation) is no longer recognised", detail="bare-form")
    # _UNRESOLVABLE content
    un = P.module_term(prog, insp, "_UNRESOLVABLE")
    names = {T.refname(x) for x in un[1]} if un[0] in ("tuple", "list", "set") else set()
    need = {"builtins.object", "typing.Any", "typelib.constants.empty", "inspect.Parameter.empty", "typing.Callable", "builtins.Ellipsis"}
    rep.check(need <= names, "R17.8", f"{C.INSP}._UNRESOLVABLE", insp.relpath, "covers object, Any, the empty sentinels, Callable and Ellipsis", f"_UNRESOLVABLE lacks {sorted(need - names)}", detail="table")
    # independence of spelling: a table tested on the raw annotation lists a typing alias together with its runtime origin
    missing = []
    for nm in sorted(n for n in names if n and n.startswith("typing.")):
        org = oracle.typing_origin(nm.split(".", 1)[1])
        if org is not None:
            dotted = f"{org.__module__}.{org.__qualname__}"
            if dotted not in names:
                missing.append(f"{nm} without {dotted}")
    iu = prog.functions.get(f"{C.INSP}.isunresolvable")
    raw = iu is not None and any(T.contains(r, lambda x: x[0] == "cmp" and x[1] == "in" and x[2] == ("param", iu.params[0])) for _, r in P.returns(P.paths_of(prog, iu)))
    if not raw:
        missing = []  # the subject is normalised first: one spelling in the table is enough
    rep.check(not missing, "R17.8", f"{C.INSP}._UNRESOLVABLE", insp.relpath, "every typing alias in the table is accompanied by its runtime origin (both spellings answer alike)", f"_UNRESOLVABLE lists {missing[0] if missing else ''}: the predicate tests the raw annotation, so the two spellings of one type get different answers", detail="table-spellings")
    # optional detection over all members (shared with R08.6)
    from ..report import Report as _R, absorb
    from . import c08

    sub = _R("C17", rep.tier)
    sub.rule("R08.6", "", 0)
    c08.r08_6(prog, sub)
    absorb(rep, sub, {"R08.6": "R17.8"})


def r17_13(prog, rep):
    """origin(): "its typing origin after NewType and alias resolution".  The wrappers nest in any order -- an alias of a NewType,
    a ClassVar of an alias, a NewType of an alias -- so peeling each kind once, in a fixed order, leaves whatever sat beneath
    the last wrapper removed unexamined.  Decided structurally: origin() starts from unwrap() (whose fixpoint is R11.1), or
    some exit hands the peeled value back to origin() itself under a test that asks all three wrapper questions of it
    (NewType: `__supertype__`; ClassVar; alias), and that peeled value is the one the other exits give to typing.get_origin."""
    f = prog.function(f"{C.INSP}.origin")
    ps = P.splice_helpers(prog, P.paths_of(prog, f))
    ann = ("param", f.params[0])
    if any(T.contains(tm, lambda x: T.is_call_to(x, f"{C.INSP}.unwrap") and x[2][:1] == (ann,)) for p in ps for tm in p.all_terms()):
        rep.held("R17.13", f.qualname, f.loc, "origin() starts from unwrap(annotation)", detail="origin-wrappers-fixpoint")
        return
    peels = any(T.contains(tm, lambda x: (x[0] == "attr" and x[2] in ("__value__", "__supertype__")) or T.is_call_to(x, f"{C.INSP}.resolve_supertype")) for p in ps for tm in p.all_terms())
    if not peels:
        rep.undecided("R17.13", f.qualname, f.loc, "no wrapper is peeled in origin(): outside the idiom set", detail="origin-wrappers-fixpoint")
        return
    again = []
    for p, r in P.returns(ps):
        if T.is_call_to(r, f.qualname) and r[2] and r[2][0] != ann:
            v = r[2][0]
            kinds = set()
            for g, _pol in p.guards():
                for x in T.walk(g):
                    if T.is_call_to(x, "builtins.hasattr") and x[2][:1] == (v,) and len(x[2]) > 1 and x[2][1] == ("const", "__supertype__"):
                        kinds.add("newtype")
                    if T.is_call_to(x, f"{C.INSP}.isclassvartype") and x[2][:1] == (v,):
                        kinds.add("classvar")
                    if T.is_call_to(x, f"{C.INSP}.istypealiastype") and x[2][:1] == (v,):
                        kinds.add("alias")
            again.append((v, kinds))
    full = [v for v, kinds in again if kinds >= {"newtype", "classvar", "alias"}]
    used = [x[2][0] for p, r in P.returns(ps) if not T.is_call_to(r, f.qualname) for tm in p.all_terms() for x in T.walk(tm) if T.is_call_to(x, "typing.get_origin") and x[2]]
    same = bool(full) and bool(used) and all(u in full for u in used)
    rep.check(same, "R17.13", f.qualname, f.loc, "what is left after peeling is examined again for all three wrapper kinds before it is taken for the origin", "origin() peels NewType, ClassVar and alias once each, in a fixed order, and takes what is left for the origin: an alias of a NewType (`TypeAliasType('A', NewType('U', int))`) answers the NewType object, a ClassVar of a NewType or of an alias answers the wrapper beneath -- and the class-valued predicates built on origin() raise TypeError (issubclass() arg 1 must be a class)", detail="origin-wrappers-fixpoint")


def r17_14(prog, rep):
    """`tuple[()]` is a subscripted generic with no arguments: whether an annotation is subscripted cannot be read off the
    emptiness of its arguments (`bool(get_args(t))`, `len(get_args(t)) > 0`, `t.__args__` as a truth value)."""
    f = prog.functions.get(f"{C.INSP}.issubscriptedgeneric")
    if f is None:
        rep.undecided("R17.14", f"{C.INSP}.issubscriptedgeneric", "", "predicate not found", detail="subscripted-not-from-args")
        return
    tpar = ("param", f.params[0])
    is_args = lambda y: (T.is_call_to(y, "typing.get_args", f"{C.INSP}.args") and y[2][:1] == (tpar,)) or y == ("attr", tpar, "__args__") or (T.is_call_to(y, "builtins.getattr") and y[2][:2] == (tpar, ("const", "__args__")))  # noqa: E731
    bad = []
    for p in P.paths_of(prog, f):
        terms = ([p.exit[1]] if p.exit[0] == "return" else []) + [g for g, _ in p.guards()]
        for tm in terms:
            for x in T.walk(tm):
                if T.is_call_to(x, "builtins.bool") and x[2] and is_args(x[2][0]):
                    bad.append(T.show(x)[:50])
                if x[0] == "cmp" and T.is_call_to(x[2], "builtins.len") and x[2][2] and is_args(x[2][2][0]):
                    bad.append(T.show(x)[:50])
                if x[0] in ("boolop", "not", "ifexp") and any(is_args(o) for o in (x[2] if x[0] == "boolop" else (x[1],))):
                    bad.append(T.show(x)[:50])
            if is_args(tm):
                bad.append(T.show(tm)[:50])
    rep.check(not bad, "R17.14", f.qualname, f.loc, "whether an annotation is subscripted is not decided by the emptiness of its arguments", f"issubscriptedgeneric answers from the emptiness of the type arguments ({sorted(set(bad))[:1]}): the empty fixed tuple `tuple[()]` / `typing.Tuple[()]` is subscripted and has none -- it answers False while typing.get_origin says tuple, and issubscriptedcollectiontype follows", detail="subscripted-not-from-args")


def r17_9(prog, rep):
    """origin(): its body, interpreted abstractly on the catalogue, yields the class itself for concrete classes, the class
    of a subscripted generic, and the documented concrete builtin for the abstract collection types."""
    pe_model = C.PredEval(prog)
    pe_code = C.PredEval(prog)
    pe_code.interpret_origin = True
    f = prog.function(f"{C.INSP}.origin")
    bad = []
    decided = 0
    callables = [C.TypeArg("collections.abc.Callable"), C.TypeArg("typing.Callable"), C.TypeArg("collections.abc.Callable", True, ("[]", "builtins.str"))]
    undecided = []
    for a in list(C.catalogue()) + callables:
        if a.flags:
            continue
        want = pe_model.call(("call", ("ref", f.qualname), (("param", "x"),), ()), {"x": a}, 0)
        got = pe_code.call_function(f, [a], 0)
        if not isinstance(got, C.TypeArg) or not isinstance(want, C.TypeArg):
            undecided.append(a.label())
            continue
        decided += 1
        if (got.cls, got.subscripted) != (want.cls, want.subscripted):
            bad.append(f"{a.label()}: origin() computes {got.label()}, the documented mapping gives {want.label()}")
    if undecided and not bad:
        # (every form of the catalogue is decided on the tree this rule was written for: a form that no longer is must not pass)
        rep.undecided("R17.9", f.qualname, f.loc, f"origin() could not be interpreted on {undecided[:4]}", detail="catalogue")
        return
    rep.check(not bad and decided >= 20, "R17.9", f.qualname, f.loc, f"interpreting origin() on {decided} catalogue forms reproduces the documented abstract-to-builtin mapping", f"origin() no longer computes the documented origin: {bad[:3]}" if bad else f"origin() could be interpreted on only {decided} catalogue forms", detail="catalogue")


def r17_10(prog, rep):
    """qualname(): the text-splitting exit is for annotations whose *text* is a typing form; a class is named by its own
    __qualname__ (then __name__).  name() is the last dotted component of qualname()."""
    f = prog.function(f"{C.INSP}.qualname")
    obj = ("param", f.params[0])
    split_ok, split_seen = True, False
    qn_ok = False
    for p, r in P.returns(P.paths_of(prog, f)):
        splits = [x for x in T.walk(r) if x[0] == "call" and x[1][0] == "attr" and x[1][2] in ("split", "partition")]
        if splits:
            split_seen = True
            recv = splits[0][1][1]
            tests = [g[2][0] for g, pol in p.guards() if pol and T.is_call_to(g, f"{C.INSP}.isgeneric") and g[2]]
            if not tests or any(t0 != recv for t0 in tests):
                split_ok = False
            continue
        qa = ("call", ("ref", "builtins.getattr"), (obj, ("const", "__qualname__"), ("const", None)), ())
        if T.contains(r, lambda x: x == qa or x == ("attr", obj, "__qualname__")):
            qn_ok = True
    rep.check(split_seen and split_ok, "R17.10", f.qualname, f.loc, "the text of an annotation is cut at '[' only when that same text is a typing form", "the generic test that routes to the text-splitting exit is not applied to the text that is split: a class deriving from typing.Generic / Protocol is named by its repr (\"<class '…Box'>\")", detail="generic-on-text")
    rep.check(qn_ok, "R17.10", f.qualname, f.loc, "a class is named by its own __qualname__", "no exit returns the object's __qualname__", detail="qualname-attr")
    g = prog.function(f"{C.INSP}.name")
    o2 = ("param", g.params[0])
    ok = False
    for p, r in P.returns(P.paths_of(prog, g)):
        q = ("call", ("ref", f"{C.INSP}.qualname"), (o2,), ())
        if r[0] == "sub" and r[2] == ("const", -1) and r[1][0] == "call" and r[1][1][0] == "attr" and r[1][1][1] == q and r[1][1][2] in ("rsplit", "split") and r[1][2][:1] == (("const", "."),):
            ok = True
        if r[0] == "sub" and r[2] == ("const", -1) and r[1][0] == "call" and r[1][1][0] == "attr" and r[1][1][1] == q and r[1][1][2] == "rpartition":
            ok = True
    rep.check(ok, "R17.10", g.qualname, g.loc, "name(obj) is the last dotted component of qualname(obj)", "name() is not the last dotted component of qualname()", detail="name")


def typedtuple_is_namedtuple(prog, rep, rule="R17.6"):
    """A "typed tuple" is a named tuple with annotations -- not any tuple subclass that carries an annotation (a class variable):
    istypedtuple is interpreted on a tuple subclass descriptor that is annotated but has no `_fields`."""
    pe = C.PredEval(prog)
    pe.interpret_origin = True
    f = prog.functions.get(f"{C.INSP}.istypedtuple")
    if f is None:
        rep.undecided(rule, f"{C.INSP}.istypedtuple", "", "predicate not found", detail="typedtuple-is-namedtuple")
        return
    plain = C.TypeArg("builtins.tuple", False, (), frozenset({"annotated"}))
    named = C.TypeArg("builtins.tuple", False, (), frozenset({"annotated", "namedtuple"}))
    v1 = pe.accepts(("ref", f.qualname), plain)
    v2 = pe.accepts(("ref", f.qualname), named)
    if v1 is None or v2 is None or ("raises",) in (v1, v2):
        rep.undecided(rule, f.qualname, f.loc, f"istypedtuple could not be evaluated on the descriptors ({v1}, {v2})", detail="typedtuple-is-namedtuple")
        return
    rep.check(pe.truthy(v2) and not pe.truthy(v1), rule, f.qualname, f.loc, "an annotated named tuple is a typed tuple, an annotated plain tuple subclass is not", "istypedtuple answers from the annotations alone: `class Version(tuple): sep: ClassVar[str] = '.'` counts as a typed tuple and is routed to the structured routine -- unmarshal(Version, [1, 2]) returns () (the members are dropped)", detail="typedtuple-is-namedtuple")


def args_typing_first(prog, rep, rule="R17.12"):
    """args() answers with typing.get_args(annotation); the raw `__args__` attribute is a fallback for what typing has no
    answer for.  Where typing post-processes (Callable[[int, str], bool] -> ([int, str], bool); Annotated keeps its metadata)
    the raw attribute differs, so it may be read only where get_args() came back empty."""
    f = prog.functions.get(f"{C.INSP}.args")
    if f is None:
        rep.undecided(rule, f"{C.INSP}.args", "", "accessor not found", detail="args-typing-first")
        return
    ann = ("param", f.params[0])
    typed = ("call", ("ref", "typing.get_args"), (ann,), ())

    def is_raw(x):
        return (x[0] == "attr" and x[1] == ann and x[2] == "__args__") or (T.is_call_to(x, "builtins.getattr") and len(x[2]) >= 2 and x[2][0] == ann and x[2][1] == ("const", "__args__"))

    unprotected = []
    uses_typing = False
    n = 0
    for p, r in P.returns(P.paths_of(prog, f)):
        n += 1
        atoms = T.derive_atoms(p.guards())
        empty_known = any(a == typed and not val for a, val in atoms)
        if T.contains(r, lambda x: x == typed) and not empty_known:
            uses_typing = True
        for raw in T.find(r, is_raw):
            for conds in T.enclosing_conditions(r, raw):
                if not empty_known and not any(c == typed and not pol for c, pol in conds):
                    unprotected.append(T.show(raw)[:60])
    rep.check(uses_typing and not unprotected, rule, f.qualname, f.loc, f"typing.get_args() is the answer, the raw __args__ only where it is empty ({n} exit(s))", "args() reads the raw __args__ attribute before (or instead of) typing.get_args(): where typing post-processes the two differ -- Callable[[int, str], bool] gives (int, str, bool) instead of ([int, str], bool), Annotated[int, 'pk'] loses its metadata", detail="args-typing-first")


def run(prog: Program, rep: Report, tier: str):
    rep.rule("R17.11", "a parameterised scalar spelling (re.Pattern[str]) is served like the bare class", floor=4)
    C.param_spelling_agreement(prog, rep, "R17.11")
    rep.rule("R17.12", "args() agrees with typing.get_args() wherever typing has an answer", floor=1)
    args_typing_first(prog, rep)
    rep.rule("R17.10", "qualname()/name() name a class by its own qualified name; the text exit is for typing forms only", floor=3)
    r17_10(prog, rep)
    rep.rule("R17.9", "origin() interpreted on the catalogue reproduces the documented mapping", floor=1)
    rep.rule("R17.13", "origin() peels nested wrappers (NewType, ClassVar, alias) to a fixpoint", floor=1)
    r17_13(prog, rep)
    rep.rule("R17.14", "subscripted-ness is not read off the emptiness of the type arguments (tuple[()])", floor=1)
    r17_14(prog, rep)
    rep.rule("R17.8", "special-form predicates are computed from the facts their contracts name", floor=15)
    rep.rule("R17.1", "GENERIC_TYPE_MAP values are concrete instantiable builtins of the key's kind", floor=18)
    rep.rule("R17.2", "typing / collections.abc spellings agree", floor=16)
    rep.rule("R17.3", "class set tested by each class-valued predicate equals its contract base; collection predicates normalise through origin()", floor=30)
    rep.rule("R17.4", "raising issubclass predicates only behind the special-form filters", floor=20)
    rep.rule("R17.5", "BUILTIN ⊂ STDLIB; tuple forms derived from the sets", floor=5)
    rep.rule("R17.6", "abstract predicate evaluation agrees with the runtime hierarchy on the catalogue", floor=20)
    rep.rule("R17.7", "memoised accessors are stable across equal-but-differently-spelled annotations (shared with R12.3)", floor=1)
    pairs, loc = origin_map_kinds(prog, rep)
    r17_2(prog, rep, pairs, loc)
    facts = r17_3(prog, rep)
    r17_4(prog, rep, facts)
    r17_5(prog, rep)
    r17_6(prog, rep)
    r17_8(prog, rep)
    r17_9(prog, rep)
    # stability across calls / independence of spelling: memoised accessors must not expose the representation of an
    # annotation that compares equal to a differently spelled one (shared with R12.3, restricted to py/inspection.py)
    from ..report import Report as _R, load_known
    from . import c12

    sub = _R("C17", tier)
    sub.rule("R12.3", "", 0)
    c12.r12_3(prog, sub)
    known12 = {e["key"] for e in load_known().get("open", []) if e.get("property") == "C12"}
    for o in sub.obligations:
        if "@typelib.py.inspection." not in o.key:
            continue
        if o.status == "violated" and o.key in known12:
            # recorded once, under C12 (same construct, same witness); C17 does not repeat it
            rep.held("R17.7", o.key.split("@", 1)[1].split("#")[0], o.loc, "representation exposure of this memoised accessor is the C12 known finding " + o.key, detail="key", nontrivial=False)
            continue
        o.key = o.key.replace("R12.3@", "R17.7@")
        o.rule = "R17.7"
        rep.obligations.append(o)
        rep.rules["R17.7"]["instances"] += 1
    typedtuple_is_namedtuple(prog, rep)
    # ... and a memo that forgets re-asks the question for whichever spelling comes next (restricted to the inspection API)
    sub = _R("C17", tier)
    sub.rule("R17.7", "", 0)
    c12.memo_unbounded(prog, sub, "R17.7")
    for o in sub.obligations:
        if "@typelib.py.inspection." in o.key:
            rep.obligations.append(o)
            rep.rules["R17.7"]["instances"] += 1
