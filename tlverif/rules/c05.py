"""C05 — nested members are converted by their own type's rules (routing of member routines)."""

from __future__ import annotations

from .. import oracle
from .. import paths as P
from .. import terms as T
from ..model import Program
from ..report import Report
from . import common as C
from . import composites as K

EXPLANATION = (
    "R05.1 the routine context is keyed by annotation: in marshaller()/unmarshaller() every store into the context inside the node loop uses "
    "node.type and node.unwrapped (never node.var), the stored routine is the one dispatched for that node, and the function returns context[root.type] "
    "with root the last node. R05.2 every routine applied inside a composite __call__ is a member slot whose constructor value derives from the context "
    "looked up by a type argument (inspection.args) or by a hint value, stored under the hint's own field name. R05.3 each slot meets its own component: "
    "argument 0 the keys / elements, argument 1 the values, the i-th routine the i-th tuple member (zip of two order-preserving sequences), a field routine "
    "the value found under that same field name. R05.4 the two api siblings agree on these facts up to direction."
)
ASSUMPTIONS = [
    "equality with independently obtained member routines on values, and exception parity, are runtime statements (ND)",
    "graph.static_order yields members before containers (C09)",
]
TRUSTED = oracle.TRUSTED


def factory_facts(prog: Program, direction: str):
    api = C.DIRS[direction][0]
    fname = {"marshal": "marshaller", "unmarshal": "unmarshaller"}[direction]
    f = prog.function(f"{api}.{fname}")
    facts = {"keys": set(), "bad_keys": [], "value_flow": True, "returns_root": False, "loc": f.loc, "qual": f.qualname, "noop_on_empty": False}
    for p in P.paths_of(prog, f):
        looped = any(e[0] == "loop" and e[2] == 1 for e in p.events)
        nodes = None
        for e in p.events:
            if e[0] == "loop":
                nodes = e[1]
        if looped:
            node = ("elem", nodes)
            stored = {}
            for e in p.events:
                if e[0] == "setitem" and T.is_call_to(e[1], "typelib.ctx.TypeContext"):
                    k, v = e[2], e[3]
                    if k[0] == "attr" and k[1] == node and k[2] in ("type", "unwrapped"):
                        facts["keys"].add(k[2])
                        stored[k[2]] = v
                    elif k[0] == "ref" and v[0] == "call" and (T.refname(v[1]) or "").rsplit(".", 1)[-1].startswith("NoOp"):
                        # a constant annotation seeded with a pass-through routine (the graph's skip set, see C15)
                        facts.setdefault("seeds", set()).add(k[1])
                    else:
                        facts["bad_keys"].append(T.show(k)[:60])
            disp = stored.get("type")
            ok = disp is not None and T.is_call_to(disp, C.dispatcher(prog, direction).qualname) and (disp[2][:1] == (node,) or dict(disp[3]).get("node") == node)
            ctx_arg = None
            if disp is not None and disp[0] == "call":
                ctx_arg = dict(disp[3]).get("context") or (disp[2][1] if len(disp[2]) > 1 else None)
            ok = ok and ctx_arg is not None and T.is_call_to(ctx_arg, "typelib.ctx.TypeContext")
            second = stored.get("unwrapped")
            ok2 = second is not None and (second == disp or (second[0] == "sub" and second[2] == ("attr", node, "type")))
            facts["value_flow"] = facts["value_flow"] and bool(ok) and bool(ok2)
            if p.exit[0] == "return":
                r = p.exit[1]
                root_type = ("attr", ("sub", nodes, ("const", -1)), "type")
                if r[0] == "sub" and r[2] == root_type and T.is_call_to(r[1], "typelib.ctx.TypeContext"):
                    facts["returns_root"] = True
        else:
            if p.exit[0] == "return" and p.exit[1][0] == "call" and (T.refname(p.exit[1][1]) or "").rsplit(".", 1)[-1].startswith("NoOp"):
                if any(pol is False and g == nodes for g, pol in p.guards()) or any(g[0] == "not" or True for g, _ in p.guards()):
                    facts["noop_on_empty"] = True
    return facts


def dispatch_facts(prog: Program, direction: str):
    f = C.dispatcher(prog, direction)
    facts = {"check_arg": set(), "ctor_arg": set(), "shortcut": False, "fallback": None, "fallback_arg": None, "var": True, "loc": f.loc, "qual": f.qualname}
    node = ("param", "node")
    for p in P.paths_of(prog, f):
        for g, pol in p.guards():
            if g[0] == "cmp" and g[1] == "in" and g[2] == ("attr", node, "type") and g[3] == ("param", "context") and pol and p.exit[0] == "return" and p.exit[1] == ("sub", ("param", "context"), ("attr", node, "type")):
                facts["shortcut"] = True
            if g[0] == "call" and g[1][0] in ("unpack", "key") and pol:
                a = g[2][0] if g[2] else None
                if a is not None and a[0] == "attr" and a[1] == node:
                    facts["check_arg"].add(a[2])
                if p.exit[0] == "return" and p.exit[1][0] == "call" and p.exit[1][1][0] in ("unpack", "value"):
                    r = p.exit[1]
                    a0 = r[2][0] if r[2] else dict(r[3]).get("t")
                    if a0 is not None and a0[0] == "attr" and a0[1] == node:
                        facts["ctor_arg"].add(a0[2])
                    kw = dict(r[3])
                    if kw.get("context") != ("param", "context") or kw.get("var") != ("attr", node, "var"):
                        facts["var"] = False
        if p.exit[0] == "return" and p.exit[1][0] == "call" and p.exit[1][1][0] == "ref":
            r = p.exit[1]
            c = prog.class_of(r[1][1])
            if c:
                facts["fallback"] = c[0]
                a0 = r[2][0] if r[2] else dict(r[3]).get("t")
                facts["fallback_arg"] = a0[2] if a0 is not None and a0[0] == "attr" and a0[1] == node else None
    return facts


def r05_1(prog, rep, direction, ff):
    q = ff["qual"]
    rep.check(ff["keys"] == {"type", "unwrapped"}, "R05.1", q, ff["loc"], "context is filled under node.type and node.unwrapped for every node", f"context keys written per node: {sorted(ff['keys'])} (both the annotation and its unwrapped form are required)", detail="both-keys")
    rep.check(not ff["bad_keys"], "R05.1", q, ff["loc"], "no context key derives from anything but the node's annotation", f"context is also keyed by {ff['bad_keys']}", detail="no-foreign-key")
    rep.check(ff["value_flow"], "R05.1", q, ff["loc"], "the stored routine is the one dispatched for that node against the same context", "the routine stored for a node is not _get_unmarshaller(node, context=context) / the same routine under both keys", detail="value-flow")
    rep.check(ff["returns_root"], "R05.1", q, ff["loc"], "returns context[nodes[-1].type] (the root is the last node)", "the factory does not return the routine stored for the last node", detail="root")


def r05_2_3(prog, rep, direction):
    n = 0
    for c in C.routine_classes(prog, direction):
        f = C.call_of(prog, c)
        if f is None or f.cls is not c:
            continue
        sl = K.slots_of(prog, c)
        applied = {}
        for p in P.paths_of(prog, f):
            for tm in p.all_terms():
                for s in T.walk(tm):
                    a = K.applied_slot(s)
                    # (`self.name(...)` where `name` is a method of the routine class is a method call, not the application of a member routine)
                    if a and a[1] not in ("t", "origin", "caster", "resolved") and prog.lookup_method(c, a[1]) is None:
                        applied.setdefault(a[1], []).append((a, s))
        if not applied:
            continue
        for attr, uses in applied.items():
            n += 1
            slot = sl.get(attr)
            if slot is None:
                rep.violated("R05.2", c.qualname, f.loc, f"self.{attr} is applied to members but the constructor does not resolve it from the type context by a type argument or hint", detail=attr)
                continue
            if slot.foreign:
                rep.violated("R05.2", c.qualname, f.loc, f"self.{attr} may also hold {T.show(slot.foreign[0])[:80]}, which is not the routine the context holds for that type argument: members of some types are converted by another type's rules", detail=attr + "-foreign")
            if slot.kind == "dict":
                rep.check("raw" in slot.hint_keys, "R05.2", c.qualname, f.loc, f"self.{attr}: the context is asked for the hint as it is written (the graph registers routines under the hint itself), then for its evaluated form", f"self.{attr}: only the evaluated hint is looked up ({slot.hint_keys}); a field whose hint is a forward reference (string annotations of a plain class) was registered under that reference and is now missed: it falls back to a no-op routine", detail=attr + "-raw-hint")
                good = slot.keyed_by is not None and slot.keyed_by[0] == "key" and T.refname(slot.keyed_by[1][1]) in K.HINTS
                rep.check(good, "R05.2", c.qualname, f.loc, f"self.{attr}: field routines come from context[hint] and are stored under the hint's own field name", f"self.{attr}: field routines are not stored under the name of the hint they were resolved from", detail=attr)
            else:
                rep.held("R05.2", c.qualname, f.loc, f"self.{attr} <- context[type argument {[x.position for x in slot.alts]}]", detail=attr)
            # R05.3
            for a, s in uses[:1]:
                form, _, key, x = a
                comp = K.component_of(x)
                ok, why = True, ""
                if slot.kind == "single":
                    want = {0: ("key", "elem"), 1: ("value",)}.get(slot.position)
                    if comp is None:
                        ok, why = False, f"applied to {T.show(x)[:60]}, not to a component of the input"
                    elif want is None or comp[0] not in want:
                        ok, why = False, f"routine for type argument {slot.position} is applied to the {comp[0]} component"
                    elif comp[0] == "elem" and slot.position != 0:
                        ok, why = False, "element routine resolved from the wrong type argument"
                elif slot.kind == "list" and form == "zip":
                    z = key
                    orders = {x.position[1] for x in slot.alts if isinstance(x.position, tuple)}
                    same_zip = x[0] == "zipelem" and x[2] == z
                    pos_ok = same_zip and z[2].index(C.sattr(attr)) != z[2].index(x[1])
                    if not same_zip or not pos_ok:
                        ok, why = False, "routine and value are not paired by one zip()"
                    elif orders != {"identity"}:
                        ok, why = False, f"routine stack order is {sorted(orders)}; the i-th routine no longer meets the i-th member"
                    elif comp is None:
                        ok, why = False, "zipped values are not the input's values"
                elif slot.kind == "list" and form == "each":
                    ok = x == ("param", "val")
                    why = "member routines are not applied to the input itself"
                elif slot.kind == "dict":
                    kcomp = K.component_of(key) if key is not None else None
                    if form != "keyed" or kcomp is None or kcomp[0] != "key":
                        ok, why = False, "field routine is not looked up by the field name being iterated"
                    elif comp is None or comp[0] != "value":
                        ok, why = False, "field routine is not applied to the value found under that field"
                rep.check(ok, "R05.3", c.qualname, f.loc, f"self.{attr} meets its own component", f"self.{attr}: {why}", detail=attr)
        # structured output key must be the iterated field name
        for p, r in P.returns(P.paths_of(prog, f)):
            shape, leaves, conds = K.output_leaves(r, [g for g, pol in p.guards() if pol])
            if leaves and any(s.kind == "dict" for s in sl.values()):
                k = [leaf for role, leaf in leaves if role == "k"]
                v = [leaf for role, leaf in leaves if role == "v"]
                if k and v:
                    a = K.applied_slot(v[0])
                    rep.check(a is not None and a[2] == k[0], "R05.3", c.qualname, f.loc, "the converted value is emitted under the field name its routine was looked up by", "value and key of the output pair refer to different fields", detail="pair")
    return n


def r05_6(prog, rep, rule="R05.6"):
    """Both abstract routine constructors store the annotation, its origin, the context and the variable faithfully."""
    for d in ("marshal", "unmarshal"):
        _, routines, base = C.DIRS[d]
        c = prog.cls(f"{routines}.{base}")
        init = c.methods.get("__init__")
        if init is None:
            rep.undecided(rule, c.qualname, c.loc, "abstract routine has no __init__")
            continue
        want = {
            "t": lambda v: v == ("param", "t"),
            "origin": lambda v: T.is_call_to(v, f"{C.INSP}.origin") and v[2] == (("param", "t"),),
            "context": lambda v: v == ("param", "context"),
            "var": lambda v: v == ("param", "var"),
        }
        for p in P.paths_of(prog, init):
            stores = {e[2]: e[3] for e in p.events if e[0] == "setattr" and e[1] == C.SELF}
            for attr, ok in want.items():
                v = stores.get(attr)
                rep.check(v is not None and ok(v), rule, init.qualname, init.loc, f"self.{attr} is stored faithfully", f"self.{attr} <- {T.show(v)[:60] if v else 'nothing'}: every routine of this direction is built on a wrong {attr}", detail=attr)


def r05_4(prog, rep, facts):
    m, u = facts["marshal"], facts["unmarshal"]
    for name in ("check_arg", "ctor_arg", "shortcut", "fallback_arg", "var"):
        rep.check(m[name] == u[name], "R05.4", "typelib.*.api._get_unmarshaller", u["loc"], f"siblings agree on {name}: {m[name]}", f"marshal side has {name}={m[name]}, unmarshal side {name}={u[name]}", detail=name)
    for d, ft in facts.items():
        rep.check(ft["check_arg"] == {"unwrapped"} and ft["ctor_arg"] == {"unwrapped"}, "R05.4", ft["qual"], ft["loc"], "predicates are evaluated on, and routines constructed with, node.unwrapped", f"dispatch uses {sorted(ft['check_arg'])} for the predicate and {sorted(ft['ctor_arg'])} for the constructor", detail=f"{d}-unwrapped")
        fb = ft["fallback"]
        rep.check(fb is not None and any(s.kind == "dict" for s in K.slots_of(prog, fb).values()) and ft["fallback_arg"] == "unwrapped", "R05.4", ft["qual"], ft["loc"], "fallback is the structured-type routine built from node.unwrapped", "fallback is not the structured routine on node.unwrapped", detail=f"{d}-fallback")


def run(prog: Program, rep: Report, tier: str):
    rep.rule("R05.1", "context keyed by annotation (type and unwrapped), root returned", floor=8)
    rep.rule("R05.2", "applied member routines are context lookups by type argument / hint", floor=9)
    rep.rule("R05.3", "each slot meets its own component", floor=9)
    rep.rule("R05.4", "sibling agreement of the two api modules", floor=9)
    rep.rule("R05.7", "every documented source shape converts alike: pairs are any 2-element collections (shared with R18.8)", floor=1)
    rep.rule("R05.6", "abstract routine constructors store t, origin(t), context, var", floor=8)
    rep.rule("R05.5", "tolerant field-routine lookups see through forward references (TypeContext rules, shared with C16)", floor=5)
    rep.rule("R05.8", "member annotations are resolved per defining class (no single namespace for the whole MRO; shared with R11.8)", floor=1)
    from . import c11 as _c11

    _c11.hints_namespace(prog, rep, "R05.8")
    rep.rule("R05.9", "members of a parameterised user generic get the alias's arguments in the member's own parameter order (shared with R15.10)", floor=1)
    from . import c15 as _c15

    _c15.alias_substitution(prog, rep, "R05.9")
    _c15.string_annotation_parameters(prog, rep, "R05.9")
    facts = {}
    for d in ("marshal", "unmarshal"):
        ff = factory_facts(prog, d)
        r05_1(prog, rep, d, ff)
        r05_2_3(prog, rep, d)
        facts[d] = dispatch_facts(prog, d)
    r05_4(prog, rep, facts)
    r05_6(prog, rep)
    from ..report import Report as _R, absorb
    from . import c16

    from . import c18

    sub = _R("C05", tier)
    sub.rule("R05.7", "", 0)
    c18.r18_8(prog, sub, rule="R05.7")
    absorb(rep, sub, {"R05.7": "R05.7"})
    sub = _R("C05", tier)
    c16.run(prog, sub, tier)
    absorb(rep, sub, {"R16.1": "R05.5", "R16.2": "R05.5", "R16.3": "R05.5"})
