"""C14 — text-like inputs are interchangeable (carrier discipline)."""

from __future__ import annotations

import ast

from .. import oracle
from .. import paths as P
from .. import terms as T
from ..model import Program
from ..report import Report
from . import c17
from . import common as C
from . import composites as K

EXPLANATION = (
    "R14.1 the carrier tables agree: inspection.istexttype tests exactly {str} plus the classes serdes.decode converts. R14.2 in every unmarshaller "
    "(except the no-op, bytes, union and proxy routines) each text-consuming sink (target constructor, dateparse, re.compile, iteritems/itervalues, "
    "membership) receives a value derived from serdes.decode/serdes.load of the input unless a guard on the path proves the input non-text. "
    "R14.3 every in-package call of a memoised function whose parameter admits an unhashable carrier passes a value proven hashable (decode()'s str, "
    "or an isinstance-str guard). R14.4 strload tries JSON, then literal_eval on the decoded text, then returns the decoded text; each attempt's suppress "
    "set covers the decoder's documented errors. R14.5 every encode/decode on these paths resolves to one encoding."
)
ASSUMPTIONS = [
    "equality of results across carriers and JSON-vs-literal equivalence on values are runtime statements (ND)",
    "hashability facts come from the oracle table (bytearray unhashable; memoryview hashable only when read-only)",
]
TRUSTED = oracle.TRUSTED

TEXT = ["builtins.str", "builtins.bytes", "builtins.bytearray", "builtins.memoryview"]
VAL = ("param", "val")


def decode_classes(prog: Program):
    f = prog.function(f"{C.SERDES}.decode")
    subj = ("param", f.params[0])
    classes = set()
    converts = False
    for p in P.paths_of(prog, f):
        for tm in p.all_terms():
            for s in T.walk(tm):
                if T.is_call_to(s, "builtins.isinstance") and len(s[2]) == 2:
                    cl = s[2][1]
                    for x in cl[1] if cl[0] == "tuple" else (cl,):
                        if T.refname(x):
                            classes.add(T.refname(x))
        if p.exit[0] == "return" and T.contains(p.exit[1], lambda s: s[0] == "call" and s[1][0] == "attr" and s[1][2] == "decode"):
            converts = True
    return f, classes, converts, subj


def r14_1(prog, rep):
    f, dc, converts, _ = decode_classes(prog)
    pc = c17.predicate_classes(prog, "istexttype")
    got = set(pc["classes"]) if pc else set()
    want = {"builtins.str"} | dc
    rep.check(
        converts and got == want, "R14.1", f"{C.INSP}.istexttype", pc["loc"] if pc else "",
        f"istexttype tests {sorted(got)} = {{str}} ∪ what serdes.decode converts",
        f"carrier tables disagree: istexttype tests {sorted(got)}, serdes.decode converts {sorted(dc)}: a carrier is either loaded without being decodable or decodable without being loaded",
    )  # fmt: skip
    # decode() decides by the class of its argument alone: an exit taken on the *content* (empty, falsy, a first byte) gives the
    # same text a different treatment in a different carrier
    subj = ("param", f.params[0])

    def class_only(g):
        def strip(tm):
            if T.is_call_to(tm, "builtins.isinstance", "builtins.issubclass") and tm[2] and T.contains(tm[2][0], lambda y: y == subj):
                return ("const", "<class-test>")
            if T.is_call_to(tm, "builtins.type") and tm[2] == (subj,):
                return ("const", "<class>")
            if tm[0] == "attr" and tm[2] == "__class__" and tm[1] == subj:
                return ("const", "<class>")
            return None

        return not T.contains(T.rewrite(g, strip), lambda y: y == subj)

    by_content = []
    for p in P.paths_of(prog, f):
        env_subj = {subj}
        for g, _pol in p.guards():
            # the memoryview alias (`val.tobytes() if isinstance(val, memoryview) else val`) is still the argument
            g2 = T.rewrite(g, lambda tm: subj if (tm[0] == "ifexp" and subj in tm[1:]) else None)
            if not class_only(g2):
                by_content.append(T.show(g)[:60])
        del env_subj
    rep.check(not by_content, "R14.1", f"{C.SERDES}.decode", f.loc, "decode branches on the class of its argument only", f"decode branches on the content of its argument ({by_content[0] if by_content else ''}): an empty bytes / bytearray / memoryview is returned undecoded while '' is text — unmarshal(str, b'') == \"b''\", Literal[''] rejects b''", detail="class-only")
    rep.check(set(TEXT) - {"builtins.str"} <= dc, "R14.1", f"{C.SERDES}.decode", f.loc, "decode converts bytes, bytearray and memoryview", f"decode does not convert {sorted(set(TEXT) - {'builtins.str'} - dc)}", detail="carriers")


def _nontext_guard(p, subject_terms) -> bool:
    for g, pol in p.guards():
        if not pol or not T.is_call_to(g, "builtins.isinstance") or len(g[2]) != 2:
            continue
        if g[2][0] not in subject_terms:
            continue
        cl = g[2][1]
        names = [T.refname(x) for x in (cl[1] if cl[0] == "tuple" else (cl,))]
        if all(n and not any(_sub(n, t) for t in TEXT) for n in names):
            return True
    return False


def _sub(a, b):
    try:
        return oracle.issub(a, b)
    except Exception:
        return False


def raw_uses(term) -> bool:
    """Does `term` use the input other than through decode()/load()?"""
    if term == VAL:
        return True
    if term[0] == "call" and T.refname(term[1]) in (f"{C.SERDES}.decode", f"{C.SERDES}.load", f"{C.SERDES}.strload") and term[2] and term[2][0] == VAL:
        return False
    return any(raw_uses(c) for c in T.children(term))


def sinks(term):
    """(kind, argument terms) of text-consuming sinks inside `term`."""
    out = []
    for s in T.walk(term):
        if s[0] != "call":
            continue
        n = T.refname(s[1])
        args = list(s[2]) + [v for _, v in s[3]]
        if s[1] in (C.sattr("t"), C.sattr("origin"), C.sattr("caster")):
            out.append(("constructor", args))
        elif n in (f"{C.SERDES}.dateparse", "re.compile", f"{C.SERDES}.iteritems", f"{C.SERDES}.itervalues", "builtins.int", "builtins.float"):
            out.append((n.rsplit(".", 1)[-1], args[:1]))
        elif n == "builtins.zip":
            pass
    for s in T.walk(term):
        if s[0] == "cmp" and s[1] == "in" and s[3] == C.sattr("values"):
            out.append(("membership", [s[2]]))
    return out


def r14_2(prog, rep):
    rows = C.handlers(prog, "unmarshal")
    pe = C.PredEval(prog)
    skip = set()
    k, r = C.route(prog, pe, rows, C.TypeArg("builtins.bytes"))
    if k == "row" and r.routine:
        skip.add(r.routine.qualname)
    for row in rows:
        if row.pred_name in ("isforwardref", "isunresolvable", "isuniontype") and row.routine:
            skip.add(row.routine.qualname)
    n = 0
    for c in C.routine_classes(prog, "unmarshal"):
        f = C.call_of(prog, c)
        if f is None or f.cls is not c or c.qualname in skip or c.name.startswith("NoOp"):
            continue
        bad = []
        first_membership_seen = False
        for p in P.paths_of(prog, f):
            nontext = _nontext_guard(p, (VAL, ("call", ("ref", f"{C.SERDES}.decode"), (VAL,), ()), ("call", ("ref", f"{C.SERDES}.load"), (VAL,), ())))
            terms = []
            for e in p.events:
                if e[0] == "guard":
                    terms.append(e[1])
            if p.exit[0] in ("return", "raise") and len(p.exit) > 1:
                terms.append(p.exit[1]) if p.exit[0] == "return" else None
            for tm in terms:
                for kind, args in sinks(tm):
                    for a in args:
                        if raw_uses(a) and not nontext:
                            if kind == "membership" and a == VAL and not first_membership_seen:
                                # the first raw membership test is the identity short-circuit; a decoded retry must follow
                                continue
                            bad.append(f"{kind} receives the undecoded input on a path where it may be bytes/bytearray/memoryview")
            # temporal helpers receive the raw input only behind a temporal guard
        uses_decode = any(T.contains(tm, lambda s: T.is_call_to(s, f"{C.SERDES}.decode", f"{C.SERDES}.load") and s[2] and s[2][0] == VAL) for p in P.paths_of(prog, f) for tm in p.all_terms())
        n += 1
        rep.check(uses_decode and not bad, "R14.2", c.qualname, f.loc, "every text-consuming sink is fed from decode()/load() of the input (or guarded non-text)", "; ".join(sorted(set(bad))) or "the routine never decodes/loads its input", detail="decode-before-use")
        # container / structured routines use load (JSON / literal text of a wire value must be accepted)
        if K.slots_of(prog, c) and not any(s.kind == "list" and False for s in K.slots_of(prog, c).values()):
            uses_load = any(T.contains(tm, lambda s: T.is_call_to(s, f"{C.SERDES}.load") and s[2] and s[2][0] == VAL) for p in P.paths_of(prog, f) for tm in p.all_terms())
            rep.check(uses_load, "R14.2", c.qualname, f.loc, "composite routine loads JSON / literal text of a wire value", "composite routine does not serdes.load() its input: the text of a wire value is iterated character by character", detail="load")
    return n


def r14_7(prog, rep):
    """Literal members may be text.  Where the routine returns a raw input because it *is* a member (`"1"` for
    Literal["1"]), the same text in a bytes carrier must be matched as text too — the loader would re-type it (1)."""
    rows = C.handlers(prog, "unmarshal")
    lit = [r for r in rows if r.pred_name == "isliteral" and r.routine]
    if not lit:
        rep.undecided("R14.7", "isliteral", "", "no Literal row in the unmarshal table")
        return
    c = lit[0].routine
    f = C.call_of(prog, c)
    DEC = ("call", ("ref", f"{C.SERDES}.decode"), (VAL,), ())
    raw_hit = text_hit = False
    for p, r in P.returns(P.paths_of(prog, f)):
        for g, pol in p.guards():
            if pol and g[0] == "cmp" and g[1] == "in":
                if g[2] == VAL and r == VAL:
                    raw_hit = True
                if g[2] == DEC and r == DEC:
                    text_hit = True
    if not raw_hit:
        rep.held("R14.7", f"isliteral->{c.name}", f.loc, "no raw member is returned as is (every carrier goes through the same decoding)", detail="text-members")
    else:
        rep.check(text_hit, "R14.7", f"isliteral->{c.name}", f.loc, "a text member is matched on the decoded text of every carrier before the loader may re-type it", "a raw str input that is a member is returned as is, but the same text in a bytes / bytearray / memoryview carrier is only matched after serdes.load re-typed it: unmarshal(Literal['1'], '1') == '1' while unmarshal(Literal['1'], b'1') is rejected", detail="text-members")


def parse_function(prog):
    """(entry, parser, text): `strload` and the function that actually tries the JSON decoder and the literal parser -- strload
    itself, or the one package function it calls that does (a memoised private helper keyed by the decoded text).  `text` is
    the term the parser works on, seen from the parser: decode(<its parameter>) or the parameter itself when the entry
    decodes before it calls."""
    import ast as _ast

    entry = prog.function(f"{C.SERDES}.strload")

    def parses(fn):
        return any(isinstance(n, _ast.Call) and prog.resolve_expr_name(fn.module, n.func) == "ast.literal_eval" for n in _ast.walk(fn.node))

    if parses(entry):
        return entry, entry, None
    cands = []
    for n in _ast.walk(entry.node):
        if isinstance(n, _ast.Call):
            q = prog.resolve_expr_name(entry.module, n.func)
            g = prog.functions.get(q or "")
            if g is not None and g is not entry and g.module is entry.module and parses(g) and g not in cands:
                cands.append(g)
    if len(cands) != 1:
        raise C.AnalysisError("anchor: the function that parses text for serdes.strload not found")
    return entry, cands[0], None


def r14_8(prog, rep):
    """strload returns text that is neither JSON nor a literal unchanged, without raising: every exception class the
    literal parser can raise on *text* is suppressed at its call (long runs of operators exhaust the parser's stack)."""
    entry, f, _ = parse_function(prog)
    need = oracle.RAISE_SETS["ast.literal_eval"]
    found = False
    missing = set(need)
    for p in P.paths_of(prog, f):
        evs = p.events
        for i, e in enumerate(evs):
            if e[0] == "attempt" and T.contains(e[1], lambda x: T.is_call_to(x, "ast.literal_eval")) and i + 1 < len(evs) and evs[i + 1][0] in ("suppressed", "caught"):
                found = True
                names = P.handler_names(evs[i + 1]) or []
                missing &= {n for n in need if not oracle.exc_covered(n, names)}
    if not found:
        rep.undecided("R14.8", f.qualname, f.loc, "no guarded ast.literal_eval attempt found in strload")
        return
    if missing and f is not entry:
        # what the parser lets through may be caught by the entry around *every* call of the parser (directly or through
        # its un-memoised __wrapped__)
        calls_parser = lambda x: (x[0] == "call" and (T.refname(x[1]) == f.qualname or (x[1][0] == "attr" and x[1][2] == "__wrapped__" and T.refname(x[1][1]) == f.qualname)))  # noqa: E731
        outer = None
        for p in P.paths_of(prog, entry):
            evs = p.events
            for i, e in enumerate(evs):
                if e[0] == "attempt" and T.contains(e[1], calls_parser) and i + 1 < len(evs) and evs[i + 1][0] in ("suppressed", "caught"):
                    names = P.handler_names(evs[i + 1]) or []
                    here = {n for n in missing if oracle.exc_covered(n, names)}
                    outer = here if outer is None else (outer & here)
        unguarded = [p for p in P.paths_of(prog, entry) if p.exit[0] == "return" and T.contains(p.exit[1], calls_parser) and not P.abandoned(p) and False]
        del unguarded
        if outer:
            # every call site of the parser in the entry must sit in such a handler: look for a call outside any try
            import ast as _ast

            bare = False
            for n in _ast.walk(entry.node):
                if isinstance(n, _ast.Call):
                    q = prog.resolve_expr_name(entry.module, n.func.value if isinstance(n.func, _ast.Attribute) and n.func.attr == "__wrapped__" else n.func)
                    if q == f.qualname:
                        inside = any(isinstance(t0, (_ast.Try, _ast.With)) and any(n is m for m in _ast.walk(t0)) for t0 in _ast.walk(entry.node))
                        if not inside:
                            bare = True
            if not bare:
                missing -= outer
    rep.check(not missing, "R14.8", f.qualname, f.loc, f"the literal fallback is guarded against {sorted(n.rsplit('.', 1)[1] for n in need)}", f"ast.literal_eval can raise {sorted(n.rsplit('.', 1)[1] for n in missing)} on ordinary text (a long path 'a/a/a/…', a slug with thousands of hyphens) and strload does not suppress it: load() raises instead of returning the text unchanged")


def r14_9(prog, rep):
    """The bytes routine never stringifies a bytes-like input: str() of a bytearray / memoryview is its repr (with the
    object's address for a memoryview), not its content."""
    rows = C.handlers(prog, "unmarshal")
    pe = C.PredEval(prog)
    k, r = C.route(prog, pe, rows, C.TypeArg("builtins.bytes"))
    if k != "row" or r.routine is None:
        rep.undecided("R14.9", "unmarshal:bytes", "", "bytes routine not found")
        return
    f = C.call_of(prog, r.routine)
    bad = False
    for p, ret in P.returns(P.paths_of(prog, f)):
        strs = [x for x in T.walk(ret) if T.is_call_to(x, "builtins.str") and x[2] and x[2][0] == VAL]
        if not strs:
            continue
        # is the bytes-like case excluded on this path?
        excluded = any(T.is_call_to(g, "builtins.isinstance") and g[2][0] == VAL and not pol and {"builtins.bytes", "builtins.bytearray", "builtins.memoryview"} <= {T.refname(y) for y in (P.flatten_display(prog, g[2][1]) or [g[2][1]])} for g, pol in p.guards())
        if not excluded:
            bad = True
    rep.check(not bad, "R14.9", r.routine.qualname, f.loc, "bytes-like inputs are converted from their content, never through str()", "a bytes-like input of another class than the target reaches str(val): unmarshal(bytes, memoryview(b'abc')) is b'<memory at 0x…>' (different on every call), unmarshal(bytearray, b'abc') is bytearray(b\"b'abc'\")")


def _annotation_names(prog, f, pname):
    for a in f.node.args.posonlyargs + f.node.args.args + f.node.args.kwonlyargs:
        if a.arg == pname and a.annotation is not None:
            out = set()
            for n in ast.walk(a.annotation):
                if isinstance(n, (ast.Name, ast.Attribute)):
                    r = prog.resolve_expr_name(f.module, n)
                    if r:
                        out.add(r)
            return out
    return set()


def r14_3(prog, rep):
    memo = prog.memoised_functions()
    risky = {}
    for q in memo:
        f = prog.functions.get(q)
        if f is None:
            continue
        for pn in f.params:
            ann = _annotation_names(prog, f, pn)
            bad = sorted(a for a in ann if oracle.hashable(a) in (False, None) and a.startswith("builtins."))
            if bad:
                risky[q] = (f, pn, bad)
    sites = 0
    for q, (g, pn, bad) in risky.items():
        for caller in prog.functions.values():
            try:
                ps = P.paths_of(prog, caller)
            except Exception:
                continue
            seen = set()
            for p in ps:
                for c in p.calls():
                    if T.refname(c[1]) != q or not c[2]:
                        continue
                    a = c[2][0]
                    key = T.show(c)[:100]
                    if key in seen:
                        continue
                    seen.add(key)
                    sites += 1
                    ok = False
                    why = ""
                    if T.is_call_to(a, f"{C.SERDES}.decode"):
                        ok, why = True, "argument is decode(...): str for every bytes-like carrier"
                    elif any(pol and T.is_call_to(gd, "builtins.isinstance") and gd[2][0] == a and T.refname(gd[2][1]) in ("builtins.str", "builtins.bytes") for gd, pol in p.guards()):
                        ok, why = True, "argument is proven str/bytes by a guard"
                    else:
                        # ifexp guard in the same expression
                        why = f"argument {T.show(a)[:40]} may be {bad} (unhashable) when it reaches the memoised {g.name}"
                    rep.check(ok, "R14.3", caller.qualname, caller.loc, f"call of memoised {g.name}: {why}", f"{why}: TypeError('unhashable type') for that carrier", detail=g.name)
    # a *public* memoised function is called by users with every carrier it declares: nothing can decode for them first,
    # and what it returns is the cache entry itself
    for q, (g, pn, bad) in sorted(risky.items()):
        if not g.name.startswith("_") and g.cls is None:
            rep.violated("R14.3", q, g.loc, f"public and memoised on its raw argument `{pn}`, which it declares may be {bad}: {g.name}(bytearray(b'[1]')) raises TypeError (unhashable) where the str / bytes carriers work, {g.name}(1.0) is served the entry of {g.name}(True), and the container it returns is the cached object itself (a caller who mutates it changes every later answer for that text)", detail="public-entry")
    if not risky:
        rep.held("R14.3", f"{C.SERDES}", "", "no memoised function declares an unhashable carrier parameter", nontrivial=False)
    rep.count("memoised_functions", len(memo))
    return sites


# texts the JSON decoder or the literal parser reads as something other than themselves (one per leading-character class
# and shape): a path that hands the text back without having asked the parsers must be closed to every one of them
PARSEABLE_WITNESSES = [
    "1", "10", "-10", "+1", "-2.5", ".5", "1e5", "-1e-3", "1_000", "0x1f", "1j", "-1j", " 1", "\n[1]", "\t{}", "1 ", "true", "false", "null", "None", "True",
    "'a'", '"a"', "b'x'", "''", '""', "[1]", "[]", "{}", '{"a": 1}', "{1}", "()", "(1,)", "1,2", "-1,2", "...",
    "[[1]]", "'a' 'b'", "1 + 2j", "-0", "00", "1.", "\"\\u00e9\"", "r'x'", "0b1", "0o7", " null ", "[1,]", "{'a': 1}", "(1)", "- 1",
]  # fmt: skip


def _reads_as_something_else(w: str) -> bool:
    """Strict JSON or a Python literal, and not the text itself (decided with the standard library's own parsers)."""
    import ast as _ast
    import json as _json

    def _no_constants(c):
        raise ValueError(c)

    for parse in (lambda x: _json.loads(x, parse_constant=_no_constants), _ast.literal_eval):
        try:
            return parse(w) != w
        except (ValueError, TypeError, SyntaxError, MemoryError, RecursionError):
            continue
    return False


PARSEABLE_WITNESSES = [w for w in PARSEABLE_WITNESSES if _reads_as_something_else(w)]


def text_shortcuts(prog, rep, entry, parser, rule="R14.4"):
    """Every path of strload (and of the function that parses for it) which returns its text *without a parser having declined it*
    is taken by no parseable text: its guards are interpreted (terms.ceval: text operations only) on a catalogue of witnesses."""
    n = 0
    for fn in [entry] + ([parser] if parser is not entry else []):
        val = ("param", fn.params[0])
        dec = ("call", ("ref", f"{C.SERDES}.decode"), (val,), ())
        for i, p in enumerate(P.paths_of(prog, fn)):
            if p.exit[0] != "return" or p.exit[1] not in (val, dec):
                continue
            if P.abandoned(p):
                continue  # a parser was asked and declined
            # (the way out for what is no text at all: `if not istexttype(val.__class__): return val`)
            nontext = any((not pol) and (T.is_call_to(a, f"{C.INSP}.istexttype") or (T.is_call_to(a, "builtins.isinstance") and a[2][:1] == (val,))) for a, pol in T.derive_atoms(p.guards()))
            if nontext:
                continue
            textual = [(g, pol) for g, pol in p.guards() if T.contains(g, lambda x: x in (val, dec))]
            # class tests: the witnesses are exact `str` objects
            def class_test(g):
                if T.is_call_to(g, f"{C.INSP}.istexttype", f"{C.INSP}.isstringtype") or (T.is_call_to(g, "builtins.isinstance") and g[2][:1] in ((val,), (dec,)) and T.contains(g[2][1], lambda z: z == ("ref", "builtins.str"))):
                    return True
                if g[0] == "cmp" and g[1] == "is" and ("ref", "builtins.str") in g[2:4] and any(x in (("attr", val, "__class__"), ("attr", dec, "__class__")) for x in g[2:4]):
                    return True
                return None
            if any(class_test(g) is True and not pol for g, pol in textual):
                continue  # a path for what is no exact str
            textual = [(g, pol) for g, pol in textual if class_test(g) is None]
            if not textual:
                rep.violated(rule, fn.qualname, fn.loc, "a path returns the text unparsed without asking a parser and without looking at the text", detail=f"shortcut-path{i}")
                continue
            n += 1
            taken, unknown = [], None
            for w in PARSEABLE_WITNESSES:
                try:
                    if all(bool(T.ceval(g, {val: w, dec: w})) == pol for g, pol in textual):
                        taken.append(w)
                except T.Undecidable as e:
                    unknown = str(e)
                    break
            gs = "; ".join(("" if pol else "not ") + T.show(g)[:60] for g, pol in textual)
            if unknown is not None:
                rep.undecided(rule, fn.qualname, fn.loc, f"a path returns the text unparsed under a condition on the text that is outside the interpreted fragment ({unknown}): [{gs}]", detail=f"shortcut-path{i}")
                continue
            rep.check(not taken, rule, fn.qualname, fn.loc, f"the unparsed-text shortcut [{gs}] is closed to all {len(PARSEABLE_WITNESSES)} parseable witnesses", f"text that JSON / literal_eval reads is handed back unparsed under [{gs}]: {taken[:6]} come back as str (an Enum member with value -10 is not found from its text '-10')", detail=f"shortcut-path{i}")
    if not n:
        rep.held(rule, entry.qualname, entry.loc, "no path returns the text without a parser having declined it", detail="no-shortcut", nontrivial=False)


# JSON texts holding an integer outside what the fast decoder keeps exact (-2**63 .. 2**64-1)
LONG_INTEGER_TEXTS = (
    "18446744073709551616",
    "-9223372036854775809",
    "-9999999999999999999",
    "[18446744073709551616]",
    " 18446744073709551616",
    "[1, 18446744073709551617]",
    '{"a": -9223372036854775809}',
    "[-1, -18446744073709551616]",
)


def _callee_name(prog, f, c):
    """The function a callee term denotes: a reference, or a module constant `functools.partial(<function>, ...)`."""
    import ast as _ast

    rn = T.refname(c)
    if rn and rn.startswith(f.module.name + "."):
        v = f.module.assigns.get(rn.rsplit(".", 1)[1])
        if isinstance(v, _ast.Call) and prog.resolve_expr_name(f.module, v.func) == "functools.partial" and v.args:
            return prog.resolve_expr_name(f.module, v.args[0])
    return rn


def _callees_of(prog, f, c, conds=()):
    """(conditions, function) for every function the callee term may denote: `(a if c else b)(x)` calls a under c, b otherwise."""
    if c[0] == "ifexp":
        yield from _callees_of(prog, f, c[2], conds + ((c[1], True),))
        yield from _callees_of(prog, f, c[3], conds + ((c[1], False),))
    else:
        yield conds, _callee_name(prog, f, c)


def _parser_paths(prog, f):
    """Paths of the parsing function with its small private helpers read in place (the choice of decoder in a helper)."""
    try:
        return P.spaths(prog, f)
    except C.AnalysisError:
        return P.paths_of(prog, f)


def long_integers_exact(prog, rep, rule="R14.4"):
    """The default JSON backend (orjson, when installed) reads an integer outside the 64-bit range as a *float* instead of
    refusing it, so the exact literal parser behind it is never asked.  Where typelib.py.compat may bind `json` to orjson, the
    function that parses text routes some texts (the ones with long numerals) to the standard library's exact decoder."""
    import ast as _ast

    compat = prog.modules.get("typelib.py.compat")
    fast = compat is not None and any(isinstance(n, _ast.Import) and any(a.name == "orjson" for a in n.names) for n in _ast.walk(compat.tree))
    _entry, f, _ = parse_function(prog)
    if not fast:
        rep.held(rule, f.qualname, f.loc, "the JSON backend is the standard library's", detail="long-integers-exact", nontrivial=False)
        return
    val = ("param", f.params[0])
    exact = False
    # compiled patterns of the module (constants of the source, compiled here by the standard library)
    import re as _re

    env0: dict = {}
    for nm, v in f.module.assigns.items():
        if isinstance(v, _ast.Call) and prog.resolve_expr_name(f.module, v.func) == "re.compile" and len(v.args) == 1 and not v.keywords and isinstance(v.args[0], _ast.Constant) and isinstance(v.args[0].value, str):
            try:
                env0[("ref", f"{f.module.name}.{nm}")] = _re.compile(v.args[0].value)
            except _re.error:
                pass
    callees = lambda c: _callees_of(prog, f, c)  # noqa: E731

    exact_paths = []  # the guard lists under which the standard decoder reads the text
    for p, r in P.returns(_parser_paths(prog, f)):
        if r[0] != "call" or r[2][:1] != (val,):
            continue
        for conds, name in callees(r[1]):
            gs = list(p.guards()) + list(conds)
            if name == "json.loads" and any(T.contains(g, lambda x: x == val) for g, _ in gs):
                exact = True
                exact_paths.append(gs)
    # every text with an integer the fast decoder cannot hold (below -2**63, from 2**64) takes one of those paths, wherever
    # in the text the numeral stands: the routing conditions are interpreted on witness texts
    missed = []
    undecidable = None
    if exact:
        for w in LONG_INTEGER_TEXTS:
            routed = False
            for p in exact_paths:
                try:
                    if all(bool(T.ceval(g, {**env0, val: w})) == pol for g, pol in p):
                        routed = True
                        break
                except T.Undecidable as e:
                    undecidable = str(e)
            if not routed:
                missed.append(w)
        if undecidable is not None and missed:
            rep.held(rule, f.qualname, f.loc, f"some text reaches the exact decoder (the routing condition is outside the interpreted fragment: {undecidable})", detail="long-integers-routed", nontrivial=False)
        else:
            rep.check(not missed, rule, f.qualname, f.loc, f"each of {len(LONG_INTEGER_TEXTS)} witness texts with an integer beyond 64 bits is routed to the exact decoder", f"{missed[:3]} hold(s) an integer the fast decoder reads as a float (below -2**63 or from 2**64 on) and is not routed to the exact decoder: the routing test looks at the start of the text only, or asks for more digits than -9223372036854775809 has", detail="long-integers-routed")
    rep.check(exact, rule, f.qualname, f.loc, "texts with long numerals are read by the standard (exact) JSON decoder", "every text is read by compat.json, which is orjson when installed: an integer beyond 64 bits comes back as a float -- unmarshal(list[int], '[1180591620717411303425]') silently returns [1180591620717411303424], an Enum member with the value 2**70 + 1 is not found from its text, a UUID is not read back from str(u.int)", detail="long-integers-exact")


def r14_4(prog, rep):
    entry, f, _ = parse_function(prog)
    val = ("param", f.params[0])
    dec = ("call", ("ref", f"{C.SERDES}.decode"), (val,), ())
    if f is not entry:
        # the entry decodes and hands the text to the parser: the parser's own parameter is the decoded text
        ev = ("param", entry.params[0])
        decoded_first = any(T.contains(tm, lambda x: x[0] == "call" and T.refname(x[1]) == f.qualname and x[2][:1] == (("call", ("ref", f"{C.SERDES}.decode"), (ev,), ()),)) for p in P.paths_of(prog, entry) for tm in p.all_terms())
        rep.check(decoded_first, "R14.4", entry.qualname, entry.loc, "the entry hands the decoded text to the parser", "strload does not pass decode(val) to the function that parses", detail="entry-decodes")
        dec = val
    ps = _parser_paths(prog, f)
    json_first = lit_second = final = False
    sup1 = sup2 = None
    for p in ps:
        if p.exit[0] != "return":
            continue
        r = p.exit[1]
        suppressed = P.abandoned(p)
        if r[0] == "call" and all((name or "").endswith(".loads") for _c, name in _callees_of(prog, f, r[1])) and r[2] in ((val,), (dec,)) and not suppressed:
            json_first = True
        if T.is_call_to(r, "ast.literal_eval") and len(suppressed) == 1:
            lit_second = r[2] == (dec,)
        if r == dec and len(suppressed) == 2:
            final = True
            sup1, sup2 = suppressed[0], suppressed[1]
    text_shortcuts(prog, rep, entry, f)
    long_integers_exact(prog, rep)
    # the public entry returns what is no text untouched (as load() does), and hands the parsers an exact str (the JSON
    # decoder reads nothing else; an unparsed text is remembered as the object it is)
    ev0 = ("param", entry.params[0])
    eps = P.paths_of(prog, entry)
    untouched = any(p.exit[0] == "return" and p.exit[1] == ev0 and any((not pol) and (T.is_call_to(a, f"{C.INSP}.istexttype") or T.is_call_to(a, "builtins.isinstance")) for a, pol in T.derive_atoms(p.guards())) for p in eps)
    # ... and only that: text that no parser reads comes back as the decoded (exact) text, never as the carrier it came in
    def _is_text_exit(p):
        atoms = T.derive_atoms(p.guards())
        nontext = any((not pol) and (T.is_call_to(a, f"{C.INSP}.istexttype") or T.is_call_to(a, "builtins.isinstance")) for a, pol in atoms)
        exact_str = any(pol and a[0] == "cmp" and a[1] in ("is", "==") and T.refname(a[3]) == "builtins.str" and T.contains(a[2], lambda x: x == ev0) for a, pol in atoms)
        return not nontext and not exact_str

    carrier_back = [p for p in eps if p.exit[0] == "return" and p.exit[1] == ev0 and _is_text_exit(p)]
    if f is not entry:
        rep.check(not carrier_back, "R14.4", entry.qualname, entry.loc, "text is never handed back as the carrier it came in", "an exit of strload() that has established that the input is text returns the input object itself, not the decoded text: bytes / bytearray / memoryview with text no parser reads (a long run of operators) come back as the carrier -- load(b'...') is bytes where load('...') is str", detail="entry-returns-decoded")
    rep.check(untouched, "R14.4", entry.qualname, entry.loc, "what is no text is returned untouched by the entry itself", "strload() hands whatever it is given to the memoised parser: strload([1, 2]) raises TypeError (unhashable), strload(True) is answered 1.0 after strload(1.0) -- load() returns the same inputs untouched", detail="entry-nontext")
    # every argument that reaches the parser is the result of str.__str__ / str(), or its class has been compared with str -- and found equal
    exact = True
    n_parse = 0
    for p in eps:
        atoms = T.derive_atoms(p.guards())
        for tm in p.all_terms():
            for x in T.walk(tm):
                if x[0] == "call" and (T.refname(x[1]) == f.qualname or (x[1][0] == "attr" and x[1][2] == "__wrapped__" and T.refname(x[1][1]) == f.qualname)) and x[2]:
                    a = x[2][0]
                    n_parse += 1
                    made = T.is_call_to(a, "builtins.str.__str__", "builtins.str")
                    known = any(val and at[0] == "cmp" and at[1] == "is" and ("ref", "builtins.str") in at[2:4] and (("attr", a, "__class__") in at[2:4] or ("call", ("ref", "builtins.type"), (a,), ()) in at[2:4]) for at, val in atoms)
                    if not (made or known):
                        exact = False
    exact = exact and n_parse > 0
    # running out of stack or memory while parsing ordinary text (long runs of operators) is not raised to the caller of load():
    # every call of the parser in the entry sits under a handler for RecursionError and MemoryError
    import ast as _ast

    def _class_names(e):
        """Names of the exception classes an `except` type / suppress argument denotes (a module-level tuple constant is its members)."""
        if isinstance(e, _ast.Tuple):
            return [n for x in e.elts for n in _class_names(x)]
        if isinstance(e, _ast.Starred):
            return _class_names(e.value)
        if isinstance(e, _ast.Name) and e.id in entry.module.assigns and isinstance(entry.module.assigns[e.id], _ast.Tuple):
            return _class_names(entry.module.assigns[e.id])
        return [_ast.unparse(e)]

    unguarded = []
    for node in _ast.walk(entry.node):
        if isinstance(node, _ast.Call) and f.name in _ast.unparse(node.func) and f is not entry:
            covered = set()
            for tr in _ast.walk(entry.node):
                if isinstance(tr, _ast.Try) and any(node is sub for b in tr.body for sub in _ast.walk(b)):
                    for h in tr.handlers:
                        names = _class_names(h.type) if h.type is not None else ["BaseException"]
                        covered |= set(names)
                # ... or, the same thing, inside `with contextlib.suppress(RecursionError, MemoryError):`
                if isinstance(tr, _ast.With) and any(node is sub for b in tr.body for sub in _ast.walk(b)):
                    for it in tr.items:
                        ce = it.context_expr
                        if isinstance(ce, _ast.Call) and prog.resolve_expr_name(entry.module, ce.func) == "contextlib.suppress":
                            covered |= {n for a in ce.args for n in _class_names(a)}
            if not ({"RecursionError", "MemoryError"} <= covered or covered & {"Exception", "BaseException"}):
                unguarded.append(sorted(covered))
    if f is not entry:
        rep.check(not unguarded, "R14.4", entry.qualname, entry.loc, "every call of the parser in the entry is under handlers for RecursionError and MemoryError", f"a call of the parser in strload() is covered for {unguarded[:1]} only: ordinary text with a long run of operators ('1+1+…', a path of thousands of segments) exhausts the literal parser and load() raises instead of returning the text", detail="entry-resource-errors")
    rep.check(exact, "R14.4", entry.qualname, entry.loc, "the text handed to the parsers is an exact str", "an instance of a str subclass is handed to the parsers as it is: the JSON decoder reads exact str only and reports anything else as 'not JSON' (load(Text('{\"a\": null}')) returns the text; unmarshal(list[bool], Text('[true, false]')) gives one True per character), and unparsed text is remembered as that very object for every equal text", detail="entry-exact-str")
    rep.check(json_first, "R14.4", f.qualname, f.loc, "JSON is tried first on the input", "the JSON decoder is not the first attempt", detail="json-first")
    rep.check(lit_second, "R14.4", f.qualname, f.loc, "literal_eval is tried second, on the decoded text", "literal_eval is not the second attempt or does not receive decode(val)", detail="literal-second")
    rep.check(final, "R14.4", f.qualname, f.loc, "otherwise the decoded text is returned", "the fall-through does not return decode(val)", detail="fallback")
    if sup1 is not None:
        rep.check(oracle.exc_covered("builtins.ValueError", sup1), "R14.4", f.qualname, f.loc, "JSON attempt suppresses ValueError (JSONDecodeError)", "JSON decode errors escape strload", detail="suppress-json")
        need = ["builtins.ValueError", "builtins.SyntaxError"]
        rep.check(all(oracle.exc_covered(e, sup2) for e in need), "R14.4", f.qualname, f.loc, "literal_eval attempt suppresses ValueError and SyntaxError", f"literal_eval errors escape strload (suppressed: {sup2})", detail="suppress-literal")


def _const_of(prog, term, f=None):
    if term is None:
        return "utf-8"
    if term[0] == "const":
        return term[1]
    if term[0] == "ref":
        mn, _, nm = term[1].rpartition(".")
        m = prog.modules.get(mn)
        if m and nm in m.assigns:
            try:
                return ast.literal_eval(m.assigns[nm])
            except Exception:
                return None
    if term[0] == "param" and f is not None:
        a = f.node.args
        allp = a.posonlyargs + a.args
        defs = dict(zip([x.arg for x in allp][len(allp) - len(a.defaults) :], a.defaults))
        defs.update({k.arg: d for k, d in zip(a.kwonlyargs, a.kw_defaults) if d is not None})
        d = defs.get(term[1])
        if d is not None:
            return _const_of(prog, P.Evaluator(prog, f.module, None).expr(d, {}))
    return None


def _norm_enc(v):
    return str(v).lower().replace("_", "-").replace("utf8", "utf-8")


def r14_5(prog, rep):
    encs: dict = {}
    for q, f in prog.functions.items():
        if not (q.startswith(C.SERDES) or q.startswith("typelib.unmarshals.routines")):
            continue
        try:
            ps = P.paths_of(prog, f)
        except Exception:
            continue
        for p in ps:
            for c in p.calls():
                if c[1][0] == "attr" and c[1][2] in ("encode", "decode") and c[1][1][0] != "ref":
                    arg = c[2][0] if c[2] else dict(c[3]).get("encoding")
                    v = _const_of(prog, arg, f)
                    encs.setdefault((q, c[1][2]), (set(), f.loc))[0].add(v)
    vals = {_norm_enc(v) for (vs, _) in encs.values() for v in vs}
    for (q, kind), (vs, loc) in sorted(encs.items()):
        shown = sorted(map(str, vs))
        rep.check(None not in vs and len(vals) == 1, "R14.5", q, loc, f".{kind}() uses {shown}, the one encoding of these paths", f".{kind}() uses {shown} while the sites together use {sorted(vals)}: the same text is read differently depending on its carrier (e.g. a leading U+FEFF survives in a str but is stripped from bytes)", detail=kind)


def run(prog: Program, rep: Report, tier: str):
    rep.rule("R14.1", "istexttype and serdes.decode agree on the text carriers", floor=2)
    rep.rule("R14.2", "decode/load before every text-consuming sink", floor=16)
    rep.rule("R14.3", "memoised decoders receive hashable carriers only", floor=1)
    rep.rule("R14.4", "strload fallback order and suppress coverage", floor=5)
    rep.rule("R14.5", "one encoding on all encode/decode sites", floor=2)
    rep.rule("R14.8", "strload never raises on text: the literal fallback suppresses what the parser can raise", floor=1)
    r14_8(prog, rep)
    rep.rule("R14.9", "the bytes routine converts bytes-like inputs from their content", floor=1)
    r14_9(prog, rep)
    rep.rule("R14.7", "Literal text members are matched in every carrier", floor=1)
    r14_7(prog, rep)
    rep.rule("R14.6", "a memoryview carrier is decoded from the bytes of the view itself (shared with R04.10)", floor=1)
    r14_1(prog, rep)
    r14_2(prog, rep)
    r14_3(prog, rep)
    r14_4(prog, rep)
    r14_5(prog, rep)
    from ..report import Report as _R, absorb
    from . import c04

    sub = _R("C14", tier)
    sub.rule("R14.6", "", 0)
    c04.r04_10(prog, sub, rule="R14.6")
    for o in list(sub.obligations):
        if not o.key.endswith("#memoryview"):
            sub.obligations.remove(o)
    absorb(rep, sub, {"R14.6": "R14.6"})
