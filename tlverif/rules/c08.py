"""C08 — union members are tried in declared order, None always honoured."""

from __future__ import annotations

from .. import oracle
from .. import paths as P
from .. import terms as T
from ..model import Program
from ..report import Report
from . import common as C
from . import composites as K

EXPLANATION = (
    "R08.1 order-transformer analysis of the member stack built by both union routines (identity and stable none-first partition accepted; rotation, "
    "reversal, sorting rejected), and the routine list is built element-wise from that stack. R08.2 for every unmarshal table row the may-raise set of its "
    "routine (explicit raises + curated raise sets of the stdlib constructors it reaches, followed through serdes helpers) must be covered by the suppress "
    "tuple around the member call. R08.3 None fast path: marshal returns None under the nullable guard before the loop; unmarshal puts the None member "
    "first (or tests for None before the loop). R08.4 falling out of the loop raises ValueError; the loop returns the first result. R08.5 both siblings suppress the same classes."
)
ASSUMPTIONS = [
    "which member accepts a given value, and equality with unmarshal(A_i, x), are value-level (ND)",
    "RecursionError/MemoryError are exempt from R08.2",
    "raise sets of stdlib constructors are the curated table in tlverif/oracle.py",
]
TRUSTED = oracle.TRUSTED


def union_routine(prog: Program, direction: str):
    rows = C.handlers(prog, direction)
    u = [r for r in rows if r.pred_name == "isuniontype" and r.routine]
    return u[0].routine if u else None


def suppress_sets(prog, f):
    """Exception names of the handler (contextlib.suppress or try/except) around the member call, per distinct set."""
    out = []
    for p in P.paths_of(prog, f):
        for i, e in enumerate(p.events):
            names = P.handler_names(e)
            if names is None:
                continue
            # the abandoned attempt must be the member call
            prev = p.events[i - 1] if i else None
            if prev is not None and prev[0] == "attempt":
                a = K.applied_slot(prev[1])
                if a and a[0] == "each":
                    # a clause that re-raises (resource errors, R08.9) lets nothing continue: it is no part of the set
                    rest = p.events[i + 1 :]
                    if e[0] == "caught" and p.exit[0] == "raise" and not any(x[0] in ("loop", "loopend", "attempt") for x in rest):
                        continue
                    t = tuple(names)
                    if t not in out:
                        out.append(t)
    return out


def r08_1(prog, rep, direction, c):
    sl = K.slots_of(prog, c)
    lists = [s for s in sl.values() if s.kind == "list"]
    f = prog.lookup_method(c, "__init__")
    if not lists:
        rep.violated("R08.1", c.qualname, c.loc, "no member-routine list resolved from the context by the union's arguments", detail="stack")
        return None
    slot = lists[0]
    orders = sorted({a.position[1] for a in slot.alts if isinstance(a.position, tuple)})
    bad = [o for o in orders if o not in ("identity", "none-first-stable")]
    rep.check(
        not bad, "R08.1", c.qualname, f.loc,
        f"member routines are built in {orders} order of the declared members",
        f"member stack is reordered by a {bad} transformation: members are no longer tried in declared order (e.g. Union[None, int, str] tries str first and turns None into 'None')",
        detail="order",
    )  # fmt: skip
    return slot


def r08_3_4(prog, rep, direction, c, slot):
    f = C.call_of(prog, c)
    ps = P.paths_of(prog, f)
    attr = slot.attr
    first_result = False
    for p, r in P.returns(ps):
        a = K.applied_slot(r)
        if a and a[0] == "each" and a[1] == attr and a[3] == ("param", "val"):
            first_result = True
    rep.check(first_result, "R08.4", c.qualname, f.loc, "the loop returns the first member routine's result on the input", "no path returns elem(member routines)(val)", detail="first-acceptor")
    # only the members answer: besides `None -> None`, no path returns without having asked the member routines in order
    shortcuts = []
    for p, r in P.returns(ps):
        a = K.applied_slot(r)
        if a and a[0] == "each" and a[1] == attr:
            continue
        is_none = any(pol and g[0] == "cmp" and g[1] == "is" and g[2] == ("param", "val") and g[3] == ("const", None) for g, pol in p.guards())
        if is_none and r in (("param", "val"), ("const", None)):
            continue
        if any(e[0] == "loop" for e in p.events):
            continue  # a result computed inside the member loop (judged by first-acceptor above)
        shortcuts.append(T.show(r)[:60])
    rep.check(not shortcuts, "R08.4", c.qualname, f.loc, "no answer is given before the members are asked in declared order (None -> None excepted)", f"a short-cut returns {shortcuts[0] if shortcuts else ''} before the member loop: an input that an earlier member accepts and converts (2.5 for Union[int, float], a datetime for Union[date, datetime]) is answered out of order", detail="only-members-answer")
    # (a handler that re-raises what it caught -- resource errors, R08.9 -- is not "exhausting the members")
    reraised = lambda p: p.exit[0] == "raise" and (len(p.exit) < 2 or p.exit[1] is None or p.exit[1] == ("const", None) or p.exit[1][0] in ("reraise", "caught", "exc")) and any(e[0] == "caught" for e in p.events)  # noqa: E731
    falls = [p for p in ps if p.exit[0] != "return" and not reraised(p)]
    ok = bool(falls) and all(p.exit[0] == "raise" and T.is_call_to(p.exit[1], "builtins.ValueError") for p in falls)
    rep.check(ok, "R08.4", c.qualname, f.loc, "falling out of the loop raises ValueError", "a path that exhausts the members does not raise ValueError", detail="terminal")
    # None fast path
    none_fast = False
    for p, r in P.returns(ps):
        gs = p.guards()
        is_none = any(pol and g[0] == "cmp" and g[1] == "is" and g[2] == ("param", "val") and g[3] == ("const", None) for g, pol in gs)
        before_loop = not any(e[0] == "loop" for e in p.events)
        if is_none and before_loop and r in (("param", "val"), ("const", None)):
            none_fast = True
    # ... and only for a union that declares None: elsewhere None is an input like any other (the first member that accepts it
    # answers, or ValueError)
    opt_attrs = {a for ip in C.init_attr_paths(prog, c) for a, v in ip["attrs"].items() if v is not None and T.contains(v, lambda x: T.is_call_to(x, f"{C.INSP}.isoptionaltype"))}
    unconditional = []
    for p, r in P.returns(ps):
        gs = p.guards()
        is_none = any(pol and g[0] == "cmp" and g[1] == "is" and g[2] == ("param", "val") and g[3] == ("const", None) for g, pol in gs)
        if not (is_none and not any(e[0] == "loop" for e in p.events) and r in (("param", "val"), ("const", None))):
            continue
        atoms = T.derive_atoms(gs)
        declared = any(pol and (T.is_call_to(a, f"{C.INSP}.isoptionaltype") or T.self_attr(a) in opt_attrs) for a, pol in atoms)
        if not declared:
            unconditional.append(p)
    if none_fast:
        rep.check(not unconditional, "R08.3", c.qualname, f.loc, "the None short-cut is taken only where the union declares None", "None is handed back before the members are asked whether or not the union declares it: for Union[int, str] the first member that accepts None answers ('None'), for Union[int, float] the input is rejected (ValueError) -- the short-cut returns None for both", detail="none-declared")
    orders = {a.position[1] for a in slot.alts if isinstance(a.position, tuple)}
    init = prog.lookup_method(c, "__init__")
    none_first = False
    # none-first-stable on the optional path
    for ip in C.init_attr_paths(prog, c):
        v = ip["attrs"].get(attr)
        if v is None:
            continue
        s = K._slot_from(prog, c, attr, v)
        if s and isinstance(s.position, tuple) and s.position[1] == "none-first-stable":
            if any(pol and T.is_call_to(g, f"{C.INSP}.isoptionaltype") for g, pol in ip["path"].guards()):
                none_first = True
    if direction == "marshal":
        rep.check(none_fast, "R08.3", c.qualname, f.loc, "None is passed through before any member is tried", "no `val is None -> return` fast path before the member loop", detail="none")
    else:
        rep.check(none_fast or none_first, "R08.3", c.qualname, (init or f).loc, "None is honoured first (None member moved to the front, stable, for optional unions / fast path)", "for an optional union the None member is neither tried first nor short-circuited: an earlier member (str) converts None to 'None'", detail="none")
    del orders


def stdlib_reach(prog, f, depth=3, seen=None):
    """Names of stdlib callables reachable from f through in-package calls (bounded)."""
    seen = seen if seen is not None else set()
    out = set()
    if f.qualname in seen or depth < 0:
        return out
    seen.add(f.qualname)
    try:
        ps = P.paths_of(prog, f)
    except Exception:
        return out
    for p in ps:
        for c in p.calls():
            n = T.refname(c[1])
            if not n:
                continue
            if n.startswith("typelib."):
                g = prog.functions.get(n)
                if g is not None and n.startswith(C.SERDES):
                    out |= stdlib_reach(prog, g, depth - 1, seen)
            else:
                out.add(n)
    return out


def explicit_raises(prog, f, depth=3, seen=None) -> set:
    """Exception classes raised explicitly (raise / assert) by f and the in-package helpers it reaches."""
    import ast as _ast

    seen = seen if seen is not None else set()
    out = set()
    if f.qualname in seen or depth < 0:
        return out
    seen.add(f.qualname)
    for n in _ast.walk(f.node):
        if isinstance(n, _ast.Assert):
            out.add("builtins.AssertionError")
    try:
        ps = P.paths_of(prog, f)
    except Exception:
        return out
    for p in ps:
        if p.exit[0] == "raise" and p.exit[1][0] == "call" and T.refname(p.exit[1][1]):
            out.add(T.refname(p.exit[1][1]))
        for c in p.calls():
            n = T.refname(c[1])
            if n and n.startswith(C.SERDES + ".") and n in prog.functions:
                out |= explicit_raises(prog, prog.functions[n], depth - 1, seen)
    return out


FAMILY_CTOR = {
    "isdecimaltype": "decimal.Decimal",
    "isfractiontype": "fractions.Fraction",
    "isuuidtype": "uuid.UUID",
    "ispathtype": "pathlib.PurePath",
    "isenumtype": "enum.Enum",
    "isnumbertype": "builtins.int",
    "isintegertype": "builtins.int",
    "isfloattype": "builtins.float",
    "istimedeltatype": "datetime.timedelta",
}


def r08_2(prog, rep, sup, direction="unmarshal"):
    rows = C.handlers(prog, direction)
    done = set()
    # members that run user code (a dataclass __post_init__, an Enum._missing_, any constructor of a structured class)
    # reject with whatever that code raises: only `Exception` itself covers "whichever error the member used"
    rep.check(
        oracle.exc_covered("builtins.Exception", list(sup)), "R08.2", f"{direction}:user-code-members", rows[0].loc,
        "any Exception raised by a member counts as that member's rejection",
        f"the union suppresses an allow-list {sorted(x.rsplit('.', 1)[-1] for x in sup)}: a member that rejects through user code (assert in __post_init__ -> AssertionError, a dict lookup in Enum._missing_ -> KeyError, a custom exception) or by exhausting the stack on deep text (RecursionError) aborts the union instead of letting the next member try / raising ValueError",
        detail="any-exception",
    )  # fmt: skip
    for r in rows:
        if r.routine is None:
            continue
        f = C.call_of(prog, r.routine)
        if f is None:
            continue
        may = {e for e in explicit_raises(prog, f) if e.startswith("builtins.") or e.startswith("decimal.") or e.startswith("re.")}
        reach = stdlib_reach(prog, f)
        for n in reach:
            for e in oracle.RAISE_SETS.get(n, []):
                may.add(e)
        calls_ctor = any(c[1] in (C.sattr("t"), C.sattr("origin"), C.sattr("caster")) for p in P.paths_of(prog, f) for c in p.calls())
        fam = FAMILY_CTOR.get(r.pred_name)
        if calls_ctor and fam:
            may |= set(oracle.RAISE_SETS.get(fam, []))
        for e in sorted(may):
            key = (r.pred_name, r.routine.name, e)
            if key in done:
                continue
            done.add(key)
            cov = oracle.exc_covered(e, list(sup))
            rep.check(
                cov, "R08.2", f"{direction}:{r.pred_name}->{r.routine.name}" if direction == "marshal" else f"{r.pred_name}->{r.routine.name}", f.loc,
                f"{e} raised while rejecting an input is covered by the union's suppress tuple",
                f"a member of this family can reject an input with {e}, which the union's suppress tuple {sorted(x.rsplit('.', 1)[-1] for x in sup)} does not cover: the union aborts instead of trying the next member",
                detail=e.rsplit(".", 1)[-1],
            )  # fmt: skip


def r08_6(prog, rep):
    """isoptionaltype must look for the None member among *all* members."""
    f = prog.function(f"{C.INSP}.isoptionaltype")
    obj = ("param", f.params[0])
    ok = False
    fixed_index = False
    # (the search may be a comprehension inside the returned expression, or a loop with a flag: then the test sits in a guard)
    for p, r in P.returns(P.paths_of(prog, f)):
        for s in [y for tm in [r] + [g for g, _ in p.guards()] for y in T.walk(tm)]:
            if s[0] == "cmp" and s[1] in ("in", "is", "==") and (T.contains(s[3], lambda x: x == ("const", None)) or T.contains(s[3], lambda x: T.is_call_to(x, "builtins.type"))):
                subj = s[2]
                if subj[0] == "elem" and T.contains(subj[1], lambda x: x == ("attr", obj, "__args__") or (T.is_call_to(x, "builtins.getattr") and x[2][:2] == (obj, ("const", "__args__"))) or (T.is_call_to(x, "typing.get_args", f"{C.INSP}.args") and x[2][:1] == (obj,))):
                    ok = True
                if subj[0] == "sub" and subj[2][0] == "const":
                    fixed_index = True
    rep.check(ok and not fixed_index, "R08.6", f.qualname, f.loc, "the None member is searched among all union members", "isoptionaltype looks for None at a fixed position only: a union with None elsewhere is not treated as optional (Union[str, None, int] turns None into 'None')", detail="all-members")
    # sibling agreement: every origin isuniontype() recognises as a union is one isoptionaltype() considers (both spellings,
    # typing.Union and the PEP 604 types.UnionType, denote the same annotation)
    fu = prog.functions.get(f"{C.INSP}.isuniontype")
    if fu is not None:
        def origins(fn):
            out = set()
            delegated = False
            for pth in P.paths_of(prog, fn):
                for tm in pth.all_terms():
                    for x in T.walk(tm):
                        if x[0] == "cmp" and x[1] in ("in", "is", "=="):
                            for y in T.walk(x[3]):
                                if T.refname(y) in ("typing.Union", "types.UnionType", "typing.Optional"):
                                    out.add(T.refname(y))
                        if T.is_call_to(x, fu.qualname) and fn is not fu:
                            delegated = True
            return out, delegated
        uo, _ = origins(fu)
        oo, deleg = origins(f)
        missing = sorted(o for o in uo if o not in oo) if not deleg else []
        rep.check(not missing, "R08.6", f.qualname, f.loc, f"every union origin of isuniontype() ({sorted(uo)}) is examined for a None member", f"isoptionaltype never considers {missing}: `X | None` and Optional[X] are the same annotation but only one spelling is treated as optional (None is then offered to str/bytes/bool first and comes back as 'None' / b'None' / False)", detail="both-spellings")
    # no predicate may assume where the None member sits: under an optional/union guard, the member tuple is never cut
    # by a constant slice or index (`get_args(obj)[:-1]` drops the *last* member, not None)
    for qn, fn in sorted(prog.functions.items()):
        if not qn.startswith(C.INSP + ".") or fn.cls is not None:
            continue
        try:
            fps = P.paths_of(prog, fn)
        except Exception:
            continue
        if not fn.params:
            continue
        o = ("param", fn.params[0])
        bad = []
        for pth in fps:
            if not any(pol and T.is_call_to(g, f"{C.INSP}.isoptionaltype", f"{C.INSP}.isuniontype") for g, pol in pth.guards()):
                continue
            for tm in pth.all_terms():
                for x in T.walk(tm):
                    if x[0] == "sub" and x[2][0] in ("slice", "const") and (T.is_call_to(x[1], "typing.get_args", f"{C.INSP}.args") and x[1][2][:1] == (o,) or x[1] == ("attr", o, "__args__")):
                        if x[2][0] == "slice" and x[2][1:] == (None, None, None):
                            continue
                        bad.append(T.show(x)[:60])
        if bad:
            rep.violated("R08.6", qn, fn.loc, f"{fn.name} cuts the member tuple of an optional union at a fixed position ({bad[0]}): Union[None, Foo] and Optional[Foo] get different answers because the member dropped is the last one, not None", detail="positional-members")
        elif any(pol and T.is_call_to(g, f"{C.INSP}.isoptionaltype") for pth in fps for g, pol in pth.guards()):
            rep.held("R08.6", qn, fn.loc, f"{fn.name} treats the members of an optional union position-independently", detail="positional-members")
    g = prog.function(f"{C.INSP}.isnonetype")
    okn = False
    for p, r in P.returns(P.paths_of(prog, g)):
        if r[0] == "cmp" and r[1] == "in" and r[2] == ("param", g.params[0]) and r[3][0] in ("tuple", "set") and any(x == ("const", None) for x in r[3][1]) and any(T.is_call_to(x, "builtins.type") or T.refname(x) == "types.NoneType" for x in r[3][1]):
            okn = True
    rep.check(okn, "R08.6", g.qualname, g.loc, "isnonetype accepts both None and NoneType", "isnonetype no longer recognises both spellings of the None member", detail="nonetype")


def r08_7(prog, rep, rule="R08.7"):
    """The None member accepts the None object only, in both directions (otherwise it is a catch-all that lets values
    every real member rejected through, raw)."""
    for d in ("marshal", "unmarshal"):
        rows = C.handlers(prog, d)
        nr = [r for r in rows if r.pred_name == "isnonetype" and r.routine]
        api = C.DIRS[d][0]
        if not nr:
            rep.undecided(rule, f"{api}._HANDLERS", rows[0].loc, "no None row", detail=d)
            continue
        c = nr[0].routine
        f = C.call_of(prog, c)
        ps = P.paths_of(prog, f)
        val = ("param", "val")
        subjects = (val, ("call", ("ref", f"{C.SERDES}.decode"), (val,), ()))
        ok = bool(ps)
        for p in ps:
            none_known = any(g[0] == "cmp" and g[3] == ("const", None) and g[2] in subjects and ((g[1] in ("is", "==")) == pol) for g, pol in p.guards())
            if p.exit[0] == "return":
                if not none_known:
                    ok = False
            elif p.exit[0] == "raise":
                if not T.is_call_to(p.exit[1], "builtins.ValueError", "builtins.TypeError"):
                    ok = False
        rep.check(ok, rule, c.qualname, f.loc, f"{d}: the None member returns only when the input is None and raises otherwise", f"{d}: the routine serving NoneType returns for inputs that are not None: in a union it is a catch-all, so a value every real member rejected is passed through raw instead of raising (Optional[Literal[1, 2]] lets 3 through)", detail=d)


def r08_9(prog, rep):
    """A member that runs out of stack has not *rejected* the input.  If the union swallows RecursionError (it is an
    Exception) and offers the input to the next member, every level of a recursive union retries its remaining members at
    the bottom of the stack: 2^depth attempts -- unmarshal(J, "a") for J = "dict[str, J] | list[J] | int | None" never
    returns (a one-character string iterates to itself) -- and a value that is merely deep is reported as 'not one of
    types'.  The first handler that would catch RecursionError / MemoryError around the member call must re-raise."""
    import ast as _ast

    n = 0
    for d in ("marshal", "unmarshal"):
        rows = C.handlers(prog, d)
        row = next((r for r in rows if r.pred_name == "isuniontype" and r.routine is not None), None)
        if row is None:
            rep.undecided("R08.9", f"{d}:union", "", "union routine not found")
            continue
        f = C.call_of(prog, row.routine)
        mod = f.module
        swallowed = []
        guarded_sites = 0
        for node in _ast.walk(f.node):
            names_body = None
            if isinstance(node, _ast.With):
                for item in node.items:
                    ce = item.context_expr
                    if isinstance(ce, _ast.Call) and prog.resolve_expr_name(mod, ce.func) == "contextlib.suppress":
                        names = [prog.resolve_expr_name(mod, a) or "?" for a in ce.args]
                        names_body = [(names, "suppress")]
            elif isinstance(node, _ast.Try):
                names_body = []
                for h in node.handlers:
                    if h.type is None:
                        names = ["builtins.BaseException"]
                    else:
                        names = [prog.resolve_expr_name(mod, e) or "?" for e in (h.type.elts if isinstance(h.type, _ast.Tuple) else [h.type])]
                    is_reraise = lambda st: isinstance(st, _ast.Raise) and (st.exc is None or (isinstance(st.exc, _ast.Name) and h.name == st.exc.id))  # noqa: E731
                    reraises = len(h.body) == 1 and is_reraise(h.body[0])
                    kind = "reraise" if reraises else "handler"
                    # `except Exception as e: if isinstance(e, (RecursionError, MemoryError)): raise` -- the same two clauses in one
                    st0 = h.body[0] if h.body else None
                    if (not reraises and h.name and isinstance(st0, _ast.If) and len(st0.body) == 1 and is_reraise(st0.body[0]) and isinstance(st0.test, _ast.Call)
                            and prog.resolve_expr_name(mod, st0.test.func) == "builtins.isinstance" and len(st0.test.args) == 2
                            and isinstance(st0.test.args[0], _ast.Name) and st0.test.args[0].id == h.name):  # fmt: skip
                        cls = st0.test.args[1]
                        if isinstance(cls, _ast.Name) and cls.id in mod.assigns and isinstance(mod.assigns[cls.id], _ast.Tuple):
                            cls = mod.assigns[cls.id]
                        through = [prog.resolve_expr_name(mod, e) or "?" for e in (cls.elts if isinstance(cls, _ast.Tuple) else [cls])]
                        kind = ("reraise-for", through)
                    names_body.append((names, kind))
            if not names_body:
                continue
            # only blocks that contain a call of a member routine (a call of the loop variable / an element of the routines)
            body = node.body
            if not any(isinstance(x, _ast.Call) and isinstance(x.func, _ast.Name) for st in body for x in _ast.walk(st)):
                continue
            guarded_sites += 1
            for exc in ("builtins.RecursionError", "builtins.MemoryError"):
                first = next(((names, kind) for names, kind in names_body if oracle.exc_covered(exc, names)), None)
                if first is not None and first[1] != "reraise" and not (isinstance(first[1], tuple) and first[1][0] == "reraise-for" and oracle.exc_covered(exc, first[1][1])):
                    swallowed.append(exc.rsplit(".", 1)[1])
        n += 1
        rep.check(guarded_sites > 0 and not swallowed, "R08.9", row.routine.qualname, f.loc, "running out of stack or memory in a member is not taken for a rejection (re-raised before the catch-all)", f"the union swallows {sorted(set(swallowed))} together with the members' rejections and goes on to the next member: every level of a recursive union then retries its remaining members at the bottom of the stack (2^depth attempts: unmarshal(J, 'a') for J = 'dict[str, J] | list[J] | int | None' never returns), and a valid value that is merely deep is reported as 'not one of types'", detail="resource-errors-propagate")
    return n


def run(prog: Program, rep: Report, tier: str):
    rep.rule("R08.9", "a member running out of stack or memory is not a rejection", floor=2)
    r08_9(prog, rep)
    rep.rule("R08.7", "the None member accepts only None, in both directions", floor=2)
    rep.rule("R08.6", "optional detection examines every member", floor=2)
    rep.rule("R08.1", "member stack keeps declared order (identity / stable none-first)", floor=2)
    rep.rule("R08.2", "suppress tuple covers every member family's may-raise set", floor=30)
    rep.rule("R08.3", "None fast path / None member first", floor=2)
    rep.rule("R08.4", "first acceptor returned; exhausted members raise ValueError", floor=4)
    rep.rule("R08.5", "both union routines suppress the same classes around the member call", floor=1)
    sups = {}
    for d in ("marshal", "unmarshal"):
        c = union_routine(prog, d)
        if c is None:
            rep.violated("R08.1", f"{C.DIRS[d][0]}._HANDLERS", "", "no union row", detail="row")
            continue
        slot = r08_1(prog, rep, d, c)
        if slot is not None:
            r08_3_4(prog, rep, d, c, slot)
        f = C.call_of(prog, c)
        ss = suppress_sets(prog, f)
        # the member call must run under exactly one handler set
        rep.check(len(ss) == 1, "R08.4", c.qualname, f.loc, "the member call runs under one handler (contextlib.suppress or try/except) whose escape continues with the next member", "the member call is not wrapped by a handler that lets the loop continue", detail="suppress-wrap")
        sups[d] = set(ss[0]) if ss else set()
    r08_6(prog, rep)
    r08_7(prog, rep)
    if len(sups) == 2:
        rep.check(sups["marshal"] == sups["unmarshal"], "R08.5", "union routines", "", f"both suppress {sorted(x.rsplit('.', 1)[-1] for x in sups['marshal'])}", f"marshal suppresses {sorted(sups['marshal'])}, unmarshal {sorted(sups['unmarshal'])}")
        r08_2(prog, rep, sups["unmarshal"], "unmarshal")
        r08_2(prog, rep, sups["marshal"], "marshal")
