"""Provenance analysis of composite routines (containers, fixed tuples, structured classes, unions).

From the constructor we learn the *member slots*: self attributes whose value is a routine looked up in the type
context by a type argument (or by a hint value).  From __call__ we learn which slot meets which component of the
input and what reaches the output.  Everything is phrased over terms, so names of locals, hoisting and the spelling
of comprehensions do not matter.
"""

from __future__ import annotations

import dataclasses

from .. import paths as P
from .. import terms as T
from ..model import ClassInfo, Program
from . import common as C

ARGS = f"{C.INSP}.args"
HINTS = (f"{C.INSP}.cached_type_hints", f"{C.INSP}.get_type_hints")


def is_context(term) -> bool:
    return term in (("param", "context"), C.sattr("context"))


def context_lookup(term):
    """-> (form, key_term) for context[key] ('strict') / context.get(key) ('tolerant'), else None."""
    if term[0] == "sub" and is_context(term[1]):
        return "strict", term[2]
    if term[0] == "call" and term[1][0] == "attr" and term[1][2] == "get" and is_context(term[1][1]) and term[2]:
        return "tolerant", term[2][0]
    return None


def is_args_call(term) -> bool:
    return T.is_call_to(term, ARGS) and term[2] and term[2][0] in (("param", "t"), C.sattr("t"))


def arg_position(key):
    """Which type argument a context key denotes: int position, 'each' (element of args in order), 'hint', or None."""
    if key[0] == "unpack" and is_args_call(key[1]):
        return key[2]
    if key[0] == "sub" and is_args_call(key[1]) and key[2][0] == "const" and isinstance(key[2][1], int):
        return key[2][1]
    if key[0] == "elem":
        order = order_of(key[1])
        if order is not None:
            return ("each", order)
    if key[0] == "value" and key[1][0] == "call" and T.refname(key[1][1]) in HINTS:
        return "hint"
    if T.is_call_to(key, "typelib.py.refs.evaluate") and key[2] and arg_position(key[2][0]) == "hint":
        return "hint"
    return None


def order_of(seq):
    """Order-transformer of a sequence expression relative to inspection.args(t): identity, none-first-stable,
    rotation, reversal, or None when `seq` does not derive from the type arguments at all."""
    if is_args_call(seq):
        return "identity"
    if seq[0] == "call" and T.refname(seq[1]) in ("builtins.tuple", "builtins.list") and len(seq[2]) == 1:
        return order_of(seq[2][0])
    if seq[0] == "call" and T.refname(seq[1]) == "builtins.reversed" and seq[2]:
        inner = order_of(seq[2][0])
        return None if inner is None else ("reversal" if inner == "identity" else "unknown")
    if seq[0] == "sub" and seq[2][0] == "slice":
        inner = order_of(seq[1])
        if inner is None:
            return None
        lo, hi, st = seq[2][1:]
        if lo is None and hi is None and st == ("const", -1):
            return "reversal" if inner == "identity" else "unknown"
        return "unknown"
    if seq[0] == "call" and T.refname(seq[1]) == "builtins.sorted" and seq[2]:
        inner = order_of(seq[2][0])
        if inner is None:
            return None
        kw = dict(seq[3])
        key = kw.get("key")
        if inner == "identity" and key is not None and _is_none_key(key) and kw.get("reverse") in (None, ("const", False)):
            return "none-first-stable"
        # key=isnonetype, reverse=True: True sorts first, and reverse keeps the original order of equal keys
        if inner == "identity" and key == ("ref", f"{C.INSP}.isnonetype") and kw.get("reverse") == ("const", True):
            return "none-first-stable"
        if inner == "identity" and key is not None and key[0] == "lambda" and len(key[1]) == 1 and key[2] == ("call", ("ref", f"{C.INSP}.isnonetype"), (("param", key[1][0]),), ()) and kw.get("reverse") == ("const", True):
            return "none-first-stable"
        return "unknown"
    if seq[0] in ("tuple", "list"):
        elts = seq[1]
        bases = set()
        shape = []
        for e in elts:
            if e[0] == "star":
                x = e[1]
                if x[0] == "comp" and len(x[3]) == 1 and x[2] == ("elem", x[3][0][0]):
                    b = x[3][0][0]
                    bases.add(b)
                    shape.append(("filter", x[4]))
                elif x[0] == "sub" and x[2][0] == "slice":
                    bases.add(x[1])
                    shape.append(("slice", x[2][1:]))
                else:
                    bases.add(x)
                    shape.append(("all",))
            elif e[0] == "sub" and e[2][0] == "const":
                bases.add(e[1])
                shape.append(("item", e[2][1]))
            else:
                return None
        if len(bases) != 1:
            return None
        base = bases.pop()
        inner = order_of(base)
        if inner is None:
            return None
        if shape == [("all",)]:
            return inner  # (*xs,) / [*xs] keep the order of xs
        if inner != "identity":
            return "unknown"
        if len(shape) == 2 and shape[0] == ("item", -1) and shape[1] == ("slice", (None, ("const", -1), None)):
            return "rotation"
        if len(shape) == 2 and shape[0][0] == "filter" and shape[1][0] == "filter":
            a, b = shape[0][1], shape[1][1]
            if len(a) == 1 and len(b) == 1 and _is_none_test(a[0], base) and b[0] == ("not", a[0]):
                return "none-first-stable"
        return "unknown"
    if seq[0] == "binop" and seq[1] == "+":
        return _concat_order(seq[2], seq[3])
    return None


def _concat_order(a, b):
    def filt(x):
        if x[0] == "call" and T.refname(x[1]) in ("builtins.tuple", "builtins.list") and len(x[2]) == 1:
            x = x[2][0]
        if x[0] == "comp" and len(x[3]) == 1 and x[2] == ("elem", x[3][0][0]) and len(x[4]) == 1:
            return x[3][0][0], x[4][0]
        return None

    fa, fb = filt(a), filt(b)
    if fa and fb and fa[0] == fb[0] and order_of(fa[0]) == "identity" and _is_none_test(fa[1], fa[0]) and fb[1] == ("not", fa[1]):
        return "none-first-stable"
    if order_of(a) is None and order_of(b) is None:
        return None
    return "unknown"


def _is_none_test(cond, base) -> bool:
    x = ("elem", base)
    if T.is_call_to(cond, f"{C.INSP}.isnonetype") and cond[2] == (x,):
        return True
    if cond[0] == "cmp" and cond[1] in ("is", "==") and cond[2] == x and (cond[3] == ("const", None) or T.is_call_to(cond[3], "builtins.type")):
        return True
    if cond[0] == "cmp" and cond[1] == "in" and cond[2] == x and cond[3][0] == "tuple":
        return True
    return False


def _is_none_key(key) -> bool:
    """sorted(key=lambda a: not isnonetype(a)) — False (None members) sort first, stable."""
    if key[0] != "lambda" or len(key[1]) != 1:
        return False
    body = key[2]
    p = ("param", key[1][0])
    return body == ("not", ("call", ("ref", f"{C.INSP}.isnonetype"), (p,), ()))


@dataclasses.dataclass
class Slot:
    attr: str
    kind: str  # single | list | dict
    position: object  # int / ('each', order) / 'hint'
    lookup: str  # strict | tolerant | mixed
    term: tuple
    fallback_noop: bool = False
    keyed_by: tuple | None = None  # dict slots: the key term (field name provenance)
    alts: list = dataclasses.field(default_factory=list)
    foreign: list = dataclasses.field(default_factory=list)  # values the constructor may also leave there that are no context lookups
    hint_keys: list = dataclasses.field(default_factory=list)  # dict slots: which forms of the hint are looked up (raw / evaluated)


def method_return_terms(prog: Program, cls: ClassInfo, name: str, args: tuple = (), kw: tuple = ()) -> list[tuple]:
    """Return terms of self.<name>(args) with the method's parameters replaced by the arguments (a helper may be an
    instance method reading self.t, or a staticmethod handed self.t explicitly — the terms come out the same)."""
    f = prog.lookup_method(cls, name)
    if f is None:
        return []
    static = any(d and d.endswith("staticmethod") for d in f.decorators)
    names = list(f.params) if static else [n for n in f.params if n != "self"][:]
    if not static and f.params and f.params[0] != "self":
        names = list(f.params[1:])
    sigma = dict(zip(names, args))
    sigma.update({k: v for k, v in kw if k})
    return [P.substitute(r, sigma) if sigma else r for _, r in P.returns(P.paths_of(prog, f))]


def slots_of(prog: Program, cls: ClassInfo) -> dict[str, Slot]:
    """attr -> Slot; when constructor paths disagree, `alts` of the slot lists every variant."""
    out: dict[str, Slot] = {}
    attrs = C.init_attrs(prog, cls)
    foreign: dict[str, list] = {}
    for attr, vals in attrs.items():
        for v in vals:
            s = _slot_from(prog, cls, attr, v)
            if s is None:
                foreign.setdefault(attr, []).append(v)
                continue
            if attr in out:
                out[attr].alts.append(s)
            else:
                s.alts = [s]
                out[attr] = s
    for attr, s in out.items():
        s.foreign = foreign.get(attr, [])
    return out


def _slot_from(prog, cls, attr, v, depth=0):
    lk = context_lookup(v)
    if lk:
        pos = arg_position(lk[1])
        if pos is not None:
            return Slot(attr, "single", pos, lk[0], v)
        return None
    if v[0] == "comp" and v[1] in ("list", "gen") or (v[0] == "call" and T.refname(v[1]) in ("builtins.tuple", "builtins.list") and v[2] and v[2][0][0] == "comp"):
        c = v if v[0] == "comp" else v[2][0]
        lk = context_lookup(c[2])
        if lk:
            pos = arg_position(lk[1])
            if pos is not None:
                return Slot(attr, "list", pos, lk[0], v)
        return None
    # self.x = self._method()
    if v[0] == "call" and v[1][0] == "attr" and v[1][1] == C.SELF and depth < 2:
        terms = method_return_terms(prog, cls, v[1][2], v[2], v[3])
        merged = None
        for tm in terms:
            s = _dict_slot(attr, tm)
            if s is None:
                continue
            if merged is None:
                merged = s
            else:
                merged.fallback_noop = merged.fallback_noop or s.fallback_noop
                if merged.lookup == "none":
                    merged.lookup = s.lookup
                elif s.lookup not in ("none", merged.lookup):
                    merged.lookup = "mixed"
                merged.keyed_by = merged.keyed_by or s.keyed_by
                merged.hint_keys = sorted(set(merged.hint_keys) | set(s.hint_keys))
        return merged
    return _dict_slot(attr, v)


def _dict_slot(attr, tm):
    if tm[0] == "comp" and tm[1] == "dict" and tm[2][0] == "pair":
        pairs = [(tm[2][1], tm[2][2])]
    elif tm[0] == "dict":
        pairs = [(k, v) for k, v in tm[1] if k is not None]
    else:
        return None
    if not pairs:
        return None
    lookups = []
    raw_keys: list = []
    noop = False
    keyed = None
    for k, v in pairs:
        alts = v[2] if v[0] == "boolop" and v[1] == "or" else (v,)
        for a in alts:
            lk = context_lookup(a)
            if lk and arg_position(lk[1]) == "hint":
                lookups.append(lk[0])
                keyed = k
                raw_keys.append("evaluated" if T.is_call_to(lk[1], "typelib.py.refs.evaluate") else "raw")
            elif a[0] == "call" and T.refname(a[1]) and T.refname(a[1]).rsplit(".", 1)[-1].startswith("NoOp"):
                noop = True
                keyed = keyed or k
    if not lookups and not noop:
        return None
    if not lookups:
        form = "none"
    else:
        form = "tolerant" if all(x == "tolerant" for x in lookups) else ("strict" if all(x == "strict" for x in lookups) else "mixed")
    sl = Slot(attr, "dict", "hint", form, tm, noop, keyed)
    sl.hint_keys = sorted(set(raw_keys))
    return sl


# ------------------------------------------------------------------------------------------------
# __call__ side


def input_roots(term) -> set[str]:
    """How `term` derives from the routine input: set of wrappers crossed from ('param','val')."""
    out = set()
    for s in T.walk(term):
        if s == ("param", "val"):
            out.add("val")
    return out


def strip_input(term):
    """val / decode(val) / load(val) / strload(val) -> ('input', how)"""
    if term == ("param", "val"):
        return "raw"
    if T.is_call_to(term, f"{C.SERDES}.load") and term[2] == (("param", "val"),):
        return "load"
    if T.is_call_to(term, f"{C.SERDES}.decode") and term[2] and term[2][0] == ("param", "val"):
        return "decode"
    return None


def component_of(x):
    """Classify a leaf drawn from the input: returns (component, how_input_was_prepared, iterator_fn) or None.

    component: 'key' | 'value' | 'elem' | 'zip'"""
    it = None
    comp = None
    if x[0] == "unpack" and x[1][0] == "elem" and x[3] == 2:
        it = x[1][1]
        comp = "key" if x[2] == 0 else "value"
    elif x[0] == "elem":
        it = x[1]
        comp = "elem"
    elif x[0] == "zipelem":
        it = x[1]
        comp = "zip"
    elif x[0] in ("key", "value"):
        # X.items()
        how = strip_input(x[1])
        if how:
            return x[0], how, "items"
        return None
    if it is None or it[0] != "call" or len(it[2]) != 1:
        return None
    fn = T.refname(it[1])
    how = strip_input(it[2][0])
    if how is None:
        return None
    if fn == f"{C.SERDES}.iteritems" and comp in ("key", "value"):
        return comp, how, "iteritems"
    if fn == f"{C.SERDES}.itervalues" and comp in ("elem", "zip"):
        return comp, how, "itervalues"
    if fn in ("builtins.iter", "builtins.enumerate") or fn is None:
        return None
    return None


def derives_from_input(term) -> bool:
    return T.contains(term, lambda s: s == ("param", "val"))


def applied_slot(term):
    """call(self.<slot>, (x,)) -> (slot, x); call(self.<slot>[k], (x,)) -> (slot, k, x); zip element routines too."""
    if term[0] != "call" or len(term[2]) != 1 or term[3]:
        return None
    f, x = term[1], term[2][0]
    a = T.self_attr(f)
    if a:
        return ("single", a, None, x)
    if f[0] == "sub" and T.self_attr(f[1]):
        return ("keyed", T.self_attr(f[1]), f[2], x)
    if f[0] == "zipelem" and T.self_attr(f[1]):
        return ("zip", T.self_attr(f[1]), f[2], x)
    if f[0] == "elem" and T.self_attr(f[1]):
        return ("each", T.self_attr(f[1]), None, x)
    return None


def output_leaves(term, extra_conds=None):
    """Decompose an output expression into (container shape, leaves) where leaves are element expressions."""
    # self.origin(<gen>) / self.t(**kwargs) / [comp] / {comp} / generator
    if term[0] == "call" and term[1] in (C.sattr("origin"), C.sattr("t")):
        if len(term[2]) == 1 and not term[3]:
            inner = term[2][0]
            sh, leaves, conds = output_leaves(inner, extra_conds)
            return ("ctor:" + term[1][2] + "(" + sh + ")", leaves, conds)
        if not term[2] and len(term[3]) == 1 and term[3][0][0] is None:
            sh, leaves, conds = output_leaves(term[3][0][1], extra_conds)
            return ("ctor:" + term[1][2] + "(**" + sh + ")", leaves, conds)
        return ("ctor:" + term[1][2] + "(?)", None, ())
    # a container filled by an explicit loop (the evaluator accumulates stores/appends into the local display)
    if term[0] == "dict" and term[1] and all(k is not None for k, _ in term[1]):
        leaves = []
        for k, v in term[1]:
            leaves += [("k", k), ("v", v)]
        return ("dictloop", leaves, tuple(extra_conds or ()))
    if term[0] == "list" and term[1] and not any(e[0] == "star" for e in term[1]):
        return ("listloop", [("e", e) for e in term[1]], tuple(extra_conds or ()))
    if term[0] in ("dict", "list") and not term[1]:
        return ("empty", [], ())
    if term[0] == "comp":
        elt = term[2]
        if elt[0] == "pair":
            return (term[1] + "comp", [("k", elt[1]), ("v", elt[2])], term[4])
        if elt[0] == "tuple" and len(elt[1]) == 2:
            return (term[1] + "comp-pairs", [("k", elt[1][0]), ("v", elt[1][1])], term[4])
        return (term[1] + "comp", [("e", elt)], term[4])
    return ("other", None, ())
