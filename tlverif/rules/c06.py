"""C06 — marshalled output is plain JSON-compatible data, freshly built."""

from __future__ import annotations

from .. import oracle
from .. import paths as P
from .. import terms as T
from ..model import Program
from ..report import Report
from . import c01, c03
from . import common as C
from . import composites as K
from . import effects as E

EXPLANATION = (
    "R06.1 the return term of every marshaller lies in the JSON-plain lattice (str(), isoformat, enum value, pattern source, int/float cast, "
    "fresh list/dict built from converted members, shallow fresh copy for unparameterised rows, pass-through only for no-op/bytes/literal-after-guard, "
    "delegation for union/proxy); tuples, sets, generators, origin(...) constructions and raw members are rejected. R06.2 Literal: every return is dominated "
    "by a membership test, every other path raises ValueError. R06.3 container rows never return the input itself and no marshal path mutates the input. "
    "R06.4 no ambient read (clock, environment, frames, randomness) on any marshal path."
)
ASSUMPTIONS = [
    "str(v), enum .value and pattern source are JSON-encodable primitives for the types of U (ND at value level)",
    "subclass instances nested under Any are passed through by contract",
]
TRUSTED = oracle.TRUSTED

SCALAR_OK = {"str", "iso", "enum-value", "pattern", "cast", "null"}
CONTAINER_OK = {"list-conv", "dict-conv", "list-copy", "dict-copy"}


def run(prog: Program, rep: Report, tier: str):
    rep.rule("R06.1", "return shape of every marshaller is JSON-plain and freshly built", floor=14)
    rep.rule("R06.2", "Literal marshaller rejects non-members with ValueError", floor=3)
    rep.rule("R06.3", "no aliasing of the input by container rows; no mutation of the input", floor=14)
    rep.rule("R06.4", "no ambient reads on marshal paths", floor=14)
    rep.rule("R06.7", "marshal routines keep no call-time state (same answer on every call; shared with R12.8)", floor=14)
    rep.rule("R06.6", "the None member is not a catch-all: non-None values are rejected, not emitted raw (shared with R08.7)", floor=2)
    rep.rule("R06.5", "container marshallers convert keys/members with the context's routine for their type argument (shared with R05.2/R05.3)", floor=8)
    rows = C.handlers(prog, "marshal")
    role = {}
    for r in rows:
        if r.routine is None:
            continue
        role.setdefault(r.routine.qualname, set()).add(r.pred_name)
    container_preds = {"ismappingtype", "isiterabletype", "isfixedtupletype", "istypeddict", "istypedtuple", "isnamedtuple"}
    fb = C.fallback_routine(prog, "marshal")
    for c in C.routine_classes(prog, "marshal"):
        f = C.call_of(prog, c)
        if f is None or f.cls is not c:
            continue
        preds = role.get(c.qualname, set())
        forms = c01.wire_form(prog, c, exact=True)
        is_container = bool({p.split(":")[-1] for p in preds} & container_preds) or any(p.startswith("λ:") for p in preds) or (fb is not None and fb.qualname == c.qualname) or bool(K.slots_of(prog, c)) and not c03.is_union_like(prog, f)
        is_noop = preds <= {"isunresolvable", "isnonetype", "isbytestype"} and "passthrough" in forms and len(forms) == 1
        is_literal = "isliteral" in preds
        unknown = sorted(x for x in forms if x.startswith("unknown:"))
        if unknown:
            rep.undecided("R06.1", c.qualname, f.loc, f"return shape outside the idiom set: {unknown}")
            forms = {x for x in forms if not x.startswith("unknown:")}
        if is_noop:
            rep.held("R06.1", c.qualname, f.loc, "pass-through routine serves only unresolvable / None / bytes rows", nontrivial=False)
        elif is_literal:
            rep.check(forms <= {"passthrough"}, "R06.1", c.qualname, f.loc, "literal members are primitives passed through after the membership guard", f"literal marshaller returns {sorted(forms)}")
        elif is_container:
            bad = forms - CONTAINER_OK
            rep.check(not bad, "R06.1", c.qualname, f.loc, f"container row returns {sorted(forms)} (fresh list/dict)", f"container row returns {sorted(bad)}: not a freshly built list/dict of converted members")
        elif forms <= {"member", "delegate", "passthrough"} and ("member" in forms or "delegate" in forms):
            rep.held("R06.1", c.qualname, f.loc, f"delegating routine ({sorted(forms)})")
        else:
            bad = forms - SCALAR_OK
            why = {
                "cast-raw": "the result of self.origin(val) is handed out as it is: for `class UserId(int)` the marshalled value is a UserId, not an exact int (strict encoders refuse it; as a dict key it is no primitive key)",
                "str-raw": "the result of str(val) is handed out as it is: a str subclass whose __str__ returns itself (the shape of a 'safe string' class) is emitted as that subclass",
                "enum-value-unguarded": "`.value` is read off any object: under Union[Status, Money] a Money instance with a `value` field is emitted as that raw attribute (a Decimal), the union never reaching Money's own routine",
                "str-printed": "str(val) asks the value's class how it prints: a member of `class Kind(str, Enum)` -- a str equal to 'b' -- is written as 'Kind.B' for T = str, for the keys of dict[str, int] and for every str field, and comes back as another text",
                "pattern-raw": "`.pattern` is handed out as it is: a pattern compiled from an instance of a str subclass (a StrEnum member) keeps that very object, which is emitted instead of an exact str",
                "pattern-unguarded": "`.pattern` is read off any object: under Union[re.Pattern, Rule] a Rule instance with a `pattern` field is emitted as that raw attribute",
            }
            rep.check(not bad, "R06.1", c.qualname, f.loc, f"scalar row returns {sorted(forms)}", f"scalar row returns {sorted(bad)}, outside the JSON-plain lattice" + "".join("; " + why[b] for b in sorted(bad) if b in why))
        # R06.3 aliasing
        if is_container:
            rep.check("passthrough" not in forms, "R06.3", c.qualname, f.loc, "never returns the input object itself", "a container row can return the input object itself (shared mutable container)", detail="alias")
        mut = E.mutations_of(prog, f, ("param", "val"))
        rep.check(not mut, "R06.3", c.qualname, f.loc, "does not mutate its input", f"mutates its input: {mut[:2]}", detail="mutation")
        amb = E.ambient_reads(prog, f, depth=2)
        rep.check(not amb, "R06.4", c.qualname, f.loc, "no ambient read on this marshal path", f"reads ambient state: {sorted(amb)[:3]}", detail="ambient")
    # "the same on every call": a marshaller is cached per type, so it must not change itself while marshalling
    for c in C.routine_classes(prog, "marshal"):
        for name, m in c.methods.items():
            if name == "__init__" or (c.name.startswith("Delayed") and name == "resolved"):
                continue
            ws = [w for w in E.state_writes(prog, m) if w[0].startswith("self")]
            rep.check(not ws, "R06.7", m.qualname, m.loc, "keeps no call-time state", f"{name} rewrites the routine's own state {ws[:2]} while marshalling: the routine is cached per type, so later calls answer differently (e.g. member order of a union adapts to earlier values)", detail="state")
    # converted members (marshal-side taint)
    c03.r03_1(prog, rep, direction="marshal", rule="R06.1")
    c03.r03_4(prog, rep, direction="marshal", rule="R06.2")
    # member routines (incl. key routines: "primitive dict keys") are the context's routines for their type argument
    from ..report import Report as _R, absorb
    from . import c05

    sub = _R("C06", rep.tier)
    for r in ("R05.2", "R05.3"):
        sub.rule(r, "", 0)
    c05.r05_2_3(prog, sub, "marshal")
    absorb(rep, sub, {"R05.2": "R06.5", "R05.3": "R06.5"})
    from . import c08

    sub = _R("C06", rep.tier)
    sub.rule("R06.6", "", 0)
    c08.r08_7(prog, sub, rule="R06.6")
    absorb(rep, sub, {"R06.6": "R06.6"})
