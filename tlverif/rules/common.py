"""Shared extraction for the routine-related rules: dispatch tables, routine classes, constructor
facts, abstract evaluation of inspection predicates on stdlib classes."""

from __future__ import annotations

import dataclasses
import functools

from .. import oracle
from .. import paths as P
from .. import terms as T
from ..model import AnalysisError, ClassInfo, FuncInfo, Program

INSP = "typelib.py.inspection"
SERDES = "typelib.serdes"
DIRS = {
    "marshal": ("typelib.marshals.api", "typelib.marshals.routines", "AbstractMarshaller"),
    "unmarshal": ("typelib.unmarshals.api", "typelib.unmarshals.routines", "AbstractUnmarshaller"),
}
SELF = ("param", "self")


def sattr(name: str):
    return ("attr", SELF, name)


@dataclasses.dataclass
class Row:
    index: int
    pred: tuple  # term: ref to predicate function, or lambda
    pred_name: str
    routine: ClassInfo | None
    routine_ref: str
    alias_param: str | None
    loc: str


def handlers(prog: Program, direction: str) -> list[Row]:
    api, _, _ = DIRS[direction]
    mod = prog.module(api)
    tm = P.module_term(prog, mod, "_HANDLERS")
    if tm[0] != "dict":
        raise AnalysisError(f"{api}._HANDLERS is not a dict display")
    node = mod.assign_nodes["_HANDLERS"]
    rows = []
    for i, (k, v) in enumerate(tm[1]):
        if k is None:
            raise AnalysisError(f"{api}._HANDLERS uses ** unpacking")
        if k[0] == "ref":
            name = k[1].rsplit(".", 1)[-1]
        elif k[0] == "lambda":
            name = "λ:" + "&".join(sorted(T.refname(c[1]).rsplit(".", 1)[-1] for c in T.calls_in(k[2]) if T.refname(c[1])))
        else:
            raise AnalysisError(f"{api}._HANDLERS key {T.show(k)[:80]} not understood")
        r = prog.class_of(v[1]) if v[0] == "ref" else None
        rows.append(Row(i, k, name, r[0] if r else None, v[1] if v[0] == "ref" else T.show(v), r[1] if r else None, f"{mod.relpath}:{node.lineno}"))
    return rows


def dispatcher(prog: Program, direction: str):
    """The function that walks the direction's dispatch table for one graph node.  Found by role, not by name: the
    module-level function of the api module that reads `_HANDLERS` and takes the node and the context."""
    import ast as _ast

    api, _, _ = DIRS[direction]
    mod = prog.module(api)
    cands = []
    for name, fi in mod.functions.items():
        if fi.node.decorator_list:
            continue
        if any(isinstance(n, _ast.Name) and n.id == "_HANDLERS" for n in _ast.walk(fi.node)) and len(fi.params) >= 2:
            cands.append(fi)
    if not cands:
        # the scan of the table may have been moved into a private helper that only picks the class: the dispatch function
        # is then its (single) two-parameter caller, read with that helper in place
        scanners = [fi for fi in mod.functions.values() if not fi.node.decorator_list and fi.name.startswith("_") and any(isinstance(n, _ast.Name) and n.id == "_HANDLERS" for n in _ast.walk(fi.node))]
        if len(scanners) == 1:
            sc = scanners[0]
            callers = [fi for fi in mod.functions.values() if not fi.node.decorator_list and len(fi.params) >= 2 and fi is not sc and any(isinstance(n, _ast.Call) and isinstance(n.func, _ast.Name) and n.func.id == sc.name for n in _ast.walk(fi.node))]
            if len(callers) == 1:
                f2 = callers[0]
                key = (id(prog), f2.qualname, 0, f2.bound.qualname if f2.bound else None)
                if not getattr(prog, "_dispatch_spliced", {}).get(key):
                    P._cache[key] = P.split_conditional_callee(P.splice_helpers(prog, P.paths_of(prog, f2), only=lambda fi: fi is sc))
                    prog.__dict__.setdefault("_dispatch_spliced", {})[key] = True
                return f2
    if len(cands) != 1:
        raise AnalysisError(f"anchor: the dispatch function over {api}._HANDLERS not found ({[c.name for c in cands]})")
    return cands[0]


def fallback_routine(prog: Program, direction: str) -> ClassInfo | None:
    f = dispatcher(prog, direction)
    last = None
    for p in P.paths_of(prog, f):
        if p.exit[0] == "return" and p.exit[1][0] == "call" and p.exit[1][1][0] == "ref":
            c = prog.class_of(p.exit[1][1][1])
            if c and not any(e[0] == "loop" and e[2] == 1 and p.exit[1][1][0] != "ref" for e in p.events):
                last = c[0]
    return last


def routine_classes(prog: Program, direction: str) -> list[ClassInfo]:
    api, routines, base = DIRS[direction]
    b = prog.cls(f"{routines}.{base}")
    return [c for c in prog.subclasses_of(b.qualname)]


def call_of(prog: Program, cls: ClassInfo) -> FuncInfo | None:
    f = prog.lookup_method(cls, "__call__")
    if f is None:
        return None
    # abstract stub?
    if any(d and d.endswith("abstractmethod") for d in f.decorators):
        return None
    if f.cls is not cls:
        # an inherited __call__ is analysed for the concrete class: class-level attributes it reads resolve there
        import dataclasses as _dc

        return _dc.replace(f, bound=cls)
    return f


def init_attrs(prog: Program, cls: ClassInfo, _depth=0) -> dict[str, list]:
    """self attribute -> list of value terms the constructor chain may leave there (one per distinct path)."""
    out: dict[str, list] = {}
    f = prog.lookup_method(cls, "__init__")
    if f is None:
        return out

    def add(k, v):
        out.setdefault(k, [])
        if v not in out[k]:
            out[k].append(v)

    for p in P.paths_of(prog, f):
        final: dict[str, list] = {}
        # follow super().__init__(...)
        for c in p.calls():
            if c[1][0] == "attr" and c[1][2] == "__init__" and T.is_call_to(c[1][1], "builtins.super") and _depth < 4:
                mro = prog.mro(f.cls)
                if len(mro) > 1:
                    sup = init_attrs(prog, mro[1], _depth + 1)
                    sf = prog.lookup_method(mro[1], "__init__")
                    sub = {}
                    if sf:
                        names = [n for n in sf.params if n != "self"]
                        for n, a in zip(names, c[2]):
                            sub[n] = a
                        for k, v in c[3]:
                            if k:
                                sub[k] = v
                    for k, vs in sup.items():
                        final[k] = [T.rewrite(v, lambda tm: sub.get(tm[1]) if tm[0] == "param" and tm[1] in sub else None) for v in vs]
        for e in p.events:
            if e[0] == "setattr" and e[1] == SELF:
                final[e[2]] = [e[3]]
        for k, vs in final.items():
            for v in vs:
                add(k, v)
    return out


def init_attr_paths(prog: Program, cls: ClassInfo) -> list[dict]:
    """Per constructor path: final self attribute -> term (own __init__ only; super attrs merged in)."""
    f = prog.lookup_method(cls, "__init__")
    res = []
    if f is None:
        return res
    for p in P.paths_of(prog, f):
        d = {}
        for e in p.events:
            if e[0] == "setattr" and e[1] == SELF:
                d[e[2]] = e[3]
        res.append({"attrs": d, "path": p})
    return res


# ------------------------------------------------------------------------------------------------
# Abstract evaluation of inspection predicates on a *stdlib class* (or a subscripted generic of one)


@dataclasses.dataclass(frozen=True)
class TypeArg:
    cls: str  # dotted stdlib class (the origin for subscripted forms)
    subscripted: bool = False
    args: tuple = ()  # for subscripted forms: tuple of argument descriptors ('...' for Ellipsis)
    flags: frozenset = frozenset()  # 'namedtuple', 'typeddict', 'annotated'

    def label(self):
        if self.subscripted:
            return f"{self.cls}[{', '.join(map(str, self.args))}]"
        return self.cls + ("".join("+" + f for f in sorted(self.flags)))


def not_a_class(a: "TypeArg") -> bool:
    """True for descriptors of objects that are not classes: instances (a TypeVar), and typing special forms such as
    typing.Callable / typing.Any (issubclass raises on them, inspect.isclass is False)."""
    if "instance" in a.flags:
        return True
    if a.subscripted or a.flags:
        return False
    try:
        return not isinstance(oracle.stdlib_class(a.cls), type)
    except Exception:
        return False


def _flat(b):
    """Class tuples given to isinstance/issubclass may nest."""
    if isinstance(b, tuple) and not (b and isinstance(b[0], str)):
        out = ()
        for x in b:
            out += _flat(x)
        return out
    return (b,)


class PredEval:
    """Three-valued evaluation (True/False/None=unknown) of a predicate's body on a TypeArg."""

    def __init__(self, prog: Program):
        self.prog = prog
        self.insp = prog.module(INSP)
        self._gmap = None
        self._consts: dict[str, tuple] = {}

    def const_term(self, name: str):
        if name not in self._consts:
            self._consts[name] = P.module_term(self.prog, self.insp, name)
        return self._consts[name]

    def generic_map(self) -> dict[str, str]:
        if self._gmap is None:
            tm = self.const_term("GENERIC_TYPE_MAP")
            self._gmap = {}
            if tm[0] != "dict":
                raise AnalysisError("GENERIC_TYPE_MAP is not a dict display")
            for k, v in tm[1]:
                if k and k[0] == "ref" and v[0] == "ref":
                    self._gmap[k[1]] = v[1]
        return self._gmap

    def union_members(self, name: str, _depth=0):
        """Members of a module-level `Union[...]` type table as TypeArgs (nested tables flattened, None -> NoneType)."""
        if _depth > 3 or name not in self.insp.assigns:
            return None
        tm = self.const_term(name)
        if tm[0] != "sub" or tm[2][0] != "tuple":
            return None
        out = [TypeArg("types.NoneType")]
        for x in tm[2][1]:
            n = T.refname(x)
            if n and n.startswith(INSP + "."):
                inner = self.union_members(n[len(INSP) + 1 :], _depth + 1)
                if inner is None:
                    return None
                out += list(inner)
            elif n:
                try:
                    oracle.stdlib_class(n)
                    out.append(TypeArg(n))
                except Exception:
                    return None
            elif x == ("const", None):
                continue
            else:
                return None
        return tuple(out)

    def accepts(self, pred: tuple, arg: TypeArg, depth=0):
        if pred[0] == "lambda":
            env = {pred[1][0]: arg}
            return self.val(pred[2], env, depth)
        if pred[0] == "ref":
            f = self.prog.functions.get(pred[1])
            if f is None:
                return None
            return self.call_function(f, [arg], depth)
        return None

    def call_function(self, f: FuncInfo, args: list, depth):
        if depth > 14:
            return None
        try:
            ck = (f.qualname, tuple(args), bool(getattr(self, "interpret_origin", False)))
            hash(ck)
        except TypeError:
            ck = None
        memo = self.__dict__.setdefault("_memo", {})
        if ck is not None and ck in memo:
            return memo[ck]
        r = self._call_function(f, args, depth)
        if ck is not None and r is not None:
            memo[ck] = r
        return r

    def _call_function(self, f: FuncInfo, args: list, depth):
        params = [p for p in f.params]
        env0 = dict(zip(params, args))
        results = []
        for p in P.paths_of(self.prog, f):
            feasible = True
            unknown_guard = False
            for g, pol in p.guards():
                v = self.val(g, env0, depth + 1)
                if v is None:
                    unknown_guard = True
                elif v == ("raises",):
                    feasible = False  # (the test itself raises: neither branch is taken)
                    break
                elif bool(self.truthy(v)) != pol:
                    feasible = False
                    break
            # a loop over something this evaluator cannot enumerate runs an unknown number of times: neither the path that
            # skips it nor the one that takes it once is known to be the one taken
            for e in p.events:
                if e[0] == "loop" and e[1][0] == "attr" and e[1][2] == "__mro__":
                    # `for base in X.__mro__: if vars(base).get("__annotations__"): return True` -- the loop spelling of
                    # "annotated somewhere along its bases" (the comprehension spelling is an idiom of call())
                    a = self.val(e[1][1], env0, depth + 1)
                    ann = None
                    if isinstance(a, TypeArg) and not a.subscripted:
                        if a.flags:
                            ann = "annotated" in a.flags
                        else:
                            try:
                                ann = any(vars(b).get("__annotations__") for b in oracle.stdlib_class(a.cls).__mro__)
                            except Exception:
                                ann = None
                    tests = [pol for g, pol in p.guards() if T.contains(g, lambda y: y == ("elem", e[1])) and T.contains(g, lambda y: y == ("const", "__annotations__") or (y[0] == "attr" and y[2] == "__annotations__"))]
                    if ann is None or len(tests) > 1 or (e[2] == 1 and not tests):
                        unknown_guard = True
                    elif e[2] == 0:
                        feasible = False  # (an MRO is never empty)
                    elif tests[0] != ann:
                        feasible = False
                    continue
                if e[0] == "loop":
                    itv = self.val(e[1], env0, depth + 1)
                    if not (isinstance(itv, tuple) and not (itv and isinstance(itv[0], str))):
                        unknown_guard = True
                    elif (len(itv) == 0) != (e[2] == 0):
                        feasible = False
            # try/except: a path that enters a handler is feasible only if the abandoned expression raises; a path
            # that completes an assignment is feasible only if its value does not raise
            evs = p.events
            if feasible and any(e[0] in ("caught", "suppressed") for e in evs):
                for i, e in enumerate(evs):
                    if e[0] == "attempt" and i + 1 < len(evs) and evs[i + 1][0] in ("caught", "suppressed"):
                        v = self.val(e[1], env0, depth + 1)
                        if v is None:
                            unknown_guard = True
                        elif v != ("raises",):
                            feasible = False
                            break
                    elif e[0] == "assign":
                        v = self.val(e[2], env0, depth + 1)
                        if v == ("raises",):
                            feasible = False
                            break
            elif feasible and any(e[0] == "assign" and e[2][0] == "attr" and self.val(e[2], env0, depth + 1) == ("raises",) for e in evs):
                feasible = False
            if not feasible:
                continue
            if p.exit[0] == "return":
                r = self.val(p.exit[1], env0, depth + 1)
            else:
                r = ("raises",)
            if not unknown_guard:
                return r
            results.append(r)
        if results and all(r == results[0] for r in results):
            return results[0]
        return None

    # value domain: bool / None(unknown) / TypeArg / tuple of values / ('none',) for Python None / ('raises',)
    def val(self, tm, env, depth):
        op = tm[0]
        if op == "param":
            return env.get(tm[1])
        if op == "const":
            if tm[1] is None:
                return ("none",)
            if tm[1] is Ellipsis:
                return "..."
            return tm[1]
        if op == "ref":
            name = tm[1]
            if name.rsplit(".", 1)[-1] == "TypeAliasType":
                # typing's class, the typing_extensions backport, or the package's compat re-export of either
                return TypeArg("typing.TypeAliasType")
            if name.startswith(INSP + "."):
                short = name[len(INSP) + 1 :]
                if short in ("STDLIB_TYPES", "STDLIB_TYPES_TUPLE", "BUILTIN_TYPES", "BUILTIN_TYPES_TUPLE"):
                    src = "STDLibtypeT" if short.startswith("STDLIB") else "BuiltIntypeT"
                    ms = self.union_members(src)
                    if ms is not None:
                        return ms
                if short in self.insp.assigns:
                    c = self.const_term(short)
                    return self.val(c, env, depth)
                return ("func", name)
            if name.startswith("typelib."):
                return ("func", name)
            try:
                oracle.stdlib_class(name)
                return TypeArg(name)
            except Exception:
                return None
        if op in ("tuple", "set", "list"):
            out = []
            for x in tm[1]:
                if x[0] == "star":
                    v = self.val(x[1], env, depth)
                    if not isinstance(v, tuple) or (v and isinstance(v[0], str)):
                        return None
                    out.extend(v)
                else:
                    out.append(self.val(x, env, depth))
            return tuple(out)
        if op == "not":
            v = self.val(tm[1], env, depth)
            return None if v is None or isinstance(v, tuple) and v == ("raises",) else (not self.truthy(v))
        if op == "boolop":
            vals = [self.val(v, env, depth) for v in tm[2]]
            if tm[1] == "and":
                for v in vals:
                    if v is None:
                        # a definite False later still decides `and`
                        continue
                    if not self.truthy(v):
                        return False
                return None if any(v is None for v in vals) else vals[-1]
            for v in vals:
                if v is None:
                    continue
                if self.truthy(v):
                    return v
            return None if any(v is None for v in vals) else vals[-1]
        if op == "cmp":
            a, b = self.val(tm[2], env, depth), self.val(tm[3], env, depth)
            if tm[1] in ("is", "==", "isnot", "!="):
                if a is None or b is None:
                    return None
                eq = a == b
                if isinstance(a, TypeArg) and isinstance(b, TypeArg):
                    eq = a.cls == b.cls and a.subscripted == b.subscripted and not a.flags and not b.flags
                return eq if tm[1] in ("is", "==") else not eq
            if tm[1] in ("<", "<=", ">", ">="):
                if isinstance(a, (int, float)) and isinstance(b, (int, float)) and not isinstance(a, bool) and not isinstance(b, bool):
                    return {"<": a < b, "<=": a <= b, ">": a > b, ">=": a >= b}[tm[1]]
                return None
            if tm[1] in ("in", "notin"):
                if a is None or not isinstance(b, tuple):
                    return None
                hit = False
                for x in b:
                    if x is None:
                        continue
                    if isinstance(a, TypeArg) and isinstance(x, TypeArg):
                        if a.cls == x.cls and not a.subscripted and not a.flags:
                            hit = True
                    elif a == x:
                        hit = True
                return hit if tm[1] == "in" else not hit
            return None
        if op == "ifexp":
            c = self.val(tm[1], env, depth)
            if c is None:
                return None
            return self.val(tm[2] if self.truthy(c) else tm[3], env, depth)
        if op == "sub":
            base = self.val(tm[1], env, depth)
            idx = self.val(tm[2], env, depth)
            if isinstance(base, tuple) and isinstance(idx, int) and not (base and isinstance(base[0], str) and base[0] != "..."):
                try:
                    return base[idx]
                except IndexError:
                    return ("raises",)
            return None
        if op == "call":
            return self.call(tm, env, depth)
        if op == "attr":
            base = self.val(tm[1], env, depth)
            if isinstance(base, TypeArg) and tm[2] == "__class__":
                if "instance" in base.flags:
                    return TypeArg(base.cls)  # the class of an instance descriptor
                return TypeArg("types.GenericAlias" if base.subscripted else "builtins.type")
            if isinstance(base, TypeArg) and tm[2] == "__supertype__":
                return ("raises",)  # no descriptor of the catalogue is a NewType (AttributeError)
            return None
        return None

    def truthy(self, v):
        if v == ("none",):
            return False
        if isinstance(v, tuple) and not v:
            return False
        if isinstance(v, TypeArg):
            return True
        return bool(v)

    def call(self, tm, env, depth):
        fn = T.refname(tm[1])
        # "annotated somewhere along its bases": any(vars(b).get("__annotations__") for b in X.__mro__) (or b.__dict__ ...)
        if fn == "builtins.any" and len(tm[2]) == 1 and tm[2][0][0] == "comp" and len(tm[2][0][3]) == 1:
            comp = tm[2][0]
            src = comp[3][0][0]
            mro_of = src[1] if src[0] == "attr" and src[2] == "__mro__" else (src[1][1] if src[0] == "call" and src[1][0] == "attr" and src[1][2] == "mro" and not src[2] else None)
            if mro_of is not None and not comp[4] and T.contains(comp[2], lambda y: y == ("const", "__annotations__") or (y[0] == "attr" and y[2] == "__annotations__")):
                a = self.val(mro_of, env, depth)
                if isinstance(a, TypeArg) and not a.subscripted:
                    if a.flags:
                        return "annotated" in a.flags
                    try:
                        return any(vars(b).get("__annotations__") for b in oracle.stdlib_class(a.cls).__mro__)
                    except Exception:
                        return None
                return None
        args = [self.val(a, env, depth) for a in tm[2]]
        safe = fn in self.prog.safe_subclass_helpers()
        if fn in ("builtins.issubclass", f"{INSP}.cached_issubclass") or safe:
            a, b = (args + [None, None])[:2]
            if not isinstance(a, TypeArg):
                return None
            if a.subscripted or not_a_class(a):
                # issubclass(list[int], X) / issubclass(<TypeVar>, X) / issubclass(typing.Callable, X) raise TypeError;
                # the safe form returns False
                return False if safe else ("raises",)
            targets = _flat(b)
            res = False
            for x in targets:
                if not isinstance(x, TypeArg):
                    return None
                try:
                    if oracle.issub(a.cls, x.cls):
                        res = True
                except Exception:
                    return None
            return res
        if fn == "builtins.len" and len(args) == 1:
            a = args[0]
            if isinstance(a, tuple) and not (a and isinstance(a[0], str) and a[0] != "..."):
                return len(a)
            return None
        if fn in ("builtins.set", "builtins.frozenset", "builtins.tuple", "builtins.list") and len(args) == 1:
            a = args[0]
            if isinstance(a, tuple) and not (a and isinstance(a[0], str) and a[0] != "..."):
                if fn in ("builtins.set", "builtins.frozenset"):
                    out = []
                    for x in a:
                        if x not in out:
                            out.append(x)
                    return tuple(out)
                return a
            return None
        if fn == "builtins.type" and len(args) == 1:
            a = args[0]
            if isinstance(a, TypeArg):
                if a.cls == "builtins.Ellipsis":
                    return TypeArg("types.EllipsisType")  # `...` is an object, its class is not `type`
                if "instance" in a.flags:
                    return TypeArg(a.cls)
                return TypeArg("types.GenericAlias" if a.subscripted else "builtins.type")
            return None
        if fn == "builtins.isinstance" and len(args) == 2 and isinstance(args[0], TypeArg):
            a, b = args
            targets = _flat(b)
            if "instance" in a.flags and all(isinstance(x, TypeArg) for x in targets):
                try:
                    return any(issubclass(oracle.stdlib_class(a.cls), oracle.stdlib_class(x.cls)) for x in targets)
                except Exception:
                    return None
            if a.flags - {"namedtuple", "typeddict", "annotated"} or not all(isinstance(x, TypeArg) for x in targets):
                return None
            try:
                import types as _types

                if a.subscripted:
                    return any(issubclass(_types.GenericAlias, oracle.stdlib_class(x.cls)) for x in targets)
                return any(isinstance(oracle.stdlib_class(a.cls), oracle.stdlib_class(x.cls)) for x in targets)
            except Exception:
                return None
        if fn == "inspect.isabstract" and args and isinstance(args[0], TypeArg) and not args[0].flags:
            import inspect as _inspect

            try:
                return False if args[0].subscripted else _inspect.isabstract(oracle.stdlib_class(args[0].cls))
            except Exception:
                return None
        if fn == "inspect.isroutine" and args and isinstance(args[0], TypeArg):
            return False
        if tm[1][0] == "attr" and tm[1][2] == "get" and T.refname(tm[1][1]) == f"{INSP}.GENERIC_TYPE_MAP" and args and isinstance(args[0], TypeArg):
            a = args[0]
            if a.subscripted:
                return args[1] if len(args) > 1 else ("none",)
            mapped = self.generic_map().get(a.cls)
            if mapped is None:
                for k, v in self.generic_map().items():
                    try:
                        if oracle.resolve(k) is oracle.resolve(a.cls) or getattr(oracle.resolve(k), "__origin__", None) is oracle.resolve(a.cls):
                            mapped = v
                    except Exception:
                        pass
            return TypeArg(mapped) if mapped else (args[1] if len(args) > 1 else ("none",))
        if fn == f"{INSP}.origin" and not getattr(self, "interpret_origin", False):
            a = args[0] if args else None
            if not isinstance(a, TypeArg):
                return None
            if a.cls in ("collections.abc.Callable", "typing.Callable"):
                return TypeArg("typing.Callable")  # documented: every Callable form normalises to typing.Callable
            base = TypeArg(a.cls)  # get_origin of a subscripted generic is its class
            mapped = self.generic_map().get(a.cls)
            if mapped is None:
                for k, v in self.generic_map().items():
                    try:
                        if oracle.resolve(k) is oracle.resolve(a.cls) or getattr(oracle.resolve(k), "__origin__", None) is oracle.resolve(a.cls):
                            mapped = v
                    except Exception:
                        pass
            return TypeArg(mapped) if mapped else base
        if fn == "typing.get_origin":
            a = args[0] if args else None
            if isinstance(a, TypeArg):
                # the origin of an alias of a user generic (a flagged descriptor) is that class, structure included
                return TypeArg(a.cls, flags=frozenset(f for f in a.flags if f != "instance")) if a.subscripted else ("none",)
            return None
        if fn in (f"{INSP}.args", "typing.get_args"):
            a = args[0] if args else None
            if isinstance(a, TypeArg):
                return tuple(x if x == "..." else (("unhashable", "list") if x == "[]" else TypeArg(x)) for x in a.args) if a.subscripted else ()
            return None
        if fn == "inspect.isclass":
            a = args[0] if args else None
            return (not a.subscripted and not not_a_class(a)) if isinstance(a, TypeArg) else None
        if fn == "builtins.hasattr":
            a = args[0] if args else None
            nm = args[1] if len(args) > 1 else None
            if isinstance(a, TypeArg) and isinstance(nm, str):
                if nm == "_fields":
                    return "namedtuple" in a.flags
                if nm == "__total__":
                    return "typeddict" in a.flags
                if nm == "__args__":
                    return a.subscripted
                if "instance" in a.flags:
                    inst = oracle.sample_instance(a.cls)
                    return None if inst is None else hasattr(inst, nm)
                try:
                    return hasattr(oracle.stdlib_class(a.cls), nm)
                except Exception:
                    return None
            return None
        if fn == "builtins.getattr":
            a = args[0] if args else None
            nm = args[1] if len(args) > 1 else None
            if isinstance(a, TypeArg) and nm == "__annotations__":
                return True if "annotated" in a.flags or "namedtuple+annotated" in a.flags else (args[2] if len(args) > 2 else None)
            if isinstance(a, TypeArg) and nm == "__origin__":
                if a.subscripted:
                    return TypeArg(a.cls)
                return args[2] if len(args) > 2 else None
            if isinstance(a, TypeArg) and isinstance(nm, str) and not a.subscripted and not a.flags:
                try:
                    real = oracle.stdlib_class(a.cls)
                    if not hasattr(real, nm):
                        return args[2] if len(args) > 2 else ("raises",)
                except Exception:
                    return None
            return None
        if fn == "builtins.bool":
            v = args[0] if args else None
            return None if v is None else self.truthy(v)
        if fn == "inspect.getmro":
            a = args[0] if args else None
            if isinstance(a, TypeArg) and not a.subscripted:
                try:
                    c = oracle.stdlib_class(a.cls)
                    return tuple(TypeArg(f"{m.__module__}.{m.__qualname__}") for m in c.__mro__)
                except Exception:
                    return None
            return None
        if fn in (f"{INSP}.name", f"{INSP}.qualname"):
            a = args[0] if args else None
            if isinstance(a, TypeArg):
                try:
                    return getattr(oracle.stdlib_class(a.cls), "__name__", None)
                except Exception:
                    return None
            return None
        if fn == f"{INSP}.issubscriptedgeneric":
            a = args[0] if args else None
            return a.subscripted if isinstance(a, TypeArg) else None
        if fn == f"{INSP}.isgeneric":
            a = args[0] if args else None
            return a.subscripted if isinstance(a, TypeArg) else None
        if fn and fn.startswith(INSP + "."):
            f = self.prog.functions.get(fn)
            if f is not None:
                return self.call_function(f, args, depth + 1)
        return None


@functools.lru_cache(maxsize=None)
def _catalogue() -> tuple:
    c = [TypeArg(x) for x in oracle.CATALOGUE if x not in ("builtins.object", "builtins.type")]
    c += [
        TypeArg("builtins.list", True, ("builtins.int",)),
        TypeArg("builtins.set", True, ("builtins.int",)),
        TypeArg("builtins.frozenset", True, ("builtins.int",)),
        TypeArg("collections.deque", True, ("builtins.int",)),
        TypeArg("builtins.tuple", True, ("builtins.int", "...")),
        TypeArg("builtins.tuple", True, ("builtins.int", "builtins.str")),
        TypeArg("builtins.tuple", True, ("builtins.int", "builtins.int")),
        TypeArg("builtins.tuple", True, ("builtins.float",)),
        TypeArg("builtins.dict", True, ("builtins.str", "builtins.int")),
        TypeArg("collections.OrderedDict", True, ("builtins.str", "builtins.int")),
        TypeArg("collections.abc.Mapping", True, ("builtins.str", "builtins.int")),
        TypeArg("collections.abc.Sequence", True, ("builtins.int",)),
        TypeArg("collections.abc.Iterable", True, ("builtins.int",)),
        TypeArg("collections.abc.Iterator", True, ("builtins.int",)),
        TypeArg("builtins.tuple", False, (), frozenset({"namedtuple", "annotated"})),
        TypeArg("builtins.tuple", False, (), frozenset({"namedtuple"})),
        TypeArg("builtins.dict", False, (), frozenset({"typeddict", "annotated"})),
    ]
    return tuple(c)


THOROUGH = False


@functools.lru_cache(maxsize=None)
def _extended() -> tuple:
    """Thorough tier: every class exported by the stdlib modules the library names, plus every typing alias with a class origin,
    bare and subscripted."""
    import importlib
    import inspect as _inspect

    seen = {a.cls for a in _catalogue()}
    out = []
    for mn in ("datetime", "decimal", "fractions", "numbers", "uuid", "pathlib", "enum", "collections", "collections.abc", "ipaddress", "types", "array", "queue", "io"):
        try:
            m = importlib.import_module(mn)
        except Exception:
            continue
        for nm in sorted(dir(m)):
            o = getattr(m, nm)
            if _inspect.isclass(o) and not nm.startswith("_") and o.__module__.split(".")[0] in (mn.split(".")[0], "_collections_abc", "builtins", "_decimal", "_io"):
                dotted = f"{mn}.{nm}"
                try:
                    oracle.stdlib_class(dotted)
                except Exception:
                    continue
                if dotted not in seen and not issubclass(o, BaseException):
                    seen.add(dotted)
                    out.append(TypeArg(dotted))
    import typing as _t

    for nm in sorted(dir(_t)):
        o = getattr(_t, nm)
        org = getattr(o, "__origin__", None)
        if _inspect.isclass(org) and nm[0].isupper():
            dotted = f"{org.__module__}.{org.__qualname__}"
            try:
                oracle.stdlib_class(dotted)
            except Exception:
                continue
            n = getattr(o, "_nparams", 1) or 1
            if n in (1, 2):
                out.append(TypeArg(dotted, True, ("builtins.str", "builtins.int")[: n if n > 0 else 1]))
    return tuple(out)


def catalogue():
    base = list(_catalogue())
    if THOROUGH:
        have = {(a.cls, a.subscripted, a.args, a.flags) for a in base}
        for a in _extended():
            if (a.cls, a.subscripted, a.args, a.flags) not in have:
                base.append(a)
    return base


def leaf_test_agreement(prog: Program, rep, rule: str):
    """The leaf test of the graph walk / pass-through row of the dispatch tables (isunresolvable) is false for every
    concrete class of the catalogue -- including the witness for "a class whose instances are callable" -- and true for
    the documented unresolvable forms.  The predicate is interpreted from its source (PredEval)."""
    pe = PredEval(prog)
    pe.interpret_origin = True
    f = prog.function(f"{INSP}.isunresolvable")
    pred = ("ref", f.qualname)
    wrong, undec, n = [], [], 0
    leaves = [
        TypeArg("typing.TypeVar", flags=frozenset({"instance"})),
        TypeArg("builtins.type", True, ("builtins.int",)),
        TypeArg("builtins.type"),  # the bare spelling of "some class": nothing to build a routine from either
        TypeArg("collections.abc.Callable", True, ("[]", "builtins.str")),
        TypeArg("typing.Callable"),
        TypeArg("typing.Any"),
        TypeArg("builtins.object"),
        TypeArg("builtins.Ellipsis"),
        TypeArg("re.Match"),
        TypeArg("re.Match", True, ("builtins.str",)),  # the spelling type checkers ask for (also what typing.Match[str] is)
    ]
    documented = {"collections.abc.Callable", "typing.Callable", "typing.Any", "builtins.object", "builtins.type", "builtins.Ellipsis", "types.EllipsisType", "re.Match", "typing.TypeVar"}
    for a in catalogue():
        if a.flags or a.subscripted or a.cls in documented:
            continue
        v = pe.accepts(pred, a)
        n += 1
        if v is None or v == ("raises",):
            undec.append(a.label())
        elif pe.truthy(v):
            wrong.append(f"{a.label()} is treated as unresolvable")
    for a in leaves:
        v = pe.accepts(pred, a)
        n += 1
        if v is None or v == ("raises",):
            undec.append(a.label())
        elif not pe.truthy(v):
            wrong.append(f"{a.label()} is not treated as unresolvable")
    if undec and not wrong:
        rep.undecided(rule, f.qualname, f.loc, f"isunresolvable could not be evaluated on {undec[:4]}", detail="leaf-test")
    else:
        rep.check(
            not wrong, rule, f.qualname, f.loc,
            f"interpreted on {n} forms: no concrete class (incl. a class defining __call__) is a leaf; TypeVar, type[X], Callable forms, Any, object, Ellipsis are",
            f"the leaf test disagrees with its contract: {'; '.join(wrong[:3])} -- such a type gets the pass-through routine and no member nodes (a structured class defining __call__ comes back as the raw input)",
            detail="leaf-test",
        )  # fmt: skip
    return n


def param_spelling_agreement(prog: Program, rep, rule: str):
    """A scalar class that can be written with a parameter (`re.Pattern[str]` -- the spelling type checkers ask for) is the
    same annotation as the bare class: both dispatch tables route the two spellings to the same routine."""
    pe = PredEval(prog)
    pe.interpret_origin = True
    pairs = [
        (TypeArg("re.Pattern"), TypeArg("re.Pattern", True, ("builtins.str",))),
        (TypeArg("re.Pattern"), TypeArg("re.Pattern", True, ("builtins.bytes",))),
    ]
    # ... and a parameterised generic NamedTuple / TypedDict (`Tagged[str]`) is the structured class, not a tuple / mapping
    for a in catalogue():
        if a.flags and "annotated" in a.flags and not a.subscripted:
            pairs.append((a, TypeArg(a.cls, True, ("builtins.int",), a.flags)))
    n = 0
    for d in ("marshal", "unmarshal"):
        rows = handlers(prog, d)
        for bare, sub in pairs:
            kb, rb = route(prog, pe, rows, bare)
            ks, rs = route(prog, pe, rows, sub)
            n += 1
            key = f"{d}:{sub.label()}"
            if "unknown" in (kb, ks):
                rep.undecided(rule, key, rows[0].loc, f"routing of {bare.label()} / {sub.label()} could not be evaluated")
                continue
            same = (kb, rb.routine_ref if rb else None) == (ks, rs.routine_ref if rs else None)
            key = f"{d}:{sub.label()}{'+' + '+'.join(sorted(sub.flags)) if sub.flags else ''}"
            rep.check(same, rule, key, rows[0].loc, f"{sub.label()} is served like {bare.label()} ({rb.pred_name if rb else 'fallback'})", f"{sub.label()} is not recognised by the row that serves {bare.label()} ({rb.pred_name if rb else 'fallback'}: the predicate looks at the alias, not at its origin) and is taken by {'the structured fallback' if rs is None else rs.pred_name}: re.Pattern[str] -> TypeError in vars(); a parameterised generic NamedTuple is built as Tagged(value=<generator>), a generic TypedDict raises at construction")
    return n


def route(prog: Program, pe: PredEval, rows: list[Row], arg: TypeArg):
    """First row whose predicate definitely accepts `arg`; None when undecidable before a hit."""
    for r in rows:
        v = pe.accepts(r.pred, arg)
        if v is None or v == ("raises",):
            return ("unknown", r)
        if pe.truthy(v):
            return ("row", r)
    return ("fallback", None)
