"""C01 — unmarshalling a marshalled value restores the value (structural necessary conditions)."""

from __future__ import annotations

from .. import oracle
from .. import paths as P
from .. import terms as T
from ..model import Program
from ..report import Report
from . import common as C

EXPLANATION = (
    "R01.1 abstract evaluation of every _HANDLERS predicate (body taken from py/inspection.py) on a catalogue of stdlib classes and "
    "generic forms gives each row's acceptance set; obligations: no row is shadowed by an earlier, strictly wider row with another routine, "
    "declared precedence for non-nested overlaps (Enum before its mix-in), special-form filters precede class-valued rows. "
    "R01.2 for each scalar family the marshal routine's wire form (classified from its return term) and the unmarshal routine's reader "
    "features (classified from its sink calls) form an inverse pair. R01.3 exact-class reconstructions copy every constructor field of the "
    "target temporal class from one source. R01.4 a `.time()` result that reaches a return is re-attached to its tzinfo. R01.5 duration writer coverage (shared with C04)."
)
ASSUMPTIONS = [
    "value-level equality through str()/isoformat()/pendulum is not decided (ND)",
    "the aware-time offset lost inside pendulum.parse is outside typelib's source (ND)",
    "which union member accepts a given value is not decided (ND)",
    "acceptance sets are computed over the stdlib catalogue in tlverif/oracle.py plus generic forms; user classes route like their stdlib bases",
]
TRUSTED = oracle.TRUSTED

SPECIAL = ["isforwardref", "isunresolvable", "isnonetype", "isliteral", "isuniontype"]
# overlaps without inclusion: which row must win, and why
PRECEDENCE = {
    "isenumtype": "enum members travel by value, whatever data type they mix in",
    "isfixedtupletype": "a fixed tuple converts each position with its own routine",
    "istypeddict": "structured before generic containers",
    "istypedtuple": "structured before generic containers",
    "isnamedtuple": "structured before generic containers",
}


def acceptance(prog, pe, rows):
    cat = C.catalogue()
    acc = {}
    for r in rows:
        s = set()
        for a in cat:
            v = pe.accepts(r.pred, a)
            if v is not None and v != ("raises",) and pe.truthy(v):
                s.add(a)
        acc[r.index] = s
    return cat, acc


def routine_id(r: C.Row):
    return (r.routine.qualname if r.routine else r.routine_ref, r.alias_param if r.routine and r.routine.name.startswith("Cast") else None)


def r01_1(prog: Program, rep: Report, direction: str):
    pe = C.PredEval(prog)
    rows = C.handlers(prog, direction)
    api = C.DIRS[direction][0]
    cat, acc = acceptance(prog, pe, rows)
    names = [r.pred_name for r in rows]
    # special-form filters first
    first_class_valued = min((r.index for r in rows if r.pred_name not in SPECIAL), default=len(rows))
    for sp in SPECIAL:
        idx = [r.index for r in rows if r.pred_name == sp]
        rep.check(
            bool(idx) and idx[0] < first_class_valued, "R01.1", f"{api}._HANDLERS", rows[0].loc,
            f"special-form filter {sp} precedes every class-valued row", f"special-form filter {sp} is missing or comes after a class-valued row (class-valued predicates use raising issubclass)",
            detail=f"filter-{sp}",
        )  # fmt: skip
    # shadowing: R(i) = what row i really receives (accepted and not taken by an earlier row)
    routed = {}
    taken: set = set()
    for r in rows:
        routed[r.index] = acc[r.index] - taken
        taken |= acc[r.index]
    for j, rj in enumerate(rows):
        if rj.pred_name in SPECIAL:
            continue
        if not acc[rj.index]:
            rep.held("R01.1", f"{api}._HANDLERS", rj.loc, f"row {rj.pred_name}: no catalogue witness (structural predicate)", detail=f"row-{rj.pred_name}", nontrivial=False)
            continue
        bad = None
        for ri in rows[:j]:
            if ri.pred_name in SPECIAL or routine_id(ri) == routine_id(rj):
                continue
            stolen = acc[rj.index] & routed[ri.index]
            if not stolen:
                continue
            if acc[rj.index] < acc[ri.index]:
                bad = (ri, "a narrower row placed after a wider one", stolen)
            elif not (acc[ri.index] <= acc[rj.index]) and ri.pred_name not in PRECEDENCE and not ri.pred_name.startswith("λ"):
                bad = (ri, "the rows overlap without inclusion and no precedence is declared", stolen)
        if bad:
            ri, why, stolen = bad
            wit = sorted(a.label() for a in stolen)[:3]
            rep.violated(
                "R01.1", f"{api}._HANDLERS", rj.loc,
                f"row {rj.pred_name} -> {rj.routine_ref.rsplit('.', 1)[-1]} loses {wit} to the earlier row {ri.pred_name} -> {ri.routine_ref.rsplit('.', 1)[-1]}: {why}",
                {"shadowed_by": ri.pred_name, "witnesses": wit}, detail=f"row-{rj.pred_name}",
            )  # fmt: skip
        else:
            rep.held("R01.1", f"{api}._HANDLERS", rj.loc, f"row {rj.pred_name}: receives {len(routed[rj.index])} catalogue form(s); every earlier taker of its forms is narrower or a declared winner", {"routed": sorted(a.label() for a in routed[rj.index])[:4]}, detail=f"row-{rj.pred_name}")
    # declared winners really come first where they overlap
    for r in rows:
        if r.pred_name in PRECEDENCE:
            for r2 in rows[: r.index]:
                if r2.pred_name in SPECIAL or routine_id(r2) == routine_id(r):
                    continue
                inter = acc[r.index] & acc[r2.index]
                if inter and not (acc[r2.index] <= acc[r.index]):
                    wit = sorted(a.label() for a in inter)[:3]
                    rep.violated("R01.1", f"{api}._HANDLERS", r.loc, f"{r.pred_name} must win over {r2.pred_name} ({PRECEDENCE[r.pred_name]}) but comes later; e.g. {wit}", detail=f"precedence-{r.pred_name}-over-{r2.pred_name}")
    return rows, pe, acc


def wire_form(prog: Program, cls, exact: bool = False) -> set[str]:
    """The shapes a marshal routine returns.  With exact=True three shapes are told apart further (R06.1): `cast-raw` (the
    result of self.origin(val) handed out without its class having been compared with a primitive: an int / float subclass
    instance), `str-raw` (the result of str(val) likewise: a str subclass whose __str__ returns itself) and `*-unguarded`
    (an attribute read off the input without the input's class having been tested)."""
    f = C.call_of(prog, cls)
    forms = set()
    if f is None:
        return {"abstract"}
    def alternatives(tm, conds=()):
        if tm[0] == "ifexp":
            return alternatives(tm[2], conds + ((tm[1], True),)) + alternatives(tm[3], conds + ((tm[1], False),))
        return [(tm, conds)]

    def through(r0, depth=0):
        """A private module-level helper with one unconditional return (memoised or not — the evaluator never inlines a
        memoised one) writes what its return expression writes."""
        if depth < 3 and r0[0] == "call" and r0[1][0] == "ref" and not r0[3] and not any(a[0] == "star" for a in r0[2]):
            g = prog.functions.get(r0[1][1])
            if g is not None and g.cls is None and g.name.startswith("_") and g.module == f.module:
                try:
                    ps = P.paths_of(prog, g)
                except Exception:
                    return r0
                params = [x for x in g.params]
                if len(ps) == 1 and ps[0].exit[0] == "return" and not list(ps[0].guards()) and len(r0[2]) <= len(params):
                    return through(P.substitute(ps[0].exit[1], dict(zip(params, r0[2]))), depth + 1)
        return r0

    rets = []
    for p, r0 in P.returns(P.paths_of(prog, f)):
        rets += [(p, a, extra) for a, extra in alternatives(through(r0))]
    for p, r, extra in rets:
        val = ("param", "val")
        CAST = ("call", C.sattr("origin"), (val,), ())
        STR = ("call", ("ref", "builtins.str"), (val,), ())
        atoms = T.derive_atoms(list(p.guards()) + list(extra))
        STRX = ("call", ("ref", "builtins.str.__str__"), (val,), ())  # the characters of a str instance, whatever its class prints
        PAT = ("attr", val, "pattern")

        def denotes(b, x):
            """`b` is x, or a conditional expression one of whose alternatives is x."""
            return b == x or (b[0] == "ifexp" and any(a == x for a, _ in alternatives(b)))

        def class_known(x):
            for a, val_ in atoms:
                if val_ and a[0] == "cmp" and a[1] == "is":
                    for side in a[2:4]:
                        if (side[0] == "attr" and side[2] == "__class__" and denotes(side[1], x)) or (T.is_call_to(side, "builtins.type") and len(side[2]) == 1 and denotes(side[2][0], x)):
                            return True
            return False

        tested = any(val_ and T.is_call_to(a, "builtins.isinstance") and a[2][:1] == (val,) for a, val_ in atoms)
        is_text = [val_ for a, val_ in atoms if T.is_call_to(a, "builtins.isinstance") and a[2] == (val, ("ref", "builtins.str"))]
        # exact text: str.__str__(<text>) where <text> is str(val) / str.__str__(val) / val.pattern (or a choice between those)
        if r[0] == "call" and T.refname(r[1]) == "builtins.str.__str__" and len(r[2]) == 1 and not r[3]:
            inner = [a for a, _ in alternatives(r[2][0])]
            if r[2][0] == val and is_text == [True]:
                forms.add("str")
                continue
            if inner and all(a in (STR, STRX) for a in inner):
                forms.add("str")
                continue
            if inner == [PAT]:
                forms.add("pattern" if tested or not exact else "pattern-unguarded")
                continue
        if exact and r == STR and is_text != [False] and cls.name == "ToStringMarshaller":
            # (str(val) asks the class how it *prints*: a str instance is written as its characters)
            forms.add("str-printed")
            continue
        if exact and r == PAT and tested:
            exact_or_not_text = class_known(PAT) or any((not val_) and T.is_call_to(a, "builtins.isinstance") and a[2] == (PAT, ("ref", "builtins.str")) for a, val_ in atoms) or any((not val_) and a[0] == "cmp" and a[1] == "is" and ("attr", PAT, "__class__") in a[2:4] for a, val_ in atoms) is False
            known_exact = class_known(PAT) or any((not val_) and T.is_call_to(a, "builtins.isinstance") and a[2] == (PAT, ("ref", "builtins.str")) for a, val_ in atoms)
            del exact_or_not_text
            # (`x if isinstance(p, str) and p.__class__ is not str else p`: where the conjunction failed, p is no str or an exact one)
            raw_guards = list(p.guards()) + list(extra)
            if any((not pol) and g[0] == "boolop" and g[1] == "and" and any(T.is_call_to(o, "builtins.isinstance") and o[2] == (PAT, ("ref", "builtins.str")) for o in g[2]) and any(T.contains(o, lambda y: y == ("attr", PAT, "__class__")) for o in g[2]) for g, pol in raw_guards):
                known_exact = True
            # (the same as a guard that held: `if not isinstance(p, str) or p.__class__ is str: return p`)
            def _harmless(o):
                return (o[0] == "not" and T.is_call_to(o[1], "builtins.isinstance") and o[1][2] == (PAT, ("ref", "builtins.str"))) or (o[0] == "cmp" and o[1] == "is" and ("attr", PAT, "__class__") in o[2:4] and ("ref", "builtins.str") in o[2:4])
            if any(pol and g[0] == "boolop" and g[1] == "or" and all(_harmless(o) for o in g[2]) for g, pol in raw_guards):
                known_exact = True
            forms.add("pattern" if known_exact else "pattern-raw")
            continue
        if r[0] == "call" and T.refname(r[1]) in ("builtins.bool", "builtins.int", "builtins.float") and r[2] == (CAST,) and not r[3]:
            forms.add("cast")
            continue
        if r[0] == "call" and T.refname(r[1]) in ("builtins.str.__str__", "builtins.str.__getitem__") and r[2][:1] == (STR,):
            forms.add("str")
            continue
        not_primitive = all(any((not val_) and T.is_call_to(a, "builtins.isinstance") and a[2] == (CAST, ("ref", b)) for a, val_ in atoms) for b in ("builtins.int", "builtins.float"))
        if exact and r == CAST and not class_known(CAST) and not not_primitive:
            forms.add("cast-raw")
            continue
        if exact and r == STR and not class_known(STR):
            forms.add("str-raw")
            continue
        if exact and r in (("attr", val, "value"), ("attr", val, "pattern")) and not tested:
            forms.add(("enum-value" if r[2] == "value" else "pattern") + "-unguarded")
            continue
        if r == val:
            forms.add("passthrough")
        elif r == ("const", None):
            forms.add("null")
        elif T.is_call_to(r, "builtins.str") and r[2] == (val,):
            forms.add("str")
        elif T.is_call_to(r, f"{C.SERDES}.isoformat") and r[2] == (val,):
            forms.add("iso")
        elif r == ("attr", val, "value"):
            forms.add("enum-value")
        elif r == ("attr", val, "name"):
            forms.add("enum-name")
        elif r == ("attr", val, "pattern"):
            forms.add("pattern")
        elif r[0] == "call" and r[1] == C.sattr("origin") and r[2] == (val,):
            forms.add("cast")
        elif r[0] == "list" and r[1] == (("star", val),):
            forms.add("list-copy")
        elif r[0] == "dict" and r[1] == ((None, val),):
            forms.add("dict-copy")
        elif r[0] == "comp" and r[1] == "list":
            forms.add("list-conv")
        elif r[0] == "comp" and r[1] == "dict":
            forms.add("dict-conv")
        elif r[0] == "list" and not any(e[0] == "star" for e in r[1]):
            forms.add("list-conv")  # filled by an explicit loop
        elif r[0] == "dict" and all(k is not None for k, _ in r[1]):
            forms.add("dict-conv")
        elif r[0] == "comp" and r[1] in ("set", "gen"):
            forms.add("bad:" + {"set": "set", "gen": "generator"}[r[1]])
        elif r[0] in ("tuple", "set"):
            forms.add("bad:" + r[0])
        elif r[0] == "call" and T.refname(r[1]) in ("builtins.tuple", "builtins.set", "builtins.frozenset", "builtins.iter", "collections.deque"):
            forms.add("bad:" + T.refname(r[1]).rsplit(".", 1)[-1])
        elif r[0] == "call" and r[1] in (C.sattr("origin"), C.sattr("t")) and r[2] and r[2][0][0] == "comp":
            forms.add("bad:origin(...) of converted members")
        elif r[0] == "call" and r[1][0] == "elem":
            forms.add("member")
        elif r[0] == "call" and r[1] == C.sattr("resolved"):
            forms.add("delegate")
        else:
            forms.add("unknown:" + T.show(r)[:60])
    return forms


def reader_features(prog: Program, cls) -> set[str]:
    f = C.call_of(prog, cls)
    feats = set()
    if f is None:
        return {"abstract"}
    for p in P.paths_of(prog, f):
        for c in p.calls():
            n = T.refname(c[1])
            if n == f"{C.SERDES}.dateparse":
                feats.add("dateparse")
            if n == "re.compile":
                feats.add("re.compile")
            if n == "builtins.getattr" and c[2] and c[2][0] in (C.sattr("t"), C.sattr("origin")):
                feats.add("by-name")
        for tm in p.all_terms():
            for s in T.walk(tm):
                if s[0] == "sub" and s[1] in (C.sattr("t"), C.sattr("origin")):
                    feats.add("by-name")
                if s[0] == "attr" and s[1] in (C.sattr("t"), C.sattr("origin")) and s[2] in ("__members__", "_member_map_", "_member_names_"):
                    feats.add("by-name")
        if p.exit[0] == "return":
            # (a returned conditional expression answers with either arm)
            arms = [p.exit[1]]
            while any(a[0] == "ifexp" for a in arms):
                arms = [b for a in arms for b in ((a[2], a[3]) if a[0] == "ifexp" else (a,))]
            for r in arms:
                if r == ("param", "val"):
                    feats.add("identity")
                if r[0] == "call" and r[1] in (C.sattr("t"), C.sattr("caster"), C.sattr("origin")):
                    if r[2] and not r[3] and len(r[2]) == 1 and r[2][0][0] != "star":
                        feats.add("ctor-1")
                    feats.add("ctor")
    return feats


PAIRS = {
    # catalogue class -> (allowed wire forms, required reader features, forbidden reader features, reason)
    "builtins.int": ({"cast"}, {"ctor-1"}, set(), "numbers are cast both ways"),
    "builtins.bool": ({"cast"}, {"ctor-1"}, set(), "numbers are cast both ways"),
    "builtins.float": ({"cast"}, {"ctor-1"}, set(), "numbers are cast both ways"),
    "builtins.str": ({"str"}, {"ctor-1"}, set(), "text is text"),
    "decimal.Decimal": ({"str"}, {"ctor-1"}, set(), "str(Decimal) is parsed by the constructor"),
    "fractions.Fraction": ({"str"}, {"ctor-1"}, set(), "str(Fraction) is parsed by the constructor"),
    "uuid.UUID": ({"str"}, {"ctor-1"}, set(), "str(UUID) is parsed by the constructor"),
    "pathlib.PurePosixPath": ({"str"}, {"ctor-1"}, set(), "str(path) is parsed by the constructor"),
    "pathlib.Path": ({"str"}, {"ctor-1"}, set(), "str(path) is parsed by the constructor"),
    "datetime.date": ({"iso"}, {"dateparse"}, set(), "ISO text is parsed by serdes.dateparse"),
    "datetime.datetime": ({"iso"}, {"dateparse"}, set(), "ISO text is parsed by serdes.dateparse"),
    "datetime.time": ({"iso"}, {"dateparse"}, set(), "ISO text is parsed by serdes.dateparse"),
    "datetime.timedelta": ({"iso"}, {"dateparse"}, set(), "ISO duration is parsed by serdes.dateparse"),
    "re.Pattern": ({"pattern"}, {"re.compile"}, set(), "the pattern source is recompiled"),
    "enum.Enum": ({"enum-value"}, {"ctor-1"}, {"by-name"}, "members go over the wire by value and come back by value lookup"),
    "enum.IntEnum": ({"enum-value"}, {"ctor-1"}, {"by-name"}, "members go over the wire by value and come back by value lookup"),
    "enum.StrEnum": ({"enum-value"}, {"ctor-1"}, {"by-name"}, "members go over the wire by value and come back by value lookup"),
    "enum.IntFlag": ({"enum-value"}, {"ctor-1"}, {"by-name"}, "members go over the wire by value and come back by value lookup"),
    "builtins.bytes": ({"passthrough"}, set(), set(), "bytes are carried verbatim"),
}


def r01_2(prog: Program, rep: Report, mrows, urows, pe):
    for cls, (wires, need, forbid, why) in PAIRS.items():
        arg = C.TypeArg(cls)
        km, rm = C.route(prog, pe, mrows, arg)
        ku, ru = C.route(prog, pe, urows, arg)
        loc = mrows[0].loc
        if km != "row" or ku != "row" or rm.routine is None or ru.routine is None:
            rep.violated("R01.2", "dispatch", loc, f"{cls} is not routed to a routine in both directions (marshal: {km}, unmarshal: {ku})", detail=cls)
            continue
        w = wire_form(prog, rm.routine)
        f = reader_features(prog, ru.routine)
        if any(x.startswith("unknown:") for x in w):
            rep.undecided("R01.2", "dispatch", rm.routine.loc, f"{cls}: wire form of {rm.routine.name} not in the idiom set: {sorted(w)}", detail=cls)
            continue
        ok = w <= wires and need <= f and not (forbid & f)
        rep.check(
            ok, "R01.2", "dispatch", rm.routine.loc,
            f"{cls}: {rm.routine.name} writes {sorted(w)} and {ru.routine.name} reads with {sorted(f)} — inverse pair ({why})",
            f"{cls}: {rm.routine.name} writes {sorted(w)} but {ru.routine.name} reads with {sorted(f)}; required wire {sorted(wires)}, reader must have {sorted(need)} and not {sorted(forbid)} ({why})",
            {"marshal": rm.routine.qualname, "unmarshal": ru.routine.qualname}, detail=cls,
        )  # fmt: skip


def routine_kind(prog, cls) -> str:
    """Structural kind of a routine, from its member slots: mapping / iterable / fixed / struct / union / scalar."""
    from . import c03
    from . import composites as K

    f = C.call_of(prog, cls)
    sl = K.slots_of(prog, cls)
    if f is not None and c03.is_union_like(prog, f):
        return "union"
    kinds = sorted((s.kind, str(s.alts[0].position if s.alts else s.position)) for s in sl.values())
    if any(k == "dict" for k, _ in kinds):
        return "struct"
    if any(k == "list" for k, _ in kinds):
        return "fixed"
    singles = [p for k, p in kinds if k == "single"]
    if singles == ["0", "1"]:
        return "mapping"
    if singles == ["0"]:
        return "iterable"
    return "scalar"


def r01_6(prog: Program, rep: Report, mrows, urows, pe):
    """Composite forms are served by routines of the same structural kind in both directions."""
    n = 0
    for a in C.catalogue():
        if not (a.subscripted or a.flags):
            continue
        km, rm = C.route(prog, pe, mrows, a)
        ku, ru = C.route(prog, pe, urows, a)
        if km == "unknown" or ku == "unknown":
            rep.undecided("R01.6", "dispatch", mrows[0].loc, f"{a.label()}: routing undecidable (marshal: {km}, unmarshal: {ku})", detail=a.label())
            continue
        cm = rm.routine if rm else C.fallback_routine(prog, "marshal")
        cu = ru.routine if ru else C.fallback_routine(prog, "unmarshal")
        if cm is None or cu is None:
            continue
        kindm, kindu = routine_kind(prog, cm), routine_kind(prog, cu)
        n += 1
        # a subscripted iterator has no marshal-side twin (it is consumed as an iterable)
        ok = kindm == kindu
        rep.check(ok, "R01.6", "dispatch", (ru or rm).loc if (ru or rm) else "", f"{a.label()}: {cm.name} / {cu.name} are both `{kindm}` routines", f"{a.label()} is marshalled by a `{kindm}` routine ({cm.name}) but unmarshalled by a `{kindu}` routine ({cu.name}): the two directions disagree about the shape (e.g. a fixed tuple read back as a variable-length one loses its arity check and per-position routines)", detail=a.label())
    return n


def r01_3(prog: Program, rep: Report, urows, pe):
    target = {}
    for cls in oracle.DATETIME_FIELDS:
        k, r = C.route(prog, pe, urows, C.TypeArg(cls))
        if k == "row" and r.routine:
            target.setdefault(r.routine.qualname, cls)
    n = 0
    for qual, cls in target.items():
        rc = prog.classes[qual]
        f = C.call_of(prog, rc)
        seen = set()
        for p, r in P.returns(P.paths_of(prog, f)):
            if r[0] != "call" or r[1] not in (C.sattr("t"), C.sattr("origin")) or r[2] or len(r[3]) < 2:
                continue
            kws = dict(r[3])
            copies = {k: v for k, v in kws.items() if v[0] == "attr"}
            if len(copies) < 2:
                continue
            srcs = {v[1] for v in copies.values()}
            mism = [k for k, v in copies.items() if v[2] != k]
            pure = len(copies) == len(kws)
            key = tuple(sorted(kws))
            if key in seen:
                continue
            seen.add(key)
            n += 1
            fields = set(oracle.DATETIME_FIELDS[cls])
            det = "+".join(sorted(kws))
            src0 = next(iter(srcs)) if len(srcs) == 1 else None
            has_time = {"hour", "minute", "second"} & set(copies)
            if mism:
                rep.violated("R01.3", qual, f.loc, f"reconstruction copies field(s) {mism} from a differently named attribute", detail=det)
            elif src0 is not None and [k for k, v in kws.items() if k in oracle.DATETIME_FIELDS[cls] and k not in copies and not (T.refname(v) in oracle.UTC_NAMES and not has_time)]:
                alt = [k for k, v in kws.items() if k in oracle.DATETIME_FIELDS[cls] and k not in copies and not (T.refname(v) in oracle.UTC_NAMES and not has_time)]
                rep.violated("R01.3", qual, f.loc, f"reconstruction of {cls} takes {alt} from something other than the parsed value's own attribute ({', '.join(T.show(kws[k])[:40] for k in alt)}): the value's offset / fold is not carried over unchanged", detail=det)
            elif len(srcs) != 1:
                rep.violated("R01.3", qual, f.loc, "reconstruction mixes attribute sources: " + ", ".join(T.show(s)[:40] for s in srcs), detail=det)
            elif pure and set(kws) != fields:
                rep.violated(
                    "R01.3", qual, f.loc,
                    f"exact-class reconstruction of {cls} copies {sorted(kws)} but the class is defined by {sorted(fields)}; missing {sorted(fields - set(kws))}",
                    detail="copy-" + cls.rsplit(".", 1)[-1],
                )  # fmt: skip
            elif pure:
                rep.held("R01.3", qual, f.loc, f"exact-class reconstruction of {cls} copies all {len(fields)} fields from one source", detail="copy-" + cls.rsplit(".", 1)[-1])
            else:
                rep.held("R01.3", qual, f.loc, f"lift into {cls}: copied fields keep their names, one source", detail=det)
    return n


def r01_4(prog: Program, rep: Report):
    """Every X.time() flowing to a return is re-attached to a tzinfo (X.timetz() accepted)."""
    funcs = [f for q, f in prog.functions.items() if q.startswith("typelib.serdes.") or q.startswith("typelib.unmarshals.routines.")]
    sites = 0
    for f in funcs:
        try:
            ps = P.paths_of(prog, f)
        except Exception:
            continue
        done = set()
        for p, r in P.returns(ps):
            wrapped = set()
            for s in T.walk(r):
                if s[0] == "call" and s[1][0] == "attr" and s[1][2] == "replace" and any(k == "tzinfo" for k, _ in s[3]):
                    b = s[1][1]
                    if b[0] == "call" and b[1][0] == "attr" and b[1][2] == "time" and not b[2]:
                        tz = dict(s[3])["tzinfo"]
                        src = b[1][1]
                        okz = tz == ("attr", src, "tzinfo") or (T.refname(tz) in oracle.UTC_NAMES)
                        wrapped.add((b, okz))
            for s in T.walk(r):
                if s[0] == "call" and s[1][0] == "attr" and s[1][2] == "time" and not s[2] and s[1][1][0] != "ref":
                    key = T.show(s)[:80]
                    if (f.qualname, key) in done:
                        continue
                    done.add((f.qualname, key))
                    sites += 1
                    w = [ok for b, ok in wrapped if b == s]
                    if not w:
                        rep.violated("R01.4", f.qualname, f.loc, f"`.time()` result reaches the return without its tzinfo re-attached: {key}", detail=f"time#{len(done)}")
                    elif not all(w):
                        rep.violated("R01.4", f.qualname, f.loc, f"`.time()` result is given a tzinfo that is not its source's: {key}", detail=f"time#{len(done)}")
                    else:
                        rep.held("R01.4", f.qualname, f.loc, f"`.time()` result re-attached to its source tzinfo: {key}", detail=f"time#{len(done)}")
    return sites


def run(prog: Program, rep: Report, tier: str):
    rep.rule("R01.7", "a parameterised scalar spelling (re.Pattern[str]) round-trips through the same routine pair as the bare class (shared with R17.11)", floor=4)
    C.param_spelling_agreement(prog, rep, "R01.7")
    rep.rule("R01.1", "dispatch reachability and precedence in both _HANDLERS tables", floor=50)
    rep.rule("R01.2", "marshal wire form / unmarshal reader form are an inverse pair per scalar family", floor=19)
    rep.rule("R01.3", "temporal reconstructions copy every constructor field from one source", floor=3)
    rep.rule("R01.4", "tzinfo re-attached after .time()", floor=3)
    rep.rule("R01.6", "composite forms are served by the same structural kind of routine in both directions", floor=15)
    rep.rule("R01.5", "duration writer covers pendulum's decomposition (shared with R04.2)", floor=1)
    mrows, pe, _ = r01_1(prog, rep, "marshal")
    urows, _, _ = r01_1(prog, rep, "unmarshal")
    r01_2(prog, rep, mrows, urows, pe)
    r01_6(prog, rep, mrows, urows, pe)
    r01_3(prog, rep, urows, pe)
    r01_4(prog, rep)
    from . import c04

    c04.duration_writer(prog, rep, rule="R01.5", only_coverage=True)
