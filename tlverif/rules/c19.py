"""C19 — slotted dataclasses behave like the original dataclass (structural necessary conditions)."""

from __future__ import annotations

import ast

from .. import oracle
from .. import paths as P
from .. import terms as T
from ..model import AnalysisError, Program
from ..report import Report
from . import effects as E

EXPLANATION = (
    "R19.1 the module-level re-entrancy guard is released on every normal exit of the inner wrap(): each return path that added its key to _stack "
    "later clears/discards it. R19.2 __slots__ = dataclass field names (plus '__dict__'/'__weakref__' only under their own flag) minus inherited slots; "
    "every field name is removed from the class dict. R19.3 the class is rebuilt as cls.__class__(cls.__name__, cls.__bases__, <dict copied from "
    "cls.__dict__>) and __qualname__ is propagated. R19.4 the frozen pickle hook is installed only when the class defines neither __getstate__ nor "
    "__setstate__ and is frozen."
)
ASSUMPTIONS = [
    "equality/hash/repr/copy/pickle equivalence of instances and inheritance behaviour are runtime statements (ND)",
    "type(name, bases, dict) semantics of Python",
]
TRUSTED = oracle.TRUSTED
MOD = "typelib.py.classes"
CLS = ("param", "cls")
STACK = ("ref", f"{MOD}._stack")
RELEASE = {"clear", "discard", "remove"}


def _sameness(cond, pol):
    """Does `cond` (with this polarity) say that the re-bound object IS the original (True), that it is another one (False),
    or neither (None)?"""
    if cond[0] == "not":
        return _sameness(cond[1], not pol)
    if cond[0] == "cmp" and cond[1] in ("is", "isnot"):
        return pol if cond[1] == "is" else not pol
    if cond[0] == "call" and T.refname(cond[1]) in ("builtins.all", "builtins.any") and len(cond[2]) == 1 and cond[2][0][0] == "comp":
        inner = _sameness(cond[2][0][2], True)
        if inner is None:
            return None
        if T.refname(cond[1]) == "builtins.all":
            # all(a is b): same when true, changed when false; all(a is not b) true: (all) changed
            return pol if inner else (False if pol else None)
        # any(a is not b): changed when true, same when false; any(a is b) says nothing about the rest
        return (not pol) if not inner else None
    return None


def _leaves(term, conds=()):
    if term[0] == "ifexp":
        yield from _leaves(term[2], conds + ((term[1], True),))
        yield from _leaves(term[3], conds + ((term[1], False),))
    else:
        yield conds, term


def rebind_rules(prog, rep, wrap_fn):
    """The function that re-binds the closure cells (repair 93): what it must do for the slotted class to behave like the
    original -- and for the original to go on behaving like itself."""
    rule = "R19.3"
    mod = wrap_fn.module
    g = None
    for cn in sorted(E.callees(prog, wrap_fn)):
        cand = prog.functions.get(cn)
        if cand is None or cand.module is not mod:
            continue
        try:
            cps = P.paths_of(prog, cand)
        except Exception:
            continue
        if any(T.contains(tm, lambda x: T.is_call_to(x, "types.FunctionType", "types.CellType") or (x[0] == "attr" and x[2] == "cell_contents")) for pth in cps for tm in pth.all_terms()):
            g = cand
            break
    if g is None or len(g.params) < 3:
        return  # (no separate re-binding function: `class-cells` above has decided what there is to decide)
    gps = P.paths_of(prog, g)
    member, old, new = (("param", x) for x in g.params[:3])
    # (a) the cells of the original's functions are never written: the original class goes on using them
    written = []
    for pth in gps:
        for e in pth.events:
            if e[0] == "setattr" and e[2] == "cell_contents" and T.contains(e[1], lambda x: x[0] == "attr" and x[2] == "__closure__") and not T.contains(e[1], lambda x: T.is_call_to(x, "types.CellType")):
                written.append(T.show(e[1])[:50])
    rep.check(not written, rule, g.qualname, g.loc, "the closure cells of the original's functions are left as they are (the copy gets cells of its own)", f"the cell of the original function is re-pointed in place ({written[:1]}): the function object is shared with the original class, whose generated __setattr__ / __delattr__ and zero-argument super() now refer to the slotted class -- and a second decoration of the same original finds no cell holding it", detail="rebind-leaves-original")
    # (a') "nothing to re-bind" is a statement about every cell: the member is handed back unchanged only where all of its
    # cells (parts) are the ones it came with -- one unchanged cell (`__class__` next to a captured helper) proves nothing
    some = []
    for pth, r in P.returns(gps):
        if r == member:
            for g_, pol in pth.guards():
                if pol and T.contains(g_, lambda x: T.is_call_to(x, "builtins.any") and T.contains(x, lambda y: y[0] == "cmp" and y[1] == "is")):
                    some.append(T.show(g_)[:60])
                if (not pol) and T.contains(g_, lambda x: T.is_call_to(x, "builtins.all") and T.contains(x, lambda y: y[0] == "cmp" and y[1] == "is")):
                    some.append("not " + T.show(g_)[:60])
    rep.check(not some, rule, g.qualname, g.loc, "a member is returned as it is only where every cell (part) is unchanged", f"the member is handed back unchanged as soon as *some* cell is the original one ({some[:1]}): a method that holds the class in one cell and anything else in another keeps referring to the class it was copied from", detail="rebind-unchanged-all")
    # (b) the copy carries everything the original function had
    need = {"__code__", "__globals__", "__defaults__", "__kwdefaults__", "__dict__", "__annotations__", "__module__", "__qualname__", "__doc__"}
    wrapper_set = {"__module__", "__qualname__", "__doc__", "__annotations__", "__dict__"}
    missing_all = None
    n_copy = 0
    for pth, r in P.returns(gps):
        if not T.is_call_to(r, "types.FunctionType"):
            continue
        n_copy += 1
        got = set()
        for a in list(r[2]) + [v for _, v in r[3]]:
            if a[0] == "attr" and a[1] == member:
                got.add(a[2])
        if len(r[2]) + len(r[3]) >= 5 or any(k == "closure" for k, _ in r[3]):
            got.add("closure")
        for e in pth.events:
            if e[0] == "setattr" and e[1] == r and e[3] == ("attr", member, e[2]):
                got.add(e[2])
            if e[0] == "eval":
                x = e[1]
                if x[0] == "call" and x[1][0] == "attr" and x[1][2] == "update" and x[1][1] == ("attr", r, "__dict__") and x[2][:1] == (("attr", member, "__dict__"),):
                    got.add("__dict__")
                if T.is_call_to(x, "functools.update_wrapper") and x[2][:2] == (r, member):
                    got |= wrapper_set
                if x[0] == "call" and T.is_call_to(x[1], "functools.wraps") and x[1][2][:1] == (member,) and x[2][:1] == (r,):
                    got |= wrapper_set
        miss = (need | {"closure"}) - got
        missing_all = miss if missing_all is None else (missing_all | miss)
    if n_copy:
        rep.check(not missing_all, rule, g.qualname, g.loc, f"the re-bound copy takes code, globals, defaults, keyword defaults, attributes and metadata from the original ({n_copy} exit(s))", f"the re-bound copy of a method does not take over {sorted(missing_all or [])} from the original: a method with keyword-only defaults raises TypeError for the call the original accepts / attributes set on the function (abstract-method markers, __wrapped__) and its annotations are gone", detail="rebind-carries")
    # (c) methods behind classmethod / staticmethod / property are reached, each accessor of a property, in order
    rec = [x for pth in gps for tm in pth.all_terms() for x in T.walk(tm) if T.is_call_to(x, g.qualname)]
    bad_order = [T.show(x)[:60] for x in rec if len(x[2]) < 3 or x[2][1] != old or x[2][2] != new]
    kinds = {"builtins.classmethod": False, "builtins.staticmethod": False, "builtins.property": False}
    orient_bad = []
    skipped = []
    accessors_bad = []
    for pth, r in P.returns(gps):
        tested = set()
        for a, pol in T.derive_atoms(pth.guards()):
            if pol and T.is_call_to(a, "builtins.isinstance") and a[2][:1] == (member,) and len(a[2]) == 2:
                tested |= {T.refname(x) for x in (P.flatten_display(prog, a[2][1]) or [a[2][1]])}
        tested &= set(kinds)
        if not tested:
            continue
        calls = T.find(r, lambda x: T.is_call_to(x, g.qualname))
        if calls:
            for k in tested:
                kinds[k] = True
        for c in calls:
            for conds in T.enclosing_conditions(r, c):
                if any((not pol) and cnd == c[2][0] for cnd, pol in conds):
                    skipped.append(T.show(c)[:60])
        for conds, leaf in _leaves(r):
            verdicts = [_sameness(c, pol) for c, pol in tuple(conds) + tuple(pth.guards())]
            if leaf == member and not any(v is True for v in verdicts):
                orient_bad.append("the original is returned where the parts are not known to be unchanged")
            if leaf != member and T.contains(leaf, lambda x: T.is_call_to(x, g.qualname)) and any(v is True for v in verdicts):
                orient_bad.append("a new wrapper is built exactly where nothing changed")
        if "builtins.property" in tested:
            for x in T.walk(r):
                if x[0] in ("tuple", "list") and x[1] and all(y[0] == "attr" and y[1] == member and y[2] in ("fget", "fset", "fdel") for y in x[1]):
                    if tuple(y[2] for y in x[1]) != ("fget", "fset", "fdel"):
                        accessors_bad.append(tuple(y[2] for y in x[1]))
    if rec:
        rep.check(not bad_order, rule, g.qualname, g.loc, f"the recursion passes (function, old class, new class) on in this order ({len(rec)} call(s))", f"a recursive call passes its arguments on in another order ({bad_order[:1]}): the cell is compared with the wrong object and nothing is re-bound behind a classmethod / staticmethod / property", detail="rebind-recursion-order")
    unreached = sorted(k.rsplit(".", 1)[1] for k, v in kinds.items() if not v)
    rep.check(not unreached, rule, g.qualname, g.loc, "functions behind classmethod, staticmethod and property are re-bound too", f"methods wrapped in {unreached} are not looked into: a classmethod using zero-argument super() (alternative constructors) or a property reading __class__ keeps the old class in its cell -- TypeError: super(type, obj): obj must be an instance or subtype of type", detail="rebind-descends")
    rep.check(not orient_bad and not skipped and not accessors_bad, rule, g.qualname, g.loc, "a wrapper is rebuilt exactly where its function changed, from all accessors in their order", f"{(orient_bad + ['an accessor that exists is skipped (the call is made only for a missing one): ' + x for x in skipped] + ['the accessors are collected as ' + str(a) + ', property() takes (fget, fset, fdel)' for a in accessors_bad])[:1]}", detail="rebind-wrappers")
    # (d) ... and the re-bound member is stored on the new class exactly where it is another object
    store_bad = []
    n_store = 0
    for pth in P.paths_of(prog, wrap_fn):
        for e in pth.events:
            x = e[1] if e[0] == "eval" else None
            if x is not None and x[0] == "call" and (T.refname(x[1]) or "").endswith("__setattr__") and len(x[2]) == 3 and T.is_call_to(x[2][2], g.qualname):
                n_store += 1
                if any(_sameness(c, pol) is True and T.contains(c, lambda z: z == x[2][2]) for c, pol in pth.guards()):
                    store_bad.append(T.show(x)[:60])
            if e[0] == "setattr" and T.is_call_to(e[3], g.qualname):
                n_store += 1
    if n_store:
        rep.check(not store_bad, rule, wrap_fn.qualname, wrap_fn.loc, "the re-bound member is stored on the new class where it is a new object", "the re-bound member is stored only where it IS the original (nothing was re-bound): every copy with fresh cells is dropped, the new class keeps the functions that hold the old class", detail="rebind-stored")


def run(prog: Program, rep: Report, tier: str):
    rep.rule("R19.1", "re-entrancy guard acquire/release pairing on every normal and exceptional exit", floor=3)
    rep.rule("R19.2", "slot set = fields (+flags) − inherited; field defaults removed from the class dict", floor=5)
    rep.rule("R19.3", "class rebuilt from metaclass/name/bases/copied dict; __qualname__ propagated", floor=3)
    rep.rule("R19.4", "frozen pickle hook guard and setter", floor=2)
    outer = prog.function(f"{MOD}.slotted")
    f, paths = P.closure_paths(prog, outer, "wrap")
    q = f.qualname
    rets = [p for p in paths if p.exit[0] == "return"]
    if not rets:
        rep.undecided("R19.1", q, f.loc, "wrap() has no return path")
        return
    # R19.1
    ok = True
    added_any = False
    for p in rets:
        added = None
        released = False
        for e in p.events:
            if e[0] != "eval":
                continue
            c = e[1]
            if c[0] == "call" and c[1][0] == "attr" and c[1][1] == STACK:
                if c[1][2] == "add":
                    added = c[2][0] if c[2] else None
                    added_any = True
                    released = False
                elif c[1][2] in RELEASE and added is not None:
                    if c[1][2] == "clear" or (c[2] and c[2][0] == added):
                        released = True
        if added is not None and not released:
            ok = False
    rep.check(ok and added_any, "R19.1", q, f.loc, "every return path that registers the class in _stack releases it again", "a normal exit leaves the class registered in the module-level _stack: decorating a second class with the same repr raises TypeError", detail="pairing")
    # ... and on every exceptional exit: between registering the key and the release, the body builds a class and may
    # warn / raise (a base that is no dataclass, a filter turning the advisory warning into an error, type() refusing the
    # slots); a key left behind makes the next decoration of an equally named class fail with a bogus metaclass error
    import ast as _ast

    wnode = f.node
    body = list(wnode.body)

    def is_stack_call(st, names):
        return isinstance(st, _ast.Expr) and isinstance(st.value, _ast.Call) and isinstance(st.value.func, _ast.Attribute) and st.value.func.attr in names and isinstance(st.value.func.value, _ast.Name) and st.value.func.value.id == "_stack"

    exc_ok = None
    for i, st in enumerate(body):
        if is_stack_call(st, ("add",)):
            rest = body[i + 1 :]
            protected = [x for x in rest if isinstance(x, _ast.Try) and any(is_stack_call(y, tuple(RELEASE)) for y in x.finalbody)]
            unprotected = [x for x in rest if not isinstance(x, _ast.Try) and P._may_raise(x) and not is_stack_call(x, tuple(RELEASE)) and not isinstance(x, _ast.Return)]
            exc_ok = bool(protected) and not unprotected
        if isinstance(st, _ast.Try) and any(is_stack_call(y, tuple(RELEASE)) for y in st.finalbody) and any(is_stack_call(y, ("add",)) for y in st.body[:3]):
            exc_ok = True
    if exc_ok is None:
        rep.undecided("R19.1", q, f.loc, "registration of the key not found at statement level", detail="pairing-exceptional")
    else:
        rep.check(exc_ok, "R19.1", q, f.loc, "the key is released on exceptional exits too (try/finally around everything after the registration)", "when wrap() raises after registering the class in _stack the key is never released: the next decoration of a class with the same repr is refused with a bogus 'custom metaclass' TypeError until some other decoration succeeds", detail="pairing-exceptional")
    # the guard itself: raise when already present
    guard = any(p.exit[0] == "raise" and any(pol and g[0] == "cmp" and g[1] == "in" and g[3] == STACK for g, pol in p.guards()) for p in paths)
    rep.check(guard, "R19.1", q, f.loc, "re-entry is detected by membership in _stack", "the re-entrancy test is gone", detail="guard")
    p = rets[0]
    env = p.env
    # R19.2
    def is_cls_dict(tm):
        """A fresh copy of the class namespace: {**cls.__dict__}, dict(cls.__dict__), cls.__dict__.copy()."""
        src = ("attr", CLS, "__dict__")
        if tm[0] == "dict" and any(k is None and v == src for k, v in tm[1]):
            return True
        if tm[0] == "call" and tm[1] == ("attr", src, "copy") and not tm[2]:
            return True
        return T.is_call_to(tm, "builtins.dict") and tm[2] == (src,)

    cls_dict_sets = [e for pth in rets for e in pth.events if e[0] == "setitem" and is_cls_dict(e[1])]
    slots = [e for e in cls_dict_sets if e[2] == ("const", "__slots__")]
    fields_call = ("call", ("ref", "dataclasses.fields"), (CLS,), ())
    ok_slots = bool(slots)
    own_excluded = True
    own_only = True
    for e in slots:
        v = e[3]
        comps = [s for s in T.walk(v) if s[0] == "comp"]
        if not comps:
            ok_slots = False
            continue
        c = comps[0]

        # (a sub-expression computed by a private single-path helper of the module -- `_slots_of_bases(cls)` -- reads as what it returns)
        def _unfold(x):
            if x[0] == "call" and x[1][0] == "ref" and x[1][1] in prog.functions and not x[3]:
                h = prog.functions[x[1][1]]
                if h.cls is None and h.module is f.module and h.name.startswith("_") and not h.node.decorator_list and len(x[2]) == len(h.params):
                    try:
                        hps = P.paths_of(prog, h)
                    except Exception:
                        return None
                    if len(hps) == 1 and hps[0].exit[0] == "return":
                        return P.substitute(hps[0].exit[1], dict(zip(h.params, x[2])))
            return None

        c = T.rewrite(c, _unfold)
        # (`if a and b` is two conditions)
        flat = []
        for cd in c[4]:
            flat += list(cd[2]) if cd[0] == "boolop" and cd[1] == "and" else [cd]
        c0 = c
        c = (c[0], c[1], c[2], c[3], tuple(flat))
        src = c[3][0][0]
        from_fields = T.contains(src, lambda s: s == fields_call)
        # only what the class itself declares: a field inherited from a base *without* __slots__ lives in the __dict__ that base
        # brings along; a slot for it here would shadow the base's class attributes (its defaults)
        own_only = own_only and any(cd[0] == "cmp" and cd[1] == "in" and cd[2] == c[2] and T.contains(cd[3], lambda s: s == ("const", "__annotations__") or (s[0] == "attr" and s[2] == "__annotations__")) for cd in c[4])
        # the per-class __slots__ are flattened into one collection of names: set().union(*…), itertools.chain, or a nested comprehension
        flat = lambda s: (s[0] == "call" and s[1][0] == "attr" and s[1][2] == "union") or T.is_call_to(s, "itertools.chain.from_iterable", "itertools.chain") or (s[0] == "comp" and len(s[3]) >= 2)  # noqa: E731
        filt = any(cd[0] == "cmp" and cd[1] == "notin" and cd[2] == c[2] and T.contains(cd[3], flat) for cd in c[4])
        inherited_ok = any(cd[0] == "cmp" and cd[1] == "notin" and T.contains(cd[3], lambda s: T.is_call_to(s, "builtins.getattr") and len(s[2]) >= 2 and s[2][1] == ("const", "__slots__")) for cd in c[4])
        all_ancestors = any(T.contains(cd, lambda s: (s[0] == "call" and s[1][0] == "attr" and s[1][1] == CLS and s[1][2] == "mro") or s == ("attr", CLS, "__mro__")) for cd in c[4])
        ok_slots = ok_slots and from_fields and filt and inherited_ok and all_ancestors
        # ... of every *proper* ancestor: the class's own __slots__ (an already slotted dataclass) are not "inherited"
        is_mro = lambda s: (s[0] == "call" and s[1][0] == "attr" and s[1][1] == CLS and s[1][2] == "mro") or s == ("attr", CLS, "__mro__")  # noqa: E731
        sliced = any(T.contains(cd, lambda s: s[0] == "sub" and is_mro(s[1]) and s[2][0] == "slice" and s[2][1] == ("const", 1)) for cd in c[4])
        unsliced = any(T.contains(T.rewrite(cd, lambda s: ("const", "<proper-ancestors>") if (s[0] == "sub" and is_mro(s[1]) and s[2][0] == "slice" and s[2][1] == ("const", 1)) else None), is_mro) for cd in c[4])
        own_excluded = own_excluded and sliced and not unsliced
        # nothing reaches the tuple unfiltered: no other element next to the filtered comprehension, and the sequence
        # it is built from is not extended afterwards
        unfiltered = [x for x in (v[1] if v[0] in ("tuple", "list") else ()) if not (x[0] == "star" and x[1] in (c0, comps[0])) and x not in (c0, comps[0])]
        grown = [ev2 for pth in rets for ev2 in pth.events if ev2[0] == "eval" and ev2[1][0] == "call" and ev2[1][1][0] == "attr" and ev2[1][1][2] in ("append", "extend", "insert", "__iadd__") and ev2[1][1][1] in (c0, comps[0])]
        if unfiltered or grown:
            ok_slots = False
    rep.check(ok_slots, "R19.2", q, f.loc, "__slots__ are the dataclass field names not already slotted by a base", "__slots__ are not `fields(cls)` names minus the union of the __slots__ of *every* ancestor (cls.mro()): a slot re-declared from a grandparent is duplicated, or type() raises", detail="slots")
    # a class body without annotations (every field inherited) has no `__annotations__` entry in its namespace at all
    strict_ann = []
    for pth in rets:
        guarded = any(T.contains(g, lambda y: y[0] == "cmp" and y[1] in ("in", "notin") and y[2] == ("const", "__annotations__")) for g, _po in pth.guards())
        for tm in pth.all_terms():
            for x in T.walk(tm):
                if x[0] == "sub" and x[2] == ("const", "__annotations__") and not guarded:
                    strict_ann.append(T.show(x)[:50])
    rep.check(not strict_ann, "R19.2", q, f.loc, "the class's own annotations are read with a default", f"the namespace of the class is subscripted with '__annotations__' ({sorted(set(strict_ann))[:1]}): a dataclass whose body declares no field of its own (`@dataclass class Child(Base): pass`) has no such entry -- slotted(Child) raises KeyError", detail="own-annotations-tolerant")
    rep.check(own_only and bool(slots), "R19.2", q, f.loc, "only the fields the class itself declares get a slot", "every dataclass field gets a slot unless a base *slots* it: for a child of a plain (unslotted) dataclass the inherited fields are slotted again -- slotted(Child).__slots__ == ('a', 'tag', 'b') instead of ('b',) -- and the new descriptors shadow the base's class attributes: a base field(default='base', init=False) makes repr(Slotted()) raise AttributeError", detail="slots-declared-here")
    rep.check(own_excluded and bool(slots), "R19.2", q, f.loc, "only proper ancestors count as providers of inherited slots (mro()[1:])", "the class's own __slots__ are counted as inherited (the whole mro(), the class included, is searched): for a dataclass that is already slotted -- dataclass(slots=True), or slotted() applied twice -- no field gets a slot and no instance can be built (AttributeError: object has no attribute 'x')", detail="slots-own")
    # names come from f.name of dataclasses.fields(cls)
    fn = None
    for e in p.events:
        if e[0] == "assign" and e[2][0] == "comp" and e[2][1] == "dict" and T.contains(e[2], lambda s: s == fields_call):
            fn = e[2]
    names_ok = fn is not None and T.contains(fn, lambda s: s == ("attr", ("elem", fields_call), "name"))
    rep.check(names_ok, "R19.2", q, f.loc, "field names are taken from dataclasses.fields(cls)", "field names are not taken from dataclasses.fields(cls)", detail="field-names")
    # flags
    for flag, key, layout in (("dict", "__dict__", "__dictoffset__"), ("weakref", "__weakref__", "__weakrefoffset__")):
        with_flag = None
        without_flag = False
        layout_aware = None
        sign_tested = False
        for pth in rets:
            gs = pth.guards()
            requested = any(g == ("param", flag) and po for g, po in gs)
            has = any(e[0] == "setitem" and e[2] == ("const", key) and not is_cls_dict(e[1]) and T.contains(e[1], lambda s: s == fields_call) for e in pth.events)
            if has and not requested:
                without_flag = True
            if has:
                with_flag = True
                # the bases' instance layout is consulted: the offset attribute, or a search for a base without __slots__
                aware = any(T.contains(g, lambda s: (s[0] == "attr" and s[2] == layout) or (T.is_call_to(s, "operator.attrgetter", "builtins.getattr") and ("const", layout) in s[2]) or (s[0] == "cmp" and s[1] in ("in", "notin") and s[2] == ("const", "__slots__"))) for g, _po in gs)
                layout_aware = aware if layout_aware is None else (layout_aware and aware)
                # ... by its truth (zero: no such member), never by its sign: a heap class with a managed __dict__ reports -1
                if any(T.contains(g, lambda s: s[0] == "cmp" and s[1] in ("<", "<=", ">", ">=") and any(T.contains(x, lambda y: y[0] == "attr" and y[2] == layout) for x in s[2:4])) for g, _po in gs):
                    sign_tested = True
        rep.check(with_flag is True and without_flag is False, "R19.2", q, f.loc, f"'{key}' slot is added only when `{flag}` is requested", f"'{key}' slot is not tied to the `{flag}` flag (added with flag: {with_flag}, without: {without_flag})", detail=key)
        rep.check(bool(layout_aware), "R19.2", q, f.loc, f"'{key}' is not asked for again when a base already provides it ({layout} of the bases is consulted)", f"the '{key}' slot is requested without looking at the bases: a dataclass deriving from a base without __slots__ already has a {key}, and type() raises TypeError ('{key} slot disallowed: we already got one') -- with the default flags slotted() raises for every subclass of an unslotted dataclass", detail=f"{key}-inherited")
        # what a plain `@slotted` asks for: no instance dict (the point of the exercise), weak references as before
        a = outer.node.args
        defaults = {x.arg: d for x, d in zip(a.kwonlyargs, a.kw_defaults)}
        defaults.update(dict(zip([x.arg for x in (a.posonlyargs + a.args)][len(a.posonlyargs + a.args) - len(a.defaults) :], a.defaults)))
        dflt = defaults.get(flag)
        want = flag == "weakref"
        if flag in defaults:
            rep.check(isinstance(dflt, ast.Constant) and dflt.value is want, "R19.2", outer.qualname, outer.loc, f"`{flag}` defaults to {want}", f"`{flag}` defaults to {ast.unparse(dflt) if dflt is not None else 'nothing'}: a plain @slotted " + ("gives every instance a __dict__ nobody requested" if flag == "dict" else "makes instances that cannot be weakly referenced, which instances of the original dataclass can"), detail=f"{key}-default")
        # one base that provides the member is enough for type() to refuse a second one: the question over the bases is
        # existential (`any`), a universal one (`all`) asks again whenever a slotted mixin stands beside an unslotted base
        universal = any(T.contains(g, lambda s: T.is_call_to(s, "builtins.all") and T.contains(s, lambda y: y[0] == "attr" and y[2] == layout)) for pth in rets for g, _po in pth.guards())
        rep.check(not universal, "R19.2", q, f.loc, f"whether a base provides '{key}' is asked of any base", f"'{key}' is withheld only when *all* bases provide it: `class C(SlottedMixin, PlainBase)` has one base that does, the slot is requested again and type() raises TypeError ('{key} slot disallowed: we already got one')", detail=f"{key}-any-base")
        rep.check(not sign_tested, "R19.2", q, f.loc, f"{layout} of a base is tested for being non-zero", f"{layout} of a base is compared by order: the offset is negative for an ordinary heap class (managed dict: -1 on CPython >= 3.11; a negative offset counts from the end of a variable-sized object), so a base that does provide '{key}' is not recognised and type() raises TypeError ('{key} slot disallowed: we already got one')", detail=f"{key}-offset-sign")
    # field defaults removed from class dict
    popped = False
    for pth in rets:
        for e in pth.events:
            if e[0] == "eval":
                c = e[1]
                if c[0] == "call" and c[1][0] == "attr" and c[1][2] == "pop" and c[2] and c[2][0][0] == "elem" and T.contains(c[2][0][1], lambda s: s == fields_call):
                    # all field names, not only the ones that became new slots (an inherited slot's default must go too)
                    filtered = T.contains(c[2][0][1], lambda s: s[0] == "cmp" and s[1] == "notin")
                    if not filtered:
                        popped = True
    rep.check(popped, "R19.2", q, f.loc, "every field name is removed from the class dict (defaults would clash with slots)", "not every field name is removed from the class dict (only the new slots, or none): a defaulted field makes type() raise 'conflicts with class variable', and a re-declared inherited field keeps a class attribute that shadows the base's slot", detail="pop-fields")
    # the original class's own __dict__ / __weakref__ descriptors never travel into the copy of its namespace: they are
    # getset descriptors bound to the *old* type (hasattr(inst, '__dict__') would raise TypeError instead of answering False)
    for key in ("__dict__", "__weakref__", "__slotnames__"):
        on_all = bool(rets)
        for pth in rets:
            removed = False
            for e in pth.events:
                if e[0] == "eval" and e[1][0] == "call" and e[1][1][0] == "attr" and e[1][1][2] == "pop" and e[1][2][:1] == (("const", key),) and is_cls_dict(e[1][1][1]):
                    removed = True
                # `for f in (*field_names, "__dict__", …): cls_dict.pop(f, None)`: the key is an element of the display looped over
                if e[0] == "eval" and e[1][0] == "call" and e[1][1][0] == "attr" and e[1][1][2] == "pop" and is_cls_dict(e[1][1][1]) and e[1][2] and e[1][2][0][0] == "elem" and e[1][2][0][1][0] in ("tuple", "list") and ("const", key) in e[1][2][0][1][1]:
                    removed = True
                if e[0] == "delete" and e[1][0] == "sub" and e[1][2] == ("const", key) and is_cls_dict(e[1][1]):
                    removed = True
                if e[0] == "assign" and e[2][0] == "comp" and e[2][1] == "dict" and any(T.contains(cd, lambda y: y == ("const", key)) for cd in e[2][4]):
                    removed = True
            if not removed:
                on_all = False
        if key == "__slotnames__":
            rep.check(on_all, "R19.2", q, f.loc, "the copyreg cache '__slotnames__' of the original class does not travel into the copied namespace", "the copied class namespace keeps '__slotnames__': copying or pickling any instance of the original class makes CPython cache `__slotnames__ = []` in its __dict__; the slotted class is then born with that stale cache, its slot values are left out of the state, and copy.copy / deepcopy / pickle of every instance fail (TypeError: cannot pickle ... object) or lose the fields", detail="descriptor-__slotnames__")
            continue
        rep.check(on_all, "R19.2", q, f.loc, f"the original class's '{key}' descriptor is removed from the copied namespace on every path", f"the copied class namespace keeps the original class's '{key}' descriptor when the flag is off (it is only popped as a field name when the flag is on): the descriptor belongs to the old type, so hasattr(inst, '{key}') raises TypeError instead of returning False, inspect.getmembers(inst) fails", detail=f"descriptor-{key}")
    # R19.3
    new_cls = None
    built = {}
    for i, pth in enumerate(rets):
        for e in pth.events:
            if e[0] == "assign" and e[2][0] == "call" and e[2][1] == ("attr", CLS, "__class__"):
                new_cls = e[2]
                built[i] = e[2]
    ok_new = False
    if new_cls is not None and len(new_cls[2]) == 3:
        a0, a1, a2 = new_cls[2]
        ok_new = a0 == ("attr", CLS, "__name__") and a1 == ("attr", CLS, "__bases__") and is_cls_dict(a2)
    rep.check(ok_new, "R19.3", q, f.loc, "new class = cls.__class__(cls.__name__, cls.__bases__, {**cls.__dict__, …})", "the slotted class is not rebuilt from the original's metaclass, name, bases and a copy of its dict", detail="rebuild")
    qn = all(any(e[0] == "setattr" and e[2] == "__qualname__" and e[3] == ("attr", CLS, "__qualname__") and e[1] == built.get(i) for e in pth.events) for i, pth in enumerate(rets))
    mod = all(any(e[0] == "setattr" and e[2] == "__module__" and e[3] == ("attr", CLS, "__module__") and e[1] == built.get(i) for e in pth.events) or any(e[0] == "setitem" and is_cls_dict(e[1]) and e[2] == ("const", "__module__") for e in pth.events) for i, pth in enumerate(rets))
    # (type() takes __module__ from the namespace it is given -- the copied one has it -- or from the calling frame: it is set explicitly, or left in the namespace)
    kept = all(not any(e[0] == "eval" and e[1][0] == "call" and e[1][1][0] == "attr" and e[1][1][2] == "pop" and e[1][2][:1] == (("const", "__module__"),) for e in pth.events) for pth in rets)
    rep.check((mod or kept) and bool(rets), "R19.3", q, f.loc, "__module__ of the original reaches the new class", "__module__ is removed from the copied namespace and not set on the new class: it would be the module that called type() (typelib.py.classes), and pickling by reference breaks", detail="module")
    rep.check(qn, "R19.3", q, f.loc, "__qualname__ is propagated to the new class", "__qualname__ is not propagated: type() resets it, nested classes lose their qualified name (pickle by reference breaks)", detail="qualname")
    # methods that hold the class in a closure cell (zero-argument super(), the __setattr__/__delattr__ dataclass(frozen=True)
    # generates) hold the *old* class: the functions of the copied namespace are re-bound (copies with fresh cells)
    def rebinds(fn, depth=0):
        try:
            fps = P.paths_of(prog, fn)
        except Exception:
            return False
        for pth in fps:
            for tm in pth.all_terms():
                for x in T.walk(tm):
                    if T.is_call_to(x, "types.CellType", "types.FunctionType") or (x[0] == "attr" and x[2] == "cell_contents"):
                        return True
            for ev2 in pth.events:
                if ev2[0] == "setattr" and ev2[2] == "cell_contents":
                    return True
        if depth < 2:
            for cn in E.callees(prog, fn):
                g = prog.functions.get(cn)
                if g is not None and g is not fn and rebinds(g, depth + 1):
                    return True
        return False

    wrap_fn = P.nested_function(prog, f, "wrap") if hasattr(P, "nested_function") else None
    rebound = (wrap_fn is not None and rebinds(wrap_fn)) or rebinds(f)
    rep.check(rebound, "R19.3", q, f.loc, "functions of the copied namespace that hold the class in a closure cell are re-bound to the new class", "the rebuilt class shares its functions with the original, closure cells included: a method using zero-argument super() (user __getstate__/__setstate__ that extend the base's) raises TypeError ('super(type, obj): obj must be an instance or subtype of type') on copy / pickle, and the __setattr__ of a frozen dataclass raises that TypeError instead of FrozenInstanceError (typelib.Codec[int](...) cannot be constructed)", detail="class-cells")
    rebind_rules(prog, rep, wrap_fn or f)
    returned = all(pth.exit[1] == built.get(i) for i, pth in enumerate(rets))
    rep.check(returned, "R19.3", q, f.loc, "the rebuilt class is what wrap() returns", "wrap() does not return the rebuilt class", detail="returns")
    # R19.4
    hook_paths = [pth for pth in rets if any(e[0] == "setitem" and is_cls_dict(e[1]) and e[2] == ("const", "__setstate__") for e in pth.events)]
    ok_hook = bool(hook_paths)
    HOOKS = ("__getstate__", "__setstate__")

    def beval(tm, asg):
        """Three-valued truth of a guard under an assignment of {user defines __getstate__, user defines __setstate__, frozen}."""
        op = tm[0]
        if op == "const":
            return bool(tm[1])
        if op == "not":
            v = beval(tm[1], asg)
            return None if v is None else not v
        if op == "boolop":
            vs = [beval(x, asg) for x in tm[2]]
            if tm[1] == "and":
                return False if any(v is False for v in vs) else (None if any(v is None for v in vs) else True)
            return True if any(v is True for v in vs) else (None if any(v is None for v in vs) else False)
        def hook_namespace(c):
            """The class's own namespace, or the namespace of a class taken from its MRO (vars(base) / base.__dict__)."""
            if is_cls_dict(c) or c == ("attr", CLS, "__dict__"):
                return True
            if c[0] == "elem" and c[1][0] == "comp":
                return hook_namespace(c[1][2])  # an element of `map(vars, cls.__mro__[:-1])`
            inner = c[2][0] if T.is_call_to(c, "builtins.vars") and len(c[2]) == 1 else (c[1] if c[0] == "attr" and c[2] == "__dict__" else None)
            return inner is not None and (inner == CLS or T.contains(inner, lambda y: y == ("attr", CLS, "__mro__") or (y[0] == "call" and y[1][0] == "attr" and y[1][1] == CLS and y[1][2] == "mro")))

        if op == "cmp" and tm[1] in ("in", "notin") and tm[2][0] == "const" and tm[2][1] in HOOKS and hook_namespace(tm[3]):
            v = asg[tm[2][1]]
            return v if tm[1] == "in" else not v
        if op == "attr" and tm[2] == "frozen":
            return asg["frozen"]
        if op == "call" and tm[1][0] == "ref" and tm[1][1] in prog.functions and not tm[3]:
            # the search moved into a private helper of the module (`_declares_state_hooks(cls)`): its own exits, judged the same way
            h = prog.functions[tm[1][1]]
            if h.cls is None and h.module is f.module and h.name.startswith("_") and not h.node.decorator_list and len(tm[2]) == len(h.params) and asg.get("_depth", 0) < 2:
                sigma = dict(zip(h.params, tm[2]))
                asg2 = dict(asg, _depth=asg.get("_depth", 0) + 1)
                verdicts = []
                try:
                    hps = P.paths_of(prog, h)
                except Exception:
                    return None
                for q in hps:
                    if q.exit[0] != "return":
                        continue
                    feas = True
                    for g, pol in q.guards():
                        v = beval(P.substitute(g, sigma), asg2)
                        if v is None:
                            feas = None if feas else feas
                        elif v != pol:
                            feas = False
                            break
                    if feas is False:
                        continue
                    rv = beval(P.substitute(q.exit[1], sigma), asg2)
                    verdicts.append((feas, rv))
                if verdicts and all(fe is True for fe, _ in verdicts) and len({rv for _, rv in verdicts}) == 1:
                    return verdicts[0][1]
                if any(rv is True and fe is True for fe, rv in verdicts):
                    return True
                if verdicts and all(rv is False for _, rv in verdicts):
                    return False
                return None
        if op == "call" and T.refname(tm[1]) in ("builtins.all", "builtins.any") and len(tm[2]) == 1 and tm[2][0][0] == "comp" and not tm[2][0][4]:
            c = tm[2][0]
            # the generator over the hook names is expanded; a second generator over the MRO stays symbolic
            const_gens = [g0 for g0 in c[3] if P.flatten_display(prog, g0[0]) is not None]
            if not const_gens:
                return beval(c[2], asg)  # one symbolic generator (the MRO): "some / every class on it"
            if len(const_gens) != 1:
                return None
            src = const_gens[0][0]
            items = P.flatten_display(prog, src)
            vs = [beval(T.rewrite(c[2], lambda x, it=it: it if x == ("elem", src) else None), asg) for it in items]
            if T.refname(tm[1]) == "builtins.all":
                return False if any(v is False for v in vs) else (None if any(v is None for v in vs) else True)
            return True if any(v is True for v in vs) else (None if any(v is None for v in vs) else False)
        if op == "call" and T.refname(tm[1]) == "builtins.getattr" and len(tm[2]) == 3 and tm[2][1] == ("const", "frozen"):
            return asg["frozen"]
        return None

    for pth in hook_paths:
        for g_ in (False, True):
            for s_ in (False, True):
                for fz in (False, True):
                    asg = {"__getstate__": g_, "__setstate__": s_, "frozen": fz}
                    vals = []
                    for g, pol in pth.guards():
                        v = beval(g, asg)
                        vals.append(None if v is None else (v if pol else not v))
                    installed = False if any(v is False for v in vals) else (None if any(v is None for v in vals) else True)
                    want = (not g_) and (not s_) and fz
                    if (not want and installed is not False) or (want and installed is False):
                        ok_hook = False
    try:
        # the function installed as __setstate__: a closure of slotted() or a module-level function
        installed = [e[3] for pth in hook_paths for e in pth.events if e[0] == "setitem" and is_cls_dict(e[1]) and e[2] == ("const", "__setstate__")]
        target = installed[0] if installed else None
        if target is not None and target[0] == "ref" and target[1] in prog.functions:
            hf = prog.functions[target[1]]
            hps = P.paths_of(prog, hf)
        else:
            name = target[1].rsplit(".", 1)[-1] if target is not None and target[0] == "closure" else "_slots_setstate"
            hf, hps = P.closure_paths(prog, outer, name)
        setters = [c for hp in hps for c in hp.calls() if T.refname(c[1]) in ("builtins.object.__setattr__", "builtins.setattr") or (c[1][0] == "attr" and c[1][2] == "__setattr__")]
        good = bool(setters) and all(T.refname(c[1]) == "builtins.object.__setattr__" and c[2][:1] == (("param", hf.params[0]),) for c in setters)
        rep.check(good, "R19.4", hf.qualname, hf.loc, "the pickle hook restores slots with object.__setattr__ (frozen classes reject every other setter)", "the pickle hook does not restore slots through object.__setattr__(self, …): for a frozen subclass the inherited frozen __setattr__ raises on copy / pickle", detail="hook-setter")
        # each restored attribute is a (name, value) entry of a half of the state: the two arguments of the setter are the key
        # and the value of one and the same `.items()` iteration (over `.values()` the unpacking fails or mis-assigns)
        entry_ok = True
        for c in setters:
            if T.refname(c[1]) != "builtins.object.__setattr__" or len(c[2]) != 3:
                continue
            k_, v_ = c[2][1], c[2][2]
            def _it(x):
                for y in T.walk(x):
                    if y[0] == "call" and y[1][0] == "attr" and y[1][2] in ("items", "values", "keys") and not y[2]:
                        return y[1][2], y[1][1]
                return None, None
            (mk, sk), (mv, sv) = _it(k_), _it(v_)
            if mk is not None or mv is not None:
                if not (mk == "items" and mv == "items" and sk == sv and k_ != v_):
                    entry_ok = False
        if setters:
            rep.check(entry_ok, "R19.4", hf.qualname, hf.loc, "every restored attribute is the (name, value) entry of one `.items()` iteration", "the pickle hook does not take the name and the value it restores from the entries (`.items()`) of the same half of the state: iterating `.values()` / `.keys()` unpacks the stored values themselves -- copy.copy / pickle.loads of a frozen slotted instance raise (or assign the wrong attributes)", detail="hook-state-entries")
        # the default state of an instance with slots is the pair (instance __dict__ or None, {slot: value}): both halves are
        # restored (a slotted class may still carry a __dict__ -- requested with dict=True or inherited from an unslotted base)
        st = ("param", hf.params[1]) if len(hf.params) > 1 else None
        whole = False
        parts = set()
        for hp in hps:
            for c in hp.calls():
                if not (T.refname(c[1]) in ("builtins.object.__setattr__", "builtins.setattr") or (c[1][0] == "attr" and c[1][2] in ("__setattr__", "update"))):
                    continue
                for x in T.walk(c):
                    if x[0] == "elem" and T.contains(x[1], lambda y: y == st) and not T.contains(x[1], lambda y: y[0] in ("unpack", "sub") and y[1] == st):
                        whole = True
                    if x[0] == "unpack" and x[1] == st:
                        parts.add(x[2])
                    if x[0] == "sub" and x[1] == st and x[2][0] == "const":
                        parts.add(x[2][1])
        if st is not None and setters:
            rep.check(whole or {0, 1} <= parts or {0, -1} <= parts, "R19.4", hf.qualname, hf.loc, "the pickle hook restores both halves of the state pair (instance dict and slots)", f"the pickle hook restores only part {sorted(parts)} of the (dict, slots) state pair: a frozen slotted instance that also has a __dict__ (dict=True, or an unslotted base) loses its non-field attributes on copy / deepcopy / pickle", detail="hook-state")
        if st is not None and setters:
            # object.__getstate__ gives the pair only when some slot holds a value; otherwise the state is the bare instance dict
            shape = any(T.is_call_to(g, "builtins.isinstance") and g[2][:1] == (st,) for hp in hps for g, _po in hp.guards()) or any(T.contains(g, lambda y: y in (("attr", st, "__class__"), ("call", ("ref", "builtins.type"), (st,), ()))) for hp in hps for g, _po in hp.guards())
            # ... and the right way round: a pair is iterated as it is, anything else is first made a 1-tuple
            wrapped = ("tuple", (st,))
            for hp in hps:
                tup = [po for g, po in hp.guards() if T.is_call_to(g, "builtins.isinstance") and g[2][:1] == (st,) and T.contains(g[2][1], lambda y: y == ("ref", "builtins.tuple"))]
                loops = [e[1] for e in hp.events if e[0] == "loop" and e[2] == 1 and T.contains(e[1], lambda y: y == st)]
                if tup and loops:
                    is_wrapped = T.contains(loops[0], lambda y: y == wrapped)
                    bare = loops[0] == st or (T.is_call_to(loops[0], "builtins.filter") and loops[0][2][1:2] == (st,))
                    # (a loop over the 1-tuple written in place is unrolled by the evaluator: then the first loop seen is the inner one)
                    if (tup[0] and is_wrapped) or (not tup[0] and bare):
                        shape = False
            # the same as a conditional expression: `state if isinstance(state, tuple) else (state,)`
            for hp in hps:
                for tm in hp.all_terms():
                    for x in T.walk(tm):
                        if x[0] == "ifexp" and T.is_call_to(x[1], "builtins.isinstance") and x[1][2][:1] == (st,) and T.contains(x[1][2][1], lambda y: y == ("ref", "builtins.tuple")):
                            shape = x[2] == st and x[3] == wrapped
                        if x[0] == "ifexp" and x[1][0] == "not" and T.is_call_to(x[1][1], "builtins.isinstance") and x[1][1][2][:1] == (st,) and T.contains(x[1][1][2][1], lambda y: y == ("ref", "builtins.tuple")):
                            shape = x[3] == st and x[2] == wrapped
            rep.check(shape, "R19.4", hf.qualname, hf.loc, "the pickle hook tells the (dict, slots) pair from a bare instance dict", "the pickle hook assumes the state is always the (dict, slots) pair: when no slot holds a value (a frozen dataclass without fields, dict=True) the default state is the instance __dict__ itself, iterating it yields attribute *names* and copy / pickle raise AttributeError: 'str' object has no attribute 'items'", detail="hook-state-shape")
            # ... and where the empty halves are filtered out, the state is what is filtered (filter(function, iterable))
            swapped = [T.show(x)[:50] for hp in hps for tm in hp.all_terms() for x in T.walk(tm) if T.is_call_to(x, "builtins.filter") and len(x[2]) == 2 and T.contains(x[2][0], lambda y: y == st) and not T.contains(x[2][1], lambda y: y == st)]
            rep.check(not swapped, "R19.4", hf.qualname, hf.loc, "the halves of the state are what the hook filters", f"{swapped[:1]} filters with the state as the *function*: TypeError ('NoneType' object is not iterable) on every copy / unpickle of a frozen instance", detail="hook-state-filter")
    except AnalysisError:
        rep.undecided("R19.4", q, f.loc, "pickle hook helper not found", detail="hook-setter")
    # inherited user hooks count as user hooks: the namespace of the class alone does not show them
    own_only = False
    for pth in hook_paths:
        atoms = [x for g, _ in pth.guards() for x in T.walk(g) if x[0] == "cmp" and x[1] in ("in", "notin") and ((x[2][0] == "const" and x[2][1] in HOOKS) or (x[2][0] == "elem" and x[2][1][0] in ("list", "tuple", "set") and bool(x[2][1][1]) and all(y[0] == "const" and y[1] in HOOKS for y in x[2][1][1])))]
        own_atoms = [x for x in atoms if is_cls_dict(x[3]) or x[3] == ("attr", CLS, "__dict__")]
        via_lookup = any(T.contains(g, lambda y: T.is_call_to(y, "builtins.getattr", "builtins.hasattr") and y[2][:1] == (CLS,) and len(y[2]) > 1 and (y[2][1][0] == "elem" or (y[2][1][0] == "const" and y[2][1][1] in HOOKS))) for g, _ in pth.guards())
        if atoms and len(own_atoms) == len(atoms) and not via_lookup:
            own_only = True
    rep.check(bool(hook_paths) and not own_only, "R19.4", q, f.loc, "user pickle hooks are looked for along the MRO", "the 'no user hooks' test reads the class's own namespace only: a frozen class that *inherits* __getstate__/__setstate__ gets the generic __setstate__ planted over the inherited one while the inherited __getstate__ stays in use, and copy / pickle raise", detail="hook-inherited")
    # the search for user hooks covers the class and its bases: of the MRO at most `object` (the last entry) may be left out
    is_mro2 = lambda y: (y[0] == "call" and y[1][0] == "attr" and y[1][1] == CLS and y[1][2] == "mro") or y == ("attr", CLS, "__mro__")  # noqa: E731
    bad_slice = []
    for pth in rets:
        for tm in pth.all_terms():
            for x in T.walk(tm):
                if x[0] == "comp" and T.contains(x, lambda y: y in (("const", "__getstate__"), ("const", "__setstate__"))):
                    for it, _tg in x[3]:
                        for y in T.walk(it):
                            if y[0] == "sub" and is_mro2(y[1]) and y[2][0] == "slice":
                                lo, hi = y[2][1], y[2][2]
                                if lo not in (None, ("const", 0), ("const", None)) or hi not in (None, ("const", -1), ("const", None)):
                                    bad_slice.append(T.show(y)[:40])
    rep.check(not bad_slice, "R19.4", q, f.loc, "user hooks are looked for on the class and all its bases (object at most left out)", f"user-defined __getstate__/__setstate__ are looked for along {sorted(set(bad_slice))[:1]}, which leaves out the class itself or some of its bases: the generated __setstate__ silently replaces the user's", detail="hook-search-range")
    rep.check(ok_hook, "R19.4", q, f.loc, "the pickle hook is installed only for frozen classes without user __getstate__/__setstate__", "the __setstate__ hook is not guarded by frozen ∧ no user-defined __getstate__/__setstate__", detail="hook")
