"""C13 — already-valid values pass through unmarshal unchanged (structural necessary conditions)."""

from __future__ import annotations

from .. import oracle
from .. import paths as P
from .. import terms as T
from ..model import Program
from ..report import Report
from . import c01, c18
from . import common as C

EXPLANATION = (
    "R13.1 for each unmarshal table row whose routine short-circuits with isinstance(X, self.t): if the row's family has a text-like member (oracle "
    "witness from the catalogue, e.g. enum.StrEnum ⊂ str for the Enum row) the tested X must not be the result of serdes.load — the lossy text decoder "
    "would turn the member's text into another object before the identity check. R13.2 serdes.load returns its argument itself on every path not "
    "dominated by istexttype(val.__class__). R13.3 content peeking is guarded for classes with a definite iteration strategy (shared with R18.3). "
    "Deliberately not required: that the *same object* comes back — an equal reconstruction satisfies the property."
)
ASSUMPTIONS = [
    "equality for adversarial strings and idempotence are value-level (ND)",
    "a family's text-like members are searched in the stdlib catalogue of tlverif/oracle.py",
]
TRUSTED = oracle.TRUSTED
VAL = ("param", "val")
LOAD = ("call", ("ref", f"{C.SERDES}.load"), (VAL,), ())


def r13_1(prog: Program, rep: Report):
    rows = C.handlers(prog, "unmarshal")
    pe = C.PredEval(prog)
    _, acc = c01.acceptance(prog, pe, rows)
    taken = set()
    n = 0
    for r in rows:
        routed = acc[r.index] - taken
        taken |= acc[r.index]
        if r.routine is None or r.pred_name in c01.SPECIAL:
            continue
        f = C.call_of(prog, r.routine)
        if f is None:
            continue
        texty = sorted(a.label() for a in routed if not a.subscripted and not a.flags and any(_sub(a.cls, t) for t in ("builtins.str", "builtins.bytes")) and a.cls not in ("builtins.str", "builtins.bytes", "builtins.bytearray", "builtins.memoryview"))
        if not texty:
            continue
        ps = P.paths_of(prog, f)
        # the subject of the earliest identity short-circuit
        early = None
        for p in ps:
            gs = p.guards()
            if gs and gs[0][1] and T.is_call_to(gs[0][0], "builtins.isinstance") and gs[0][0][2][1] in (C.sattr("t"), C.sattr("origin")) and p.exit[0] == "return" and p.exit[1] == gs[0][0][2][0]:
                early = gs[0][0][2][0]
        n += 1
        key = f"{r.pred_name}->{r.routine.name}"
        if early is None:
            # no short circuit at all: the value is reconstructed; the reconstruction must not go through load either
            lossy = any(T.contains(p.exit[1], lambda s: s == LOAD) for p in ps if p.exit[0] == "return")
            rep.check(not lossy, "R13.1", key, f.loc, f"members of {texty} are reconstructed without the text decoder", f"a text-like member ({texty}) is passed through serdes.load before reconstruction", detail="identity-first")
        else:
            rep.check(
                early != LOAD and not T.contains(early, lambda s: T.is_call_to(s, f"{C.SERDES}.load", f"{C.SERDES}.strload")), "R13.1", key, f.loc,
                f"identity check for {texty} runs on the input before any text decoding",
                f"the family has text-like members ({texty}) but the identity check runs on serdes.load(val): a member whose text parses as JSON/literal (value '1') is replaced before the check and then rejected",
                detail="identity-first",
            )  # fmt: skip
            # an Enum family is open to mixins: `class Frame(bytes, Enum)` has members that are bytes, and serdes.decode turns
            # them into text -- the identity test sees the member itself, not what decoding makes of it
            open_family = any(_sub(a.cls, "enum.Enum") for a in routed)
            if open_family:
                rep.check(
                    not T.contains(early, lambda s: T.is_call_to(s, f"{C.SERDES}.decode")), "R13.1", key, f.loc,
                    "the identity check of an enum family runs on the input itself, not on its decoded text",
                    "the identity check runs on serdes.decode(val): a member of a bytes-mixin enum (class Frame(bytes, Enum)) is decoded to plain text first, is then no instance of the enum, and unmarshal(Frame, Frame.START) raises instead of returning the member",
                    detail="identity-before-decode",
                )  # fmt: skip
    return n


def _sub(a, b):
    try:
        return oracle.issub(a, b)
    except Exception:
        return False


def r13_1_literal(prog: Program, rep: Report):
    """Literal members may themselves be text ("1", "null"): the raw input is tested for membership before the
    JSON/literal loader gets a chance to turn it into another member."""
    rows = C.handlers(prog, "unmarshal")
    lit = [r for r in rows if r.pred_name == "isliteral" and r.routine]
    if not lit:
        return
    c = lit[0].routine
    f = C.call_of(prog, c)
    ok = True
    seen = False
    for p, ret in P.returns(P.paths_of(prog, f)):
        if T.contains(ret, lambda s: T.is_call_to(s, f"{C.SERDES}.load", f"{C.SERDES}.strload")):
            seen = True
            raw_first = any((not pol) and g[0] == "cmp" and g[1] == "in" and g[2] in (VAL, ("call", ("ref", f"{C.SERDES}.decode"), (VAL,), ())) for g, pol in p.guards())
            if not raw_first:
                ok = False
    rep.check(ok, "R13.1", f"isliteral->{c.name}", f.loc, "a loaded value is returned only after the raw input failed the membership test" if seen else "no loaded value is ever returned", "the loaded value is tested (and returned) before the raw input: for Literal['1', 1] the valid member '1' comes back as 1", detail="raw-first")


def r13_2(prog: Program, rep: Report):
    f = prog.function(f"{C.SERDES}.load")
    val = ("param", f.params[0])
    ok = True
    shapes = []
    for p, r in P.returns(P.paths_of(prog, f)):
        guarded = [pol for g, pol in p.guards() if T.is_call_to(g, f"{C.INSP}.istexttype") and g[2] == (("attr", val, "__class__"),)]
        if r == val:
            shapes.append("identity")
            continue
        if r[0] == "ifexp" and T.is_call_to(r[1], f"{C.INSP}.istexttype") and r[1][2] == (("attr", val, "__class__"),) and r[3] == val:
            shapes.append("ifexp")
            continue
        if guarded == [True]:
            shapes.append("guarded")
            continue
        ok = False
    rep.check(ok and bool(shapes), "R13.2", f.qualname, f.loc, "load returns its argument itself unless istexttype(val.__class__)", "load can alter a non-text value (a path not dominated by istexttype(val.__class__) does not return val itself)")


def r13_4(prog: Program, rep: Report):
    """The None routine accepts the None object only — never text that the loader reads as null."""
    rows = C.handlers(prog, "unmarshal")
    nr = [r for r in rows if r.pred_name == "isnonetype" and r.routine]
    if not nr:
        rep.violated("R13.4", "typelib.unmarshals.api._HANDLERS", rows[0].loc, "no None row")
        return
    c = nr[0].routine
    f = C.call_of(prog, c)
    ok = True
    found = False
    for p in P.paths_of(prog, f):
        for g, pol in p.guards():
            if g[0] == "cmp" and g[1] in ("is", "isnot", "==", "!=") and g[3] == ("const", None):
                found = True
                if T.contains(g[2], lambda s: T.is_call_to(s, f"{C.SERDES}.load", f"{C.SERDES}.strload")):
                    ok = False
    rep.check(found and ok, "R13.4", c.qualname, f.loc, "None is recognised on the (decoded) input itself", "the None routine runs the JSON/literal loader first: the valid strings 'null' and 'None' of an Optional[str] (whose None member is tried first) come back as None", detail="subject")


def r13_5(prog: Program, rep: Report):
    """A duration that is already valid is not pushed through a float: the timedelta routine either returns the value
    itself under an exact-class / isinstance guard, or rebuilds it field-wise — never only via total_seconds()."""
    rows = C.handlers(prog, "unmarshal")
    pe = C.PredEval(prog)
    k, r = C.route(prog, pe, rows, C.TypeArg("datetime.timedelta"))
    if k != "row" or r.routine is None:
        rep.undecided("R13.5", "typelib.unmarshals.api._HANDLERS", rows[0].loc, "timedelta is not routed")
        return
    f = C.call_of(prog, r.routine)
    identity = False
    via_float = False
    from . import c03

    for p, ret in P.returns(P.paths_of(prog, f)):
        if c03.target_guard(p.guards(), ret) and not c03.constructed(ret):
            identity = True
        if c03.constructed(ret) and T.contains(ret, lambda s: s[0] == "call" and s[1][0] == "attr" and s[1][2] == "total_seconds"):
            via_float = True
    rep.check(identity or not via_float, "R13.5", r.routine.qualname, f.loc, "a value of the exact class is returned as is (only other classes are rebuilt from total_seconds())", "every duration, even one that is already valid, is rebuilt from the float total_seconds(): large durations with a sub-second part lose microseconds (the float has 53 bits)", detail="no-float-roundtrip")


FAMILY_OF_PRED = {"ispatterntype": "re.Pattern", "isfractiontype": "fractions.Fraction", "istimedeltatype": "datetime.timedelta", "isuuidtype": "uuid.UUID"}


def r13_7(prog, rep):
    """A routine that rebuilds its result from attributes of the (decoded) input must read a set of attributes that
    determines the value: `re.compile(x.pattern)` of a compiled pattern forgets its flags."""
    rows = C.handlers(prog, "unmarshal")

    def derives(x):
        return x == VAL or (x[0] == "call" and T.refname(x[1]) in (f"{C.SERDES}.decode", f"{C.SERDES}.load", f"{C.SERDES}.strload") and bool(x[2]) and derives(x[2][0]))

    n = 0
    for r in rows:
        fam = FAMILY_OF_PRED.get(r.pred_name)
        if fam is None or r.routine is None:
            continue
        f = C.call_of(prog, r.routine)
        if f is None:
            continue
        n += 1
        bad = None
        for p, ret in P.returns(P.paths_of(prog, f)):
            read = set()
            for s in T.walk(ret):
                if s[0] == "attr" and derives(s[1]) and not s[2].startswith("__"):
                    read.add(s[2])
                if T.is_call_to(s, "builtins.getattr") and len(s[2]) >= 2 and derives(s[2][0]) and s[2][1][0] == "const":
                    read.add(s[2][1][1])
            # method calls on the input (total_seconds(), as_integer_ratio()) are not attribute projections
            read -= {s[1][2] for s in T.walk(ret) if s[0] == "call" and s[1][0] == "attr" and derives(s[1][1])}
            if read and not any(need <= read for need in oracle.STATE_FIELDS[fam]):
                bad = sorted(read)
        rep.check(bad is None, "R13.7", f"{r.pred_name}->{r.routine.name}", f.loc, f"no result is rebuilt from a partial set of the input's attributes (a {fam} is determined by {' or '.join(str(sorted(x)) for x in oracle.STATE_FIELDS[fam])})", f"the result is rebuilt from the input's attribute(s) {bad} alone, which do not determine a {fam}: an already-valid instance comes back altered (a compiled pattern loses its flags)", detail="whole-state")
    return n


def r13_6(prog, rep):
    """Classes whose fields come from the constructor signature are rebuilt from those fields: a named parameter that
    yields no hint is neither read from an instance nor passed back, so an already-valid instance comes back with the
    parameter's default."""
    from . import c10

    hs = prog.function(f"{C.INSP}._hints_from_signature")
    bad = []
    iters = 0
    for p in P.paths_of(prog, hs):
        it = None
        stored = False
        for e in p.events:
            if e[0] == "loop" and e[2] == 1:
                it = e[1]
                stored = False
            elif it is not None and e[0] == "setitem" and e[1][0] in ("dict", "comp") or (it is not None and e[0] == "setitem" and e[4] is not None):
                stored = True
            elif e[0] == "loopend" and it is not None:
                iters += 1
                if not stored:
                    feasible = []
                    for kind in ("PO", "PK", "KO"):
                        ok = True
                        for g, pol in p.guards():
                            v = c10._under_kind(g, kind)
                            if v[0] == "const" and bool(v[1]) != pol:
                                ok = False
                        if ok:
                            feasible.append(kind)
                    if feasible:
                        bad.append(feasible)
                it = None
    if iters == 0:
        comp = any(T.contains(r, lambda s: s[0] == "comp" and s[1] == "dict") for _, r in P.returns(P.paths_of(prog, hs)))
        if not comp:
            rep.undecided("R13.6", hs.qualname, hs.loc, "the per-parameter loop of _hints_from_signature was not found")
            return
    rep.check(not bad, "R13.6", hs.qualname, hs.loc, "every named parameter of the signature yields a hint", f"a parameter of kind {bad[0] if bad else ''} can be skipped without a hint: a class whose fields come from its constructor is rebuilt without that member (the default replaces the real value)", detail="every-parameter")


def run(prog: Program, rep: Report, tier: str):
    rep.rule("R13.10", "a compiled pattern passes through for re.Pattern[str] as for re.Pattern (shared with R17.11)", floor=4)
    C.param_spelling_agreement(prog, rep, "R13.10")
    rep.rule("R13.11", "an instance of a class without annotations is read by what it answers to (shared with R18.13)", floor=1)
    from . import c18 as _c18

    _c18.fields_the_instance_answers_to(prog, rep, "R13.11")
    rep.rule("R13.6", "signature-derived fields cover every named constructor parameter", floor=1)
    r13_6(prog, rep)
    rep.rule("R13.7", "results are never rebuilt from a partial projection of an already-valid input", floor=4)
    r13_7(prog, rep)
    rep.rule("R13.5", "already-valid durations are not routed through a float", floor=1)
    rep.rule("R13.4", "the None member accepts the None object only, not text that parses as null", floor=1)
    rep.rule("R13.1", "identity check precedes any lossy text decode for families with text-like members", floor=1)
    rep.rule("R13.2", "serdes.load is the identity off text", floor=1)
    rep.rule("R13.3", "content peek guarded for classes with a definite strategy (shared with R18.3)", floor=1)
    r13_1(prog, rep)
    r13_1_literal(prog, rep)
    r13_2(prog, rep)
    c18.r18_3(prog, rep, rule="R13.3")
    r13_4(prog, rep)
    r13_5(prog, rep)
    # Optional[X] in either spelling: None is already valid and must be honoured before str/bytes/bool members (shared with R08.6)
    from ..report import Report as _R, absorb
    from . import c08

    rep.rule("R13.8", "an optional annotation is recognised in both spellings and wherever None sits (shared with R08.6)", floor=2)
    sub = _R("C13", tier)
    sub.rule("R08.6", "", 0)
    c08.r08_6(prog, sub)
    absorb(rep, sub, {"R08.6": "R13.8"})
    # a valid TypedDict value that omits a NotRequired key is already valid: the required-keys test must not reject it (shared with R03.7)
    from . import c03

    rep.rule("R13.9", "the required-keys test of TypedDict targets reads the evaluated hints (shared with R03.7)", floor=1)
    sub = _R("C13", tier)
    sub.rule("R03.7", "", 0)
    c03.r03_7(prog, sub)
    absorb(rep, sub, {"R03.7": "R13.9"})
