"""R<nn>.0 -- every name read in the property's anchor files is bound somewhere (a precondition of every other rule).

A function whose only binding of a local was removed reads a name that nothing binds: the path raises NameError whatever the
property says about it.  Decided per scope with the interpreter's own `symtable` (no code is run): a name that a function
scope refers to as an implicit global must be bound at module level or be a builtin; a free variable must be bound in an
enclosing function scope.  Names bound only under `if TYPE_CHECKING:` count as bound (annotations are strings in this package)."""

from __future__ import annotations

import builtins
import json
import pathlib
import symtable

from ..model import Program, repo_root
from ..report import Report

_PROPS = None


def anchor_files(prop: str) -> list[str]:
    global _PROPS
    if _PROPS is None:
        _PROPS = {}
        src = pathlib.Path(__file__).resolve().parents[2] / "properties.jsonl"
        for line in src.read_text().splitlines():
            if line.strip():
                d = json.loads(line)
                _PROPS[d["id"]] = [f for f in (d.get("anchors") or {}).get("files", []) if f.endswith(".py")]
    return _PROPS.get(prop, [])


def undefined_names(path: pathlib.Path) -> list[tuple[str, str, int]]:
    src = path.read_text()
    top = symtable.symtable(src, str(path), "exec")
    module_names = {s.get_name() for s in top.get_symbols() if s.is_assigned() or s.is_imported() or s.is_namespace() or s.is_parameter()}
    # names bound by `global x` assignments inside functions
    out = []

    def walk(tab, enclosing_funcs):
        for ch in tab.get_children():
            scope_bound = {s.get_name() for s in ch.get_symbols() if s.is_assigned() or s.is_imported() or s.is_parameter() or s.is_namespace()}
            for s in ch.get_symbols():
                if not s.is_referenced():
                    continue
                n = s.get_name()
                if s.is_global() and not s.is_declared_global():
                    if n not in module_names and not hasattr(builtins, n) and n not in ("__class__", "__file__", "__name__", "__doc__", "__builtins__", "__spec__", "__package__", "__loader__", "__path__", "__qualname__", "__module__", "__annotations__"):
                        if ch.get_type() == "class" and n in scope_bound:
                            continue
                        out.append((ch.get_name(), n, ch.get_lineno()))
            walk(ch, enclosing_funcs + [scope_bound])

    walk(top, [])
    return out


def run(prog: Program, rep: Report, prop: str):
    rule = f"R{prop[1:]}.0"
    files = anchor_files(prop)
    rep.rule(rule, "every name read in the anchor files is bound somewhere (no path ends in NameError by construction)", floor=1)
    root = repo_root()
    n = 0
    for rel in files:
        p = root / rel
        if not p.exists():
            rep.undecided(rule, rel, rel, "anchor file not found", detail="present")
            continue
        n += 1
        try:
            bad = undefined_names(p)
        except SyntaxError as e:
            rep.undecided(rule, rel, rel, f"does not parse: {e}", detail="parses")
            continue
        rep.check(not bad, rule, rel, rel, "no scope reads a name that nothing binds", f"a name is read that no scope binds ({[(f, nm, ln) for f, nm, ln in bad][:3]}): the only assignment of a local was removed or a helper was renamed -- every call that reaches the statement raises NameError", detail="names-bound")
    return n
