"""R<nn>.0 -- every name read in the property's anchor files is bound somewhere, and every call of a package function or
class can bind its arguments to the callee's parameters (preconditions of every other rule).

A function whose only binding of a local was removed reads a name that nothing binds: the path raises NameError whatever the
property says about it.  Decided per scope with the interpreter's own `symtable` (no code is run): a name that a function
scope refers to as an implicit global must be bound at module level or be a builtin; a free variable must be bound in an
enclosing function scope.  Names bound only under `if TYPE_CHECKING:` count as bound (annotations are strings in this package)."""

from __future__ import annotations

import builtins
import json
import pathlib
import symtable

from ..model import Program, repo_root
from ..report import Report

_PROPS = None


def anchor_files(prop: str) -> list[str]:
    global _PROPS
    if _PROPS is None:
        _PROPS = {}
        src = pathlib.Path(__file__).resolve().parents[2] / "properties.jsonl"
        for line in src.read_text().splitlines():
            if line.strip():
                d = json.loads(line)
                _PROPS[d["id"]] = [f for f in (d.get("anchors") or {}).get("files", []) if f.endswith(".py")]
    return _PROPS.get(prop, [])


def undefined_names(path: pathlib.Path) -> list[tuple[str, str, int]]:
    src = path.read_text()
    top = symtable.symtable(src, str(path), "exec")
    module_names = {s.get_name() for s in top.get_symbols() if s.is_assigned() or s.is_imported() or s.is_namespace() or s.is_parameter()}
    # names bound by `global x` assignments inside functions
    out = []

    def walk(tab, enclosing_funcs):
        for ch in tab.get_children():
            scope_bound = {s.get_name() for s in ch.get_symbols() if s.is_assigned() or s.is_imported() or s.is_parameter() or s.is_namespace()}
            for s in ch.get_symbols():
                if not s.is_referenced():
                    continue
                n = s.get_name()
                if s.is_global() and not s.is_declared_global():
                    if n not in module_names and not hasattr(builtins, n) and n not in ("__class__", "__file__", "__name__", "__doc__", "__builtins__", "__spec__", "__package__", "__loader__", "__path__", "__qualname__", "__module__", "__annotations__"):
                        if ch.get_type() == "class" and n in scope_bound:
                            continue
                        out.append((ch.get_name(), n, ch.get_lineno()))
            walk(ch, enclosing_funcs + [scope_bound])

    walk(top, [])
    return out


def _sig_of(prog: Program, target):
    """(positional names, keyword-only names, required names, has *args, has **kwargs) of a package function, or of the
    constructor of a package class (its own or inherited __init__; the generated one of a dataclass).  None: not known."""
    import ast

    def from_args(a: ast.arguments, skip_first: bool):
        pos = [x.arg for x in a.posonlyargs + a.args]
        posonly = {x.arg for x in a.posonlyargs}
        ndef = len(a.defaults)
        req = set(pos[: len(pos) - ndef] if ndef else pos)
        if skip_first and pos:
            req.discard(pos[0])
            pos = pos[1:]
        kwo = [x.arg for x in a.kwonlyargs]
        req |= {x.arg for x, d in zip(a.kwonlyargs, a.kw_defaults) if d is None}
        return pos, kwo, req, a.vararg is not None, a.kwarg is not None, posonly

    if hasattr(target, "methods"):  # a class
        cls = target
        init = prog.lookup_method(cls, "__init__")
        new = prog.lookup_method(cls, "__new__")
        if new is not None:
            return None
        if init is not None:
            if any(d for d in init.node.decorator_list):
                return None
            return from_args(init.node.args, True)
        decos = [d for d in cls.decorators if d]
        if any(d.endswith("dataclasses.dataclass") for d in decos) and not cls.bases:
            pos, req = [], set()
            for st in cls.node.body:
                if isinstance(st, ast.AnnAssign) and isinstance(st.target, ast.Name) and "ClassVar" not in ast.unparse(st.annotation):
                    pos.append(st.target.id)
                    if st.value is None:
                        req.add(st.target.id)
                    elif isinstance(st.value, ast.Call) and ast.unparse(st.value.func).endswith("field") and not any(k.arg in ("default", "default_factory") for k in st.value.keywords):
                        req.add(st.target.id)
            return pos, [], req, False, False, set()
        return None
    f = target
    if f.node.decorator_list and not all((d or "").startswith("functools.") or (d or "").startswith("typelib.py.compat.") for d in f.decorators):
        return None
    return from_args(f.node.args, f.cls is not None and not any((d or "").endswith("staticmethod") for d in f.decorators))


def malformed_calls(prog: Program, mod) -> tuple[int, list[str]]:
    """Calls of package functions / classes (by resolved name) whose arguments cannot bind to the callee's parameters."""
    import ast

    n, bad = 0, []
    for node in ast.walk(mod.tree):
        if not isinstance(node, ast.Call):
            continue
        name = prog.resolve_expr_name(mod, node.func)
        if name and name.startswith("builtins.") and "." not in name[9:]:
            # a builtin function whose signature the interpreter publishes (a fact about Python, nothing of the package runs)
            import builtins as _b
            import inspect as _i

            fn = getattr(_b, name[9:], None)
            if fn is None or isinstance(fn, type) or any(isinstance(a, ast.Starred) for a in node.args) or any(k.arg is None for k in node.keywords):
                continue
            try:
                sg = _i.signature(fn)
            except (TypeError, ValueError):
                continue
            ps_ = list(sg.parameters.values())
            if any(p_.kind in (p_.VAR_POSITIONAL, p_.VAR_KEYWORD) for p_ in ps_):
                continue
            n += 1
            npos = [p_ for p_ in ps_ if p_.kind in (p_.POSITIONAL_ONLY, p_.POSITIONAL_OR_KEYWORD)]
            nreq = [p_ for p_ in npos if p_.default is p_.empty]
            kwok = {p_.name for p_ in ps_ if p_.kind in (p_.POSITIONAL_OR_KEYWORD, p_.KEYWORD_ONLY)}
            if len(node.args) > len(npos) or len(node.args) + len(node.keywords) < len(nreq) or any(k.arg not in kwok for k in node.keywords):
                bad.append(f"{mod.relpath}:{node.lineno} {name[9:]}(...): {len(node.args)} positional / {len(node.keywords)} keyword arguments do not fit {sg}")
            continue
        if not name or not name.startswith("typelib."):
            continue
        target = prog.functions.get(name)
        if target is None:
            hit = prog.class_of(name)
            target = hit[0] if hit else None
        if target is None:
            continue
        if hasattr(target, "cls") and target.cls is not None:
            continue  # Class.method(x): an unbound call, the receiver shifts the positions
        sig = _sig_of(prog, target)
        if sig is None:
            continue
        pos, kwo, req, va, vk, posonly = sig
        if any(isinstance(a, ast.Starred) for a in node.args) or any(k.arg is None for k in node.keywords):
            continue
        n += 1
        given = set(pos[: len(node.args)]) | {k.arg for k in node.keywords}
        what = None
        if len(node.args) > len(pos) and not va:
            what = f"{len(node.args)} positional arguments for {len(pos)} parameters"
        unknown = [k.arg for k in node.keywords if k.arg not in pos and k.arg not in kwo or k.arg in posonly]
        if unknown and not vk:
            what = f"unknown keyword {unknown[0]!r}"
        missing = sorted(req - given)
        if missing:
            what = f"required parameter {missing[0]!r} not supplied"
        if what:
            bad.append(f"{mod.relpath}:{node.lineno} {name.rsplit('.', 1)[-1]}(...): {what}")
    return n, bad


def run(prog: Program, rep: Report, prop: str):
    rule = f"R{prop[1:]}.0"
    files = anchor_files(prop)
    rep.rule(rule, "every name read in the anchor files is bound somewhere (no path ends in NameError by construction)", floor=1)
    root = repo_root()
    n = 0
    for rel in files:
        p = root / rel
        if not p.exists():
            rep.undecided(rule, rel, rel, "anchor file not found", detail="present")
            continue
        n += 1
        try:
            bad = undefined_names(p)
        except SyntaxError as e:
            rep.undecided(rule, rel, rel, f"does not parse: {e}", detail="parses")
            continue
        mod = next((m for m in prog.modules.values() if m.relpath == rel), None)
        if mod is not None:
            ncalls, badcalls = malformed_calls(prog, mod)
            rep.check(not badcalls, rule, rel, rel, f"{ncalls} calls of package functions and classes bind to their parameters", f"a call cannot bind to its callee's parameters ({badcalls[:2]}): every path that reaches it raises TypeError (the suite takes none of them)", detail="calls-bind")
        rep.check(not bad, rule, rel, rel, "no scope reads a name that nothing binds", f"a name is read that no scope binds ({[(f, nm, ln) for f, nm, ln in bad][:3]}): the only assignment of a local was removed or a helper was renamed -- every call that reaches the statement raises NameError", detail="names-bound")
    return n
