"""C15 — every valid annotation yields working routines (structural necessary conditions)."""

from __future__ import annotations

from .. import oracle
from .. import paths as P
from .. import terms as T
from ..model import Program
from ..report import Report
from . import c05, c09
from . import common as C
from . import composites as K

EXPLANATION = (
    "R15.1 producer/consumer agreement on the graph's skip set: get_type_graph creates no node for children in its skip set (extracted from its source), so "
    "every annotation in that set that is legal as a type argument must either be seeded in the routine context by both factories with a pass-through routine, "
    "or every context lookup keyed by a type argument in a routine constructor must be the tolerant form (get + no-op fallback). R15.2 totality of dispatch: both "
    "tables route unresolvable annotations and None to pass-through/None routines, _get_unmarshaller ends in an unconditional fallback, and args() normalises "
    "every TypeVar (bound / constraints / Any). R15.3 the factories return a pass-through routine when the graph is empty and structured routines fall back to a "
    "warned no-op for fields whose type has no routine."
)
ASSUMPTIONS = [
    "absence of errors for every annotation of the grammar is not decided: hashability of annotations such as Callable[[int], str], Ellipsis revisits and bare TypeVar roots are value-level (ND)",
    "repeatability after cache clearing is a history statement (ND)",
    "constants.empty is a sentinel, not a legal type argument",
]
TRUSTED = oracle.TRUSTED
SENTINELS = {"typelib.constants.empty", "inspect.Parameter.empty"}


def run(prog: Program, rep: Report, tier: str):
    rep.rule("R15.1", "graph skip set vs routine-context lookups (seeded pass-through or tolerant lookups)", floor=3)
    rep.rule("R15.2", "dispatch totality: unresolvable -> no-op, unconditional fallback, TypeVar normalisation", floor=7)
    rep.rule("R15.3", "empty graph -> pass-through routine; structured fallback to a warned no-op", floor=4)
    # skip set from the producer
    sub = Report("C15", tier)
    sub.rule("R09.1", "", 0)
    sub.rule("R09.2", "", 0)
    skipset = c09.r09_1_2(prog, sub) or []
    legal = [s for s in skipset if s not in SENTINELS]
    g = prog.function("typelib.graph.get_type_graph")
    rep.check(bool(skipset), "R15.1", g.qualname, g.loc, f"graph skip set extracted: {skipset}", "graph skip set could not be extracted", detail="skip-set")
    # consumers
    strict_sites = []
    for d in ("marshal", "unmarshal"):
        for c in C.routine_classes(prog, d):
            for attr, slot in K.slots_of(prog, c).items():
                forms = {a.lookup for a in slot.alts}
                if "strict" in forms or "mixed" in forms:
                    strict_sites.append((c, attr))
    for d in ("marshal", "unmarshal"):
        ff = c05.factory_facts(prog, d)
        seeds = ff.get("seeds", set())
        missing = [s for s in legal if s not in seeds]
        n_strict = len([1 for c, a in strict_sites if c.qualname.startswith(C.DIRS[d][1])])
        rep.check(
            not missing or n_strict == 0, "R15.1", ff["qual"], ff["loc"],
            f"{d}: skip-set members {legal} are seeded with a pass-through routine ({n_strict} strict context[arg] lookups rely on it)",
            f"{d}: the graph emits no node for {missing}, the context is not seeded for it, and {n_strict} routine constructors look type arguments up with the raising form context[arg] (e.g. {[f'{c.name}.{a}' for c, a in strict_sites][:4]}): list[Any] / dict[str, Any] / Union[int, Any] raise KeyError at construction",
            {"strict_sites": [f"{c.qualname}.{a}" for c, a in strict_sites]}, detail=f"{d}-seeded",
        )  # fmt: skip
    # R15.2
    for d in ("marshal", "unmarshal"):
        rows = C.handlers(prog, d)
        api = C.DIRS[d][0]
        by = {r.pred_name: r for r in rows}
        for pred, wantnoop in (("isunresolvable", True), ("isnonetype", False)):
            r = by.get(pred)
            ok = r is not None and r.routine is not None
            if ok and wantnoop:
                f = C.call_of(prog, r.routine)
                ok = f is not None and all(pth.exit[0] == "return" and pth.exit[1] == ("param", "val") for pth in P.paths_of(prog, f))
            rep.check(ok, "R15.2", f"{api}._HANDLERS", rows[0].loc, f"{pred} is routed to a {'pass-through' if wantnoop else 'dedicated'} routine", f"{pred} is not routed to a {'pass-through' if wantnoop else 'dedicated'} routine: unresolvable positions fail instead of passing through", detail=pred)
        f = C.dispatcher(prog, d)
        ps = P.paths_of(prog, f)
        total = all(p.exit[0] == "return" for p in ps)
        fb = C.fallback_routine(prog, d)
        rep.check(total and fb is not None, "R15.2", f.qualname, f.loc, "dispatch is total: every path returns a routine, ending in an unconditional fallback", "dispatch is not total: a path falls off or raises", detail="total")
    nt = prog.function(f"{C.INSP}.normalize_typevar")
    rets = [r for _, r in P.returns(P.paths_of(prog, nt))]
    tv = ("param", nt.params[0])
    has_bound = ("attr", tv, "__bound__") in rets
    has_any = ("ref", "typing.Any") in rets
    has_constraints = any(T.contains(r, lambda s: s == ("attr", tv, "__constraints__")) for r in rets)
    rep.check(has_bound and has_any and has_constraints, "R15.2", nt.qualname, nt.loc, "TypeVars normalise to their bound, the union of their constraints, or Any", "normalize_typevar does not cover bound / constraints / Any", detail="typevar")
    af = prog.function(f"{C.INSP}.args")
    norm = any(T.contains(r, lambda s: T.is_call_to(s, f"{C.INSP}._normalize_typevars")) for _, r in P.returns(P.paths_of(prog, af)))
    rep.check(norm, "R15.2", af.qualname, af.loc, "args() normalises TypeVars on every path", "args() returns raw TypeVars", detail="args-normalise")
    # unannotated constructor parameters are hinted Any (=> pass-through), whatever their default
    hs = prog.function(f"{C.INSP}._hints_from_signature")
    ok = True
    seen = False
    for p in P.paths_of(prog, hs):
        empty = any(pol and g[0] == "cmp" and g[1] in ("is", "==") and T.contains(g[3], lambda s: s[0] == "attr" and s[2] == "empty" or T.refname(s) == "inspect.Parameter.empty") and T.contains(g[2], lambda s: s[0] == "attr" and s[2] == "annotation") for g, pol in p.guards())
        if not empty:
            continue
        for e in p.events:
            if e[0] == "setitem" and e[1][0] == "dict":
                seen = True
                if e[3] != ("ref", "typing.Any"):
                    ok = False
    rep.check(ok and seen, "R15.2", hs.qualname, hs.loc, "a parameter without annotation is hinted typing.Any (pass-through)", "a parameter without annotation is hinted something other than typing.Any (e.g. the class of its default): values of another class are converted or rejected instead of passing through", detail="unannotated-any")
    # the producer/consumer pair of the graph: get_type_graph hands out a fresh sorter per call (shared with R12.2)
    from ..report import Report as _R, absorb
    from . import c12

    sub = _R("C15", tier)
    sub.rule("R12.2", "", 0)
    c12.r12_2b(prog, sub)
    for o in list(sub.obligations):
        if "typelib.graph." not in o.key and "typelib.marshals.api" not in o.key and "typelib.unmarshals.api" not in o.key and "typelib.codecs" not in o.key:
            sub.obligations.remove(o)
    absorb(rep, sub, {"R12.2": "R15.3"})
    # R15.3
    for d in ("marshal", "unmarshal"):
        ff = c05.factory_facts(prog, d)
        rep.check(ff["noop_on_empty"], "R15.3", ff["qual"], ff["loc"], "an empty graph yields a pass-through routine", "an empty node list is not answered with a pass-through routine", detail="empty-graph")
        fb = C.fallback_routine(prog, d)
        if fb is not None:
            sl = [s for s in K.slots_of(prog, fb).values() if s.kind == "dict"]
            ok = bool(sl) and sl[0].lookup == "tolerant" and sl[0].fallback_noop
            rep.check(ok, "R15.3", fb.qualname, fb.loc, "field routines are looked up tolerantly and default to a no-op", "a structured routine looks field types up with the raising form or has no no-op fallback", detail="struct-fallback")
