"""C15 — every valid annotation yields working routines (structural necessary conditions)."""

from __future__ import annotations

from .. import oracle
from .. import paths as P
from .. import terms as T
from ..model import AnalysisError, Program
from ..report import Report
from . import c05, c09
from . import common as C
from . import composites as K

EXPLANATION = (
    "R15.4 both dispatch tables are walked row by row on descriptors of the special forms the grammar adds (a TypeVar, type[int], Callable[[int], str], "
    "Callable[..., int], bare Callable, Any, object, Ellipsis, tuple[()]): each predicate is evaluated abstractly from its source (PredEval, origin() interpreted), "
    "and none may raise before a row or the fallback takes the form. R15.5 a routine constructor that unpacks k type arguments is reachable only for forms with at "
    "least (exactly) k. R15.6 an annotation whose type arguments are not annotations (the parameter list of a parameterised Callable) satisfies the leaf guard of "
    "the graph walk, and on forwardref()'s non-string branch the reference object is never passed to a helper that applies str methods to it. "
    "R15.1 producer/consumer agreement on the graph's skip set: get_type_graph creates no node for children in its skip set (extracted from its source), so "
    "every annotation in that set that is legal as a type argument must either be seeded in the routine context by both factories with a pass-through routine, "
    "or every context lookup keyed by a type argument in a routine constructor must be the tolerant form (get + no-op fallback). R15.2 totality of dispatch: both "
    "tables route unresolvable annotations and None to pass-through/None routines, the dispatcher ends in an unconditional fallback, and args() normalises "
    "every TypeVar (bound / constraints / Any). R15.3 the factories return a pass-through routine when the graph is empty and structured routines fall back to a "
    "warned no-op for fields whose type has no routine."
)
ASSUMPTIONS = [
    "absence of errors for *every* annotation of the grammar to depth 3 is not decided; the special forms are decided one by one on descriptors, compositions through the per-node dispatch",
    "repeatability after cache clearing is a history statement (ND)",
    "constants.empty is a sentinel, not a legal type argument",
]
TRUSTED = oracle.TRUSTED
SENTINELS = {"typelib.constants.empty", "inspect.Parameter.empty"}


def grammar_forms():
    """Descriptors of the annotation forms C15 adds to the universe (besides the container catalogue)."""
    TA = C.TypeArg
    return [
        TA("typing.TypeVar", flags=frozenset({"instance"})),
        TA("builtins.type", True, ("builtins.int",)),
        TA("collections.abc.Callable", True, ("[]", "builtins.str")),
        TA("collections.abc.Callable", True, ("...", "builtins.int")),
        TA("typing.Callable"),
        TA("collections.abc.Callable"),
        TA("typing.Any"),
        TA("builtins.object"),
        TA("builtins.Ellipsis"),
        TA("builtins.tuple", True, ()),
        TA("functools.partial"),  # stands for any class that defines __call__
    ]


def r15_4(prog: Program, rep: Report):
    """No predicate of the dispatch tables raises on a form of the grammar before a row (or the fallback) takes it:
    predicates are evaluated abstractly (PredEval, origin() interpreted from its source) row by row."""
    pe = C.PredEval(prog)
    pe.interpret_origin = True
    n = 0
    for d in ("marshal", "unmarshal"):
        rows = C.handlers(prog, d)
        disp = C.dispatcher(prog, d)
        for a in grammar_forms():
            verdict = None
            for r in rows:
                v = pe.accepts(r.pred, a)
                if v == ("raises",):
                    verdict = ("raises", r)
                    break
                if v is None:
                    verdict = ("unknown", r)
                    break
                if pe.truthy(v):
                    verdict = ("row", r)
                    break
            n += 1
            key = f"{d}:{a.label()}"
            if verdict is None or verdict[0] == "row":
                rep.held("R15.4", key, disp.loc, f"{a.label()} is taken by {'the fallback' if verdict is None else verdict[1].pred_name} without any predicate raising")
            elif verdict[0] == "raises":
                rep.violated("R15.4", key, disp.loc, f"building a routine for {a.label()} raises: no earlier row takes it and predicate {verdict[1].pred_name} applies issubclass to origin() of it, which is not a class (TypeError: issubclass() arg 1 must be a class)")
            else:
                rep.undecided("R15.4", key, disp.loc, f"{a.label()}: predicate {verdict[1].pred_name} could not be evaluated")
    return n


def _required_args(prog, cls):
    """(required, exact) number of type arguments the constructor of a routine class unpacks from args(t)."""
    import ast

    best = None
    seen = set()
    for c in prog.mro(cls):
        init = c.methods.get("__init__")
        if init is None or init.qualname in seen:
            continue
        seen.add(init.qualname)
        for n in ast.walk(init.node):
            if isinstance(n, ast.Assign) and len(n.targets) == 1 and isinstance(n.targets[0], (ast.Tuple, ast.List)):
                src = ast.unparse(n.value)
                if "args(" in src or "__args__" in src:
                    elts = n.targets[0].elts
                    starred = any(isinstance(x, ast.Starred) for x in elts)
                    req = len(elts) - (1 if starred else 0)
                    if best is None or req > best[0]:
                        best = (req, not starred, f"{init.module.relpath}:{n.lineno}")
    return best


def r15_5(prog: Program, rep: Report):
    """A routine constructor that unpacks the type arguments must be reachable only for forms with that many arguments."""
    pe = C.PredEval(prog)
    in_u = {(a.cls, a.args) for a in C._catalogue() if a.subscripted}
    forms = [a for a in C.catalogue() if a.subscripted] + [C.TypeArg("builtins.tuple", True, ())]
    n = 0
    observed = []
    for d in ("marshal", "unmarshal"):
        rows = C.handlers(prog, d)
        for a in forms:
            outside = (a.cls, a.args) not in in_u and a.args != ()
            if outside:
                # thorough tier: generic aliases outside the universe U of the properties (e.g. Counter[str], one
                # parameter served by the two-parameter mapping routine) are recorded, not judged
                kind, r = C.route(prog, pe, rows, a)
                need = _required_args(prog, r.routine) if kind == "row" and r.routine is not None else None
                if need is not None and not (len(a.args) == need[0] if need[1] else len(a.args) >= need[0]):
                    observed.append(f"{d}:{a.label()}->{r.routine.name}")
                continue
            kind, r = C.route(prog, pe, rows, a)
            if kind != "row" or r.routine is None:
                continue
            need = _required_args(prog, r.routine)
            if need is None:
                continue
            n += 1
            have = len(a.args)
            ok = have == need[0] if need[1] else have >= need[0]
            rep.check(ok, "R15.5", f"{d}:{a.label()}->{r.routine.name}", need[2], f"{r.routine.name} unpacks {need[0]} type argument(s); {a.label()} has {have}", f"{a.label()} is routed to {r.routine.name}, whose constructor unpacks {'exactly' if need[1] else 'at least'} {need[0]} type argument(s) but the form has {have}: construction raises ValueError (not enough values to unpack)")
    if observed:
        rep.count("arity_mismatch_outside_U", len(observed))
        rep.held("R15.5", "outside-U", "", "observation (not judged, outside the universe U): " + ", ".join(sorted(set(observed))[:6]), nontrivial=False)
    return n


def r15_6(prog: Program, rep: Report):
    """Graph walk vs. the forms that are served by pass-through routines: (a) an annotation whose type arguments are not
    annotations (the parameter *list* of Callable[[int], str] is unhashable) must be a leaf of the walk; (b) a revisited
    member that is not a type (`...`, a TypeVar) must never take the cycle cut, which names a class."""
    f, ps = c09.graph_paths(prog)
    q = f.qualname
    pe = C.PredEval(prog)
    pe.interpret_origin = True
    UNWRAP = f"{C.INSP}.unwrap"

    def abstract(term):
        return T.rewrite(term, lambda x: ("param", "U") if T.is_call_to(x, UNWRAP) else None)

    # (a) leaf paths: iterations that add the parent and continue without asking _level for members
    leaf_conds = []
    for p in ps:
        if not any(e[0] == "while" and e[2] == 1 for e in p.events):
            continue
        asked = any(T.is_call_to(c, "typelib.graph._level") for c in p.calls())
        added = any(c[1][0] == "attr" and c[1][2] == "add" and T.is_call_to(c[1][1], "graphlib.TopologicalSorter") for c in p.calls())
        if added and not asked:
            gs = [(g, pol) for g, pol in p.guards() if T.contains(g, lambda x: x[0] == "call" and (T.refname(x[1]) or "").startswith(C.INSP + ".") and T.refname(x[1]) != UNWRAP and bool(x[2]) and T.is_call_to(x[2][0], UNWRAP))]
            if gs:
                leaf_conds.append(gs)
    with_bad_members = [a for a in grammar_forms() if a.subscripted and "[]" in a.args]
    for a in with_bad_members:
        leaf = False
        for gs in leaf_conds:
            vals = [pe.val(abstract(g), {"U": a}, 0) for g, pol in gs]
            if all(v is not None and v != ("raises",) and bool(pe.truthy(v)) == pol for v, (g, pol) in zip(vals, gs)):
                leaf = True
        rep.check(leaf, "R15.6", f"{q}#leaf:{a.label()}", f.loc, f"{a.label()} is a leaf of the graph walk (its parameter list is never treated as a member annotation)", f"the graph walk asks _level() for the members of {a.label()}: its first type argument is a list, which is unhashable (visited set, memoised unwrap) — construction raises TypeError")
    # (b) a non-string reference never reaches the string-splitting module resolver: a revisited member that is not a
    # class and has no __module__ (`...` of a second variadic tuple) is cut like any other and named through forwardref()
    fr = prog.function("typelib.py.refs.forwardref")
    ref = ("param", fr.params[0])
    STR_ONLY = ("split", "rsplit", "partition", "rpartition", "startswith", "endswith", "replace", "strip")
    bad = []
    sites = 0
    for pth in P.paths_of(prog, fr):
        nonstr = any(T.is_call_to(g, "builtins.isinstance") and g[2] == (ref, ("ref", "builtins.str")) and not pol for g, pol in pth.guards())
        if not nonstr:
            continue
        for c in pth.calls():
            callee = prog.functions.get(T.refname(c[1]) or "")
            if callee is None or not c[2] or c[2][0] != ref:
                continue
            sites += 1
            p0 = ("param", callee.params[0])
            uses = [x[2] for cp in P.paths_of(prog, callee) for tm in cp.all_terms() for x in T.walk(tm) if x[0] == "attr" and x[1] == p0 and x[2] in STR_ONLY]
            guarded = any(T.is_call_to(g, "builtins.isinstance") and g[2][:1] == (p0,) for cp in P.paths_of(prog, callee) for g, _ in cp.guards())
            if uses and not guarded:
                bad.append(f"{callee.name}({fr.params[0]}, …) uses .{uses[0]}()")
    rep.check(not bad, "R15.6", fr.qualname, fr.loc, f"on the branch where the reference is not a string, no string-only helper receives it ({sites} call sites)", f"forwardref() hands the non-string reference itself to a helper that treats it as text ({bad[0] if bad else ''}): when neither the caller nor the object supplies a module (`...` revisited in a second variadic tuple) construction raises AttributeError", detail="nonstr-ref")


def r15_6_attrs(prog: Program, rep: Report):
    """(c) A member that arrives in the walk is any annotation object -- `...`, a TypeVar, a typing special form -- and such
    objects need not carry __module__ / __qualname__ / __name__: the walk and the reference builder read them tolerantly."""
    f, ps = c09.graph_paths(prog)
    fr = prog.function("typelib.py.refs.forwardref")
    ref = ("param", fr.params[0])
    strict = []
    n = 0
    for fn, pths, is_subject in ((f, ps, None), (fr, P.paths_of(prog, fr), lambda x: x == ref)):
        for pth in pths:
            for tm in pth.all_terms():
                for x in T.walk(tm):
                    if x[0] == "attr" and x[2] in ("__module__", "__qualname__", "__name__") and x[1][0] in ("param", "elem", "unpack", "sub", "call") and x[1] != ("param", "self"):
                        if is_subject is not None and not is_subject(x[1]):
                            continue
                        n += 1
                        if any(pol and ((T.is_call_to(g, "inspect.isclass") and g[2] == (x[1],)) or (T.is_call_to(g, "builtins.isinstance") and g[2][:1] == (x[1],) and T.refname(g[2][1]) == "builtins.type")) for g, pol in pth.guards()):
                            continue  # a class always has the three
                        strict.append(f"{T.show(x)[:50]} in {fn.name}")
                    if T.is_call_to(x, "builtins.getattr") and len(x[2]) == 3 and x[2][1][0] == "const" and x[2][1][1] in ("__module__", "__qualname__", "__name__"):
                        n += 1
    rep.check(not strict and n > 0, "R15.6", f.qualname, f.loc, f"{n} reads of __module__/__qualname__/__name__ on member annotations are tolerant (getattr with a default)", f"a member annotation's attribute is read unconditionally ({sorted(set(strict))[:2]}): a revisited member that is not a class -- the `...` of a second variadic tuple (tuple[tuple[int, ...], tuple[str, ...]]) -- has no such attribute and construction raises AttributeError", detail="tolerant-attrs")


def r15_7_paths(prog: Program, rep: Report):
    """The path form of R15.7: a constant index into the type arguments of an annotation (`args(t)[0]`, `get_args(t)[-1]`,
    `t.__args__[0]`) is evaluated only where the arguments are known to be non-empty -- by an earlier operand of the same
    `and` / `or`, the test of the conditional expression it sits in, a guard of the path, or because the annotation is known to
    be a form that cannot be written without arguments (Annotated, Union, Optional, ClassVar, Final)."""
    NEEDS_ARGS = {"typing.Annotated", "typing_extensions.Annotated", "typing.Union", "typing.Optional", "typing.ClassVar", "typing.Final", "types.UnionType"}

    def is_args(x):
        return T.is_call_to(x, f"{C.INSP}.args", "typing.get_args") or (x[0] == "attr" and x[2] == "__args__")

    def subject(x):
        return x[2][0] if x[0] == "call" and x[2] else (x[1] if x[0] == "attr" else None)

    def nonempty_fact(cond, pol, X):
        """Does `cond` having truth value `pol` establish that X is non-empty?"""
        if cond == X:
            return pol
        if cond[0] == "not":
            return nonempty_fact(cond[1], not pol, X)
        if cond[0] == "boolop" and cond[1] == "and" and pol:
            return any(nonempty_fact(o, True, X) for o in cond[2])
        if cond[0] == "boolop" and cond[1] == "or" and not pol:
            return any(nonempty_fact(o, False, X) for o in cond[2])
        if pol and T.contains(cond, lambda y: T.is_call_to(y, "builtins.len") and y[2] == (X,)):
            return True
        if pol and cond[0] == "cmp" and cond[1] in ("is", "==") and any(T.is_call_to(side, "typing.get_origin") and side[2][:1] == (subject(X),) for side in cond[2:4]) and any(T.refname(side) in NEEDS_ARGS for side in cond[2:4]):
            return True
        if pol and cond[0] == "call" and (T.refname(cond[1]) or "").rsplit(".", 1)[-1] in ("isclassvartype", "isfinal", "isoptionaltype", "isuniontype") and cond[2][:1] == (subject(X),):
            return True
        return False

    unprotected, n = [], 0

    def scan(tm, facts, where):
        nonlocal n
        if tm[0] == "sub" and is_args(tm[1]) and tm[2][0] == "const" and isinstance(tm[2][1], int) and not isinstance(tm[2][1], bool):
            n += 1
            X = tm[1]
            if not any(nonempty_fact(c, pol, X) for c, pol in facts):
                unprotected.append(f"{T.show(tm)[:50]} in {where}")
        if tm[0] == "boolop":
            acc = list(facts)
            for o in tm[2]:
                scan(o, acc, where)
                acc = acc + [(o, tm[1] == "and")]
            return
        if tm[0] == "ifexp":
            scan(tm[1], facts, where)
            scan(tm[2], facts + [(tm[1], True)], where)
            scan(tm[3], facts + [(tm[1], False)], where)
            return
        for ch in tm[1:]:
            if isinstance(ch, tuple):
                if ch and isinstance(ch[0], str):
                    scan(ch, facts, where)
                else:
                    for c2 in ch:
                        if isinstance(c2, tuple) and c2 and isinstance(c2[0], str):
                            scan(c2, facts, where)
                        elif isinstance(c2, tuple):
                            for c3 in c2:
                                if isinstance(c3, tuple) and c3 and isinstance(c3[0], str):
                                    scan(c3, facts, where)

    for q, f in sorted(prog.functions.items()):
        if not (q.startswith(C.INSP + ".") or q.startswith("typelib.graph.") or q.startswith("typelib.binding.")):
            continue
        try:
            ps = P.paths_of(prog, f)
        except Exception:
            continue
        for pth in ps:
            gs = list(pth.guards())
            # a guard is evaluated under the guards before it; everything else of the path under all of them
            for i, (g, pol) in enumerate(gs):
                scan(g, gs[:i], f.name)
            for tm in pth.all_terms():
                if any(tm is g for g, _ in gs):
                    continue
                scan(tm, gs, f.name)
    rep.check(not unprotected and n > 0, "R15.7", "typelib", "", f"{n} constant indexings of an annotation's type arguments are evaluated only where the arguments are known to be non-empty", f"type arguments are indexed where they may be empty ({sorted(set(unprotected))[:2]}): for tuple[()], a bare `tuple` or an unparameterised generic the index raises IndexError", detail="args-index-guarded")


def r15_7(prog: Program, rep: Report):
    """Contradiction rule: where one boolean expression both tests a sequence for emptiness and indexes it with a constant,
    the test comes first (`not a or a[-1] is ...`).  The other order evaluates the index on the empty sequence."""
    import ast

    def key(n):
        return ast.unparse(n)

    sites = 0
    bad = []
    for q, f in sorted(prog.functions.items()):
        for n in ast.walk(f.node):
            if not isinstance(n, ast.BoolOp):
                continue
            vals = n.values
            for j, vj in enumerate(vals):
                # an emptiness / truthiness test of X
                x = None
                if isinstance(vj, ast.UnaryOp) and isinstance(vj.op, ast.Not) and isinstance(vj.operand, (ast.Name, ast.Attribute)):
                    x = key(vj.operand)
                elif isinstance(vj, (ast.Name, ast.Attribute)):
                    x = key(vj)
                if x is None:
                    continue
                for i, vi in enumerate(vals):
                    if i == j:
                        continue
                    idx = [m for m in ast.walk(vi) if isinstance(m, ast.Subscript) and key(m.value) == x and isinstance(m.slice, (ast.Constant, ast.UnaryOp)) and not isinstance(getattr(m.slice, "value", None), str)]
                    if not idx:
                        continue
                    sites += 1
                    if i < j:
                        bad.append(f"{f.qualname} ({f.module.relpath}:{n.lineno}): `{ast.unparse(n)[:60]}`")
    rep.check(not bad, "R15.7", "typelib", "", f"{sites} boolean expression(s) that test a sequence for emptiness and index it: the test comes first", f"the sequence is indexed before it is tested for emptiness in {bad[:2]}: for the empty sequence (the arguments of tuple[()], an unparameterised generic) the index raises IndexError before the guard is reached", detail="empty-before-index")


def _same_arg_edges(prog: Program):
    """Edges f -> g of the package's module-level functions where f passes *its own first parameter, unchanged,* as g's first
    argument (`name = compat.cache(func)` aliases resolved).  Each edge records the call term and the guards of the
    paths that evaluate it."""
    import ast as _ast

    def target(n):
        if n in prog.functions:
            return prog.functions[n]
        mn, _, nm = (n or "").rpartition(".")
        mod = prog.modules.get(mn)
        if mod and nm in mod.assigns:
            v = mod.assigns[nm]
            if isinstance(v, _ast.Call) and v.args:
                return prog.functions.get(prog.resolve_expr_name(mod, v.args[0]) or "")
        return None

    edges = {}
    for q, f in prog.functions.items():
        if f.cls is not None or not f.params or not q.startswith("typelib.py.inspection."):
            continue
        try:
            ps = P.paths_of(prog, f)
        except Exception:
            continue
        me = ("param", f.params[0])
        for pth in ps:
            gs = pth.guards()
            for tm in pth.all_terms():
                for c in T.walk(tm):
                    if c[0] != "call" or not c[2] or c[2][0] != me:
                        continue
                    g = target(T.refname(c[1]) or "")
                    if g is None or g.cls is not None or not g.params:
                        continue
                    edges.setdefault((q, g.qualname), []).append((c, gs))
    return edges


def r15_8(prog: Program, rep: Report):
    """Termination of the inspection helpers: a cycle of calls that hands the *same object* round has no decreasing measure;
    it terminates only if the re-entry fixes a flag that switches the cycle's own guard off (`exhaustive=False`)."""
    edges = _same_arg_edges(prog)
    succ = {}
    for a, b in edges:
        succ.setdefault(a, set()).add(b)
    cycles = []

    def dfs(start, node, trail):
        for nxt in sorted(succ.get(node, ())):
            if nxt == start:
                cycles.append(trail + [nxt])
            elif nxt not in trail and nxt > start and len(trail) < 6:
                dfs(start, nxt, trail + [nxt])

    for a in sorted(succ):
        dfs(a, a, [a])
    open_cycles = []
    for cyc in cycles:
        nodes = cyc[:-1]
        broken = False
        for i, fq in enumerate(nodes):
            f = prog.functions[fq]
            nxt = cyc[i + 1]
            prev = nodes[i - 1]
            # the flags the previous edge fixes for f
            fixed = {}
            for c, _gs in edges[(prev, fq)]:
                kw = {k: v for k, v in c[3] if k}
                for j, a in enumerate(c[2][1:], start=1):
                    if j < len(f.params):
                        kw.setdefault(f.params[j], a)
                consts = {k: v[1] for k, v in kw.items() if v[0] == "const"}
                fixed = consts if not fixed else {k: v for k, v in fixed.items() if consts.get(k, object()) == v}
            # every evaluation of the outgoing edge in f is under a guard that such a flag falsifies
            outs = edges[(fq, nxt)]
            def off(gs):
                for g, pol in gs:
                    for k, v in fixed.items():
                        if g == ("param", k) and bool(v) != pol:
                            return True
                        if g[0] == "boolop" and g[1] == "and" and pol and any(x == ("param", k) and not v for x in g[2]):
                            return True
                return False
            if fixed and all(off(gs) for _c, gs in outs):
                broken = True
                break
        if not broken:
            open_cycles.append(" -> ".join(x.rsplit(".", 1)[-1] for x in cyc))
    rep.check(not open_cycles, "R15.8", "typelib.py.inspection", "", f"{len(cycles)} call cycle(s) that pass the same object round are switched off on re-entry by a constant flag", f"the helpers call each other with the same object and nothing stops the round trip ({open_cycles[:2]}): for a class that yields no hints at all (an empty TypedDict) routine construction ends in RecursionError", detail="same-argument-cycle")


def r15_9(prog: Program, rep: Report):
    """A parameterised user generic (`Box[int]`) is an alias object: typing.get_type_hints() rejects it (TypeError -- it takes
    modules, classes and callables) and its inspect.signature is `(*args, **kwargs)`.  The hints wrapper must therefore
    look at the alias's origin on the path where the stdlib call was abandoned, or the class's fields are lost."""
    gh = prog.function(f"{C.INSP}.get_type_hints")
    obj = ("param", gh.params[0])
    ps = P.splice_helpers(prog, P.paths_of(prog, gh))
    rejected = [p for p in ps if any("builtins.TypeError" in names for names in P.abandoned(p)) and any(e[0] == "attempt" and T.contains(e[1], lambda x: T.is_call_to(x, "typing.get_type_hints")) for e in p.events)]
    if not rejected:
        rep.undecided("R15.9", gh.qualname, gh.loc, "no path on which typing.get_type_hints(obj) is abandoned with TypeError", detail="alias-hints")
        return

    def looks_at_origin(p):
        for tm in p.all_terms():
            for x in T.walk(tm):
                if T.is_call_to(x, "typing.get_origin", f"{C.INSP}.origin") and x[2][:1] == (obj,):
                    return True
                if x == ("attr", obj, "__origin__") or (T.is_call_to(x, "builtins.getattr") and x[2][:2] == (obj, ("const", "__origin__"))):
                    return True
        return False

    ok = all(looks_at_origin(p) for p in rejected)
    # ... and on those paths no signature is taken of the alias itself (inspect.signature(Stack[int]) is (*args, **kwargs)):
    # where the fields are described by the constructor alone, it is the constructor of the origin class
    sig_of_alias = []

    def _contradictory(atoms):
        """A spliced path can combine outcomes no run can: a pure private helper that was read in place at one call (its tests
        all passed) and left opaque at the next (`_helper(obj) is None` taken as true), or `X is None` next to `isclass(X)`."""
        known = {a: val for a, val in atoms}
        for a, val in atoms:
            if a[0] == "cmp" and a[1] == "is" and ("const", None) in a[2:4] and val:
                x = a[2] if a[3] == ("const", None) else a[3]
                if known.get(("call", ("ref", "inspect.isclass"), (x,), ())) is True:
                    return True
                if x[0] == "call" and x[1][0] == "ref" and x[1][1].startswith(C.INSP + "._") and x[1][1] in prog.functions and not x[3]:
                    h = prog.functions[x[1][1]]
                    try:
                        hps = P.paths_of(prog, h)
                    except Exception:
                        continue
                    sigma = dict(zip(h.params, x[2]))
                    none_exits = [q for q in hps if q.exit[0] == "return" and q.exit[1] == ("const", None)]
                    feasible = False
                    for q in none_exits:
                        if not any(known.get(P.substitute(g, sigma)) is (not pol) for g, pol in T.derive_atoms(q.guards())):
                            feasible = True
                    if none_exits and not feasible:
                        return True
        return False

    for p in rejected:
        atoms = T.derive_atoms(p.guards())
        if _contradictory(atoms):
            continue
        class_origin = lambda a: T.is_call_to(a, "inspect.isclass") and a[2] and T.is_call_to(a[2][0], "typing.get_origin") and a[2][0][2][:1] == (obj,)  # noqa: E731
        # (known not to be a parameterised user generic: the class-origin test failed, alone or as a conjunct with "has parameters")
        about_params = lambda y: T.contains(y, lambda z: z == ("const", "__parameters__") or (z[0] == "attr" and z[2] == "__parameters__")) and not T.contains(y, lambda z: z[0] == "call" and z[1][0] == "ref" and z[1][1].startswith(C.INSP))  # noqa: E731
        not_generic_alias = any((not val) and (class_origin(a) or about_params(a) or (a[0] == "boolop" and a[1] == "and" and any(class_origin(y) for y in a[2]) and all(class_origin(y) or about_params(y) for y in a[2]))) for a, val in atoms)
        for tm in p.all_terms():
            for x in T.walk(tm):
                if T.is_call_to(x, f"{C.INSP}.signature", f"{C.INSP}.cached_signature", "inspect.signature") and x[2][:1] == (obj,) and not not_generic_alias:
                    sig_of_alias.append(T.show(x)[:50])
    rep.check(not sig_of_alias, "R15.9", gh.qualname, gh.loc, "where typing.get_type_hints rejected the object, no signature is taken of it unless its origin is known not to be a class", f"when the origin class has no class-level annotations the wrapper falls back to {sorted(set(sig_of_alias))[:1]} of the *alias*, which is (*args, **kwargs): `class Stack(Generic[T])` with an annotated __init__ works bare, but Stack[int] knows no field -- the marshaller returns {{}} and the unmarshaller raises TypeError (missing argument)", detail="alias-signature")
    rep.check(ok, "R15.9", gh.qualname, gh.loc, f"on the {len(rejected)} path(s) where typing.get_type_hints rejects the object, the alias's origin is consulted", "when typing.get_type_hints rejects the object (a parameterised user generic such as Box[int] is an alias, not a class) the wrapper goes straight to the signature, which for an alias is (*args, **kwargs): the routine knows no field and unmarshal(Box[int], {'value': 1}) raises TypeError: __init__() missing 1 required positional argument", detail="alias-hints")


def _arg_builder(idx, is_zip):
    """The comprehension that produces the new arguments when `idx` *is* such a tuple: tuple(<comp>), (*<comp>,) or the
    comprehension itself, its element looking the parameter up in the zip map (not any index that merely mentions one)."""
    c = None
    if idx[0] == "comp":
        c = idx
    elif idx[0] == "call" and T.refname(idx[1]) in ("builtins.tuple", "builtins.list") and len(idx[2]) == 1 and idx[2][0][0] == "comp":
        c = idx[2][0]
    elif idx[0] in ("tuple", "list") and len(idx[1]) == 1 and idx[1][0][0] == "star" and idx[1][0][1][0] == "comp":
        c = idx[1][0][1]
    if c is not None and T.contains(c[2], is_zip):
        return c
    return None


def string_annotation_parameters(prog: Program, rep: Report, rule: str):
    """The hints of `Stack[int]` are the hints of `Stack` with T replaced -- which works on annotation *objects*.  Where the
    constructor's annotations are strings (`from __future__ import annotations`, `items: "list[T]"`) the hint kept for a
    parameter is a lazy reference, in which nothing can be replaced: the reference may be kept only where the evaluated
    annotation is known to mention no type parameter."""
    hs = prog.functions.get(f"{C.INSP}._hints_from_signature")
    if hs is None:
        rep.undecided(rule, f"{C.INSP}._hints_from_signature", "", "anchor not found", detail="string-annotation-parameters")
        return
    n, blind = 0, 0
    for p in P.paths_of(prog, hs):
        guards_so_far: list = []
        for e in p.events:
            if e[0] == "guard":
                guards_so_far.append((e[1], e[2]))
            if e[0] == "setitem" and T.contains(e[3], lambda y: T.is_call_to(y, "typelib.py.refs.forwardref") and y[2] and T.contains(y[2][0], lambda z: z[0] == "attr" and z[2] == "annotation")):
                n += 1
                atoms = T.derive_atoms(guards_so_far)
                obj = ("param", hs.params[0])
                about_obj = lambda a: T.contains(a, lambda y: T.is_call_to(y, "typing.get_origin") and y[2][:1] == (obj,))  # noqa: E731  (the test whether obj itself is an alias)
                unparameterised = any((not val) and not about_obj(a) and T.contains(a, lambda y: y == ("const", "__parameters__") or (y[0] == "attr" and y[2] == "__parameters__")) for a, val in atoms)
                if not unparameterised:
                    blind += 1
    if not n:
        rep.held(rule, hs.qualname, hs.loc, "no lazy reference is kept for a string annotation", detail="string-annotation-parameters", nontrivial=False)
        return
    rep.check(not blind, rule, hs.qualname, hs.loc, f"a lazy reference is kept for a string annotation only where its evaluated form mentions no type parameter ({n} store(s) on paths)", "every string annotation of a constructor is kept as a lazy reference: for `class Stack(Generic[T])` written under `from __future__ import annotations` the parameter T of `items: list[T]` is never replaced -- unmarshal(Stack[int], {'items': ['a', None]}) returns the members unconverted, the graph of Stack[int] has list[~T] and no list[int]", detail="string-annotation-parameters")


def alias_substitution(prog: Program, rep: Report, rule: str):
    """Where the member hints of a parameterised user generic are re-subscripted (`dict[V, K]` of `Index[str, int]` becomes
    `dict[int, str]`) the new arguments follow the *member's own* parameter order (member.__parameters__), each looked up in the
    map {class parameter: alias argument}; that map pairs the class's parameters with the alias's arguments in this order."""
    gh = prog.function(f"{C.INSP}.get_type_hints")
    ps = P.splice_helpers(prog, P.paths_of(prog, gh))
    is_zip = lambda x: T.is_call_to(x, "builtins.zip") and len(x[2]) == 2  # noqa: E731
    sites = {}
    zips = {}
    for p in ps:
        for tm in p.all_terms():
            for x in T.walk(tm):
                if x[0] == "sub" and _arg_builder(x[2], is_zip) is not None:
                    sites[x] = None
                if is_zip(x) and any(T.contains(a, lambda y: y == ("const", "__parameters__") or (y[0] == "attr" and y[2] == "__parameters__")) for a in x[2]):
                    zips[x] = None
    has_lookup = any(x[0] == "sub" and ((T.is_call_to(x[1], "builtins.dict") and len(x[1][2]) == 1 and is_zip(x[1][2][0])) or (x[1][0] == "comp" and x[1][1] == "dict" and len(x[1][3]) == 1 and is_zip(x[1][3][0][0]))) for p in ps for tm in p.all_terms() for x in T.walk(tm))
    if not sites and not has_lookup:
        rep.held(rule, gh.qualname, gh.loc, "no member hint is re-subscripted with substituted arguments", detail="alias-substitution", nontrivial=False)
        return
    why = None
    if not sites:
        why = "the members of a parameterised user generic are looked up in the parameter->argument map, but no path re-subscribes a generic member any more (the branch is unreachable): `items: list[T]` of Stack[int] keeps its type variable"
    # a member that is a bare generic *class* (`raw: Box`) also has __parameters__, but it is not waiting for arguments: on the
    # path of every re-subscription the member is known not to be a class
    for p in ps:
        roots = [tm for tm in p.all_terms() if any(x in sites for x in T.walk(tm))]
        if not roots:
            continue
        for x in sites:
            h = x[1]
            occurrences = [conds for tm in roots for conds in T.enclosing_conditions(tm, x)]
            for conds in occurrences:
                # what holds where the re-subscription is evaluated: the path's guards and the conditional expressions / filters around it
                atoms = T.derive_atoms(list(p.guards()) + conds)
                if any((not val) and T.is_call_to(a, "inspect.isclass") and a[2][:1] == (h,) for a, val in atoms) or any(val and T.is_call_to(a, f"{C.INSP}.issubscriptedgeneric", "typing.get_origin") and a[2][:1] == (h,) for a, val in atoms):
                    continue
                why = "a member annotated with a bare generic class (`raw: Box` inside `Holder(Generic[T])`) is re-subscripted with the alias's arguments because the class, too, has __parameters__: Holder[int] converts raw.v to int, input that Holder and Box pass through is rejected or silently re-typed"
    # a member that *is* one of the class's parameters is looked up in the map -- under the test that it is a key of the map
    def is_map(z):
        if T.is_call_to(z, "builtins.dict") and len(z[2]) == 1 and is_zip(z[2][0]):
            return True
        # the same map filled by a loop: {k: v for k, v in zip(params, args)}
        if z[0] == "comp" and z[1] == "dict" and len(z[3]) == 1 and not z[4] and is_zip(z[3][0][0]) and z[2][0] == "pair":
            zc = z[3][0][0]
            return z[2][1] == ("zipelem", zc[2][0], zc) and z[2][2] == ("zipelem", zc[2][1], zc)
        return False

    for p in ps:
        for tm in p.all_terms():
            for x in T.walk(tm):
                if x[0] == "sub" and is_map(x[1]):
                    h = x[2]
                    for conds in T.enclosing_conditions(tm, x):
                        atoms = T.derive_atoms(list(p.guards()) + conds)
                        if not any(val and a[0] == "cmp" and a[1] == "in" and a[2] == h and a[3] == x[1] for a, val in atoms):
                            why = "a member is looked up in the parameter->argument map without (or under the negation of) the test that it is one of the class's parameters: KeyError for every member that is not a bare type variable, while `item: T` is left un-substituted"
    # ... and such a look-up exists at all (a member that *is* a type variable -- `item: T` -- is replaced, not only re-subscribed),
    # and what is found is stored under the name of the very member it was computed from
    n_direct = 0

    def _arms(v):
        return _arms(v[2]) + _arms(v[3]) if v[0] == "ifexp" else [v]

    for p in ps:
        stores = [e for e in p.events if e[0] == "setitem"]
        # the comprehension spelling of the same loop: {name: <substituted hint> for name, hint in hints.items()}
        for tm in p.all_terms():
            for x in T.walk(tm):
                if x[0] == "comp" and x[1] == "dict" and x[2][0] == "pair":
                    stores.append(("setitem", None, x[2][1], x[2][2]))
        for e in stores:
            uses = [x for x in T.walk(e[3]) if (x[0] == "sub" and is_map(x[1])) or x in sites]
            if not uses:
                continue
            if any(x[0] == "sub" and is_map(x[1]) and x in _arms(e[3]) for x in uses):
                n_direct += 1
            if not (e[2][0] == "key" and T.contains(e[3], lambda y: y == ("value", e[2][1]))):
                why = f"a substituted hint is stored under {T.show(e[2])[:40]}, which is not the name of the member it was computed from (the members are not iterated as name/hint entries of one mapping): the hints of Box[int] are unusable or belong to other members"
    if not n_direct and why is None:
        why = "no member that is itself a type parameter is replaced by the alias's argument (only re-subscription remains): `item: T` of Box[int] stays `T`, which normalises to Any -- unmarshal(Box[int], {'item': '1'}) leaves the member unconverted"
    for x in sites:
        h, idx = x[1], x[2]
        c = _arg_builder(idx, is_zip)
        src = c[3][0][0]
        own = src == ("attr", h, "__parameters__") or (T.is_call_to(src, "builtins.getattr") and src[2][:2] == (h, ("const", "__parameters__")))
        as_tuple = (idx[0] == "call" and T.refname(idx[1]) == "builtins.tuple") or idx[0] == "tuple"
        if not as_tuple:
            why = f"a generic member is re-subscripted with {T.show(idx)[:50]}, which is no tuple: typing takes a list (or a generator) for *one* argument -- `list[T][[int]]` raises TypeError (Parameters to generic types must be types)"
        elif not own:
            why = f"the new arguments of a generic member are enumerated from {T.show(src)[:60]}, not from the member's own __parameters__: for `inverse: dict[V, K]` in `Index[K, V]` the arguments arrive in the class's order and Index[str, int] gets inverse: dict[str, int]"
        elif c[4]:
            why = "the member's parameters are filtered while substituting: a parameter the alias does not bind is dropped and the subscription has the wrong arity"
    for z in zips:
        a, b = z[2]
        a_params = T.contains(a, lambda y: y == ("const", "__parameters__") or (y[0] == "attr" and y[2] == "__parameters__"))
        b_args = T.contains(b, lambda y: T.is_call_to(y, "typing.get_args") or (y[0] == "attr" and y[2] == "__args__") or y == ("const", "__args__"))
        if not (a_params and b_args):
            why = f"the substitution map is built from zip({T.show(a)[:40]}, {T.show(b)[:40]}): its keys are not the class's parameters paired with the alias's arguments"
    rep.check(why is None, rule, gh.qualname, gh.loc, f"{len(sites)} re-subscription(s): arguments follow the member's own parameter order through the parameter->argument map", why or "", detail="alias-substitution")


def classvar_no_field(prog: Program, rep: Report, rule: str):
    """A ClassVar annotation declares no field.  The wrapper consults the constructor's signature when the class-level hints
    give no field; that test must discount ClassVar hints, or a lone `registry: ClassVar[dict]` switches the constructor off
    as the source of a plain class's fields."""
    gh = prog.function(f"{C.INSP}.get_type_hints")
    fallback = []
    for p in P.paths_of(prog, gh):
        calls = [x for tm in p.all_terms() for x in T.walk(tm) if x[0] == "call" and x[1][0] == "ref" and x[1][1].startswith(C.INSP) and T.contains(("tuple", x[2]), lambda y: y == ("param", gh.params[0])) and any(T.is_call_to(c2, f"{C.INSP}.signature", f"{C.INSP}.cached_signature", "inspect.signature") for q in P.paths_of(prog, prog.functions[x[1][1]]) for tm2 in q.all_terms() for c2 in T.walk(tm2)) if x[1][1] in prog.functions and x[1][1] != gh.qualname]
        if calls:
            fallback.append(p)
    if not fallback:
        rep.undecided(rule, gh.qualname, gh.loc, "no path consults the signature for hints", detail="classvar-no-field")
        return
    knows = lambda g: T.contains(g, lambda y: T.is_call_to(y, f"{C.INSP}.isclassvartype") or (y[0] == "ref" and y[1] in ("typing.ClassVar", "typing_extensions.ClassVar")))  # noqa: E731
    def _through(pred):
        """pred on a guard, or -- where the guard asks a private helper of the module -- on what that helper computes."""
        def q(g):
            if pred(g):
                return True
            for x in T.walk(g):
                if x[0] == "call" and x[1][0] == "ref" and x[1][1].startswith(C.INSP + "._") and x[1][1] in prog.functions:
                    try:
                        hps = P.paths_of(prog, prog.functions[x[1][1]])
                    except Exception:
                        continue
                    if any(pred(tm) for hp in hps for tm in hp.all_terms()):
                        return True
            return False
        return q

    knows = _through(knows)
    ok = all(any(knows(g) for g, _ in p.guards()) for p in fallback)
    # ... and the private ones (no private name is ever a field: a lone `_cache: dict` declares none either)
    private = lambda g: T.contains(g, lambda y: y[0] == "call" and y[1][0] == "attr" and y[1][2] == "startswith" and y[2][:1] == (("const", "_"),))  # noqa: E731
    private = _through(private)
    ok_private = all(any(private(g) for g, _ in p.guards()) for p in fallback)
    rep.check(ok_private, rule, gh.qualname, gh.loc, "the signature fallback is decided on the public hints", "the constructor's signature is consulted only when every class-level annotation is a ClassVar: `class Client: _cache: dict; def __init__(self, host: str, port: int)` has the one private annotation as its only 'field' -- the routine knows `_cache` alone, host and port are dropped, unmarshal(Client, Client('h', 80)) raises TypeError or silently returns the defaults", detail="private-no-field")
    rep.check(ok, rule, gh.qualname, gh.loc, f"the signature fallback ({len(fallback)} path(s)) is decided on the hints that are no class variables", "the constructor's signature is consulted only when there is no class-level hint at all: a lone `registry: ClassVar[dict] = {}` on a plain class whose fields come from an annotated __init__(self, a: str, b: int) leaves the routine without any field -- marshal gives {}, unmarshal(V, V('1', 2)) raises TypeError (missing 'a')", detail="classvar-no-field")


def run(prog: Program, rep: Report, tier: str):
    rep.rule("R15.9", "hints of a parameterised user generic come from its origin class", floor=1)
    r15_9(prog, rep)
    rep.rule("R15.11", "a ClassVar annotation does not switch the constructor off as the source of fields", floor=1)
    classvar_no_field(prog, rep, "R15.11")
    rep.rule("R15.10", "substituted arguments of a generic member follow the member's own parameter order", floor=1)
    alias_substitution(prog, rep, "R15.10")
    string_annotation_parameters(prog, rep, "R15.10")
    rep.rule("R15.8", "helper call cycles on the same object are cut by a flag fixed on re-entry", floor=1)
    r15_8(prog, rep)
    rep.rule("R15.7", "emptiness tests precede constant indexing of the same sequence within one boolean expression", floor=1)
    r15_7(prog, rep)
    r15_7_paths(prog, rep)
    rep.rule("R15.4", "no dispatch predicate raises on a form of the annotation grammar (abstract evaluation, both tables)", floor=22)
    rep.rule("R15.5", "routine constructors unpack no more type arguments than the routed forms have", floor=10)
    rep.rule("R15.6", "graph walk: non-annotation arguments are never members; a non-string reference never reaches the string resolver", floor=2)
    r15_4(prog, rep)
    r15_6_attrs(prog, rep)
    r15_5(prog, rep)
    r15_6(prog, rep)
    rep.rule("R15.1", "graph skip set vs routine-context lookups (seeded pass-through or tolerant lookups)", floor=3)
    rep.rule("R15.2", "dispatch totality: unresolvable -> no-op, unconditional fallback, TypeVar normalisation", floor=7)
    rep.rule("R15.3", "empty graph -> pass-through routine; structured fallback to a warned no-op", floor=4)
    # skip set from the producer
    sub = Report("C15", tier)
    sub.rule("R09.1", "", 0)
    sub.rule("R09.2", "", 0)
    skipset = c09.r09_1_2(prog, sub) or []
    legal = [s for s in skipset if s not in SENTINELS]
    g = prog.function("typelib.graph.get_type_graph")
    rep.check(bool(skipset), "R15.1", g.qualname, g.loc, f"graph skip set extracted: {skipset}", "graph skip set could not be extracted", detail="skip-set")
    # consumers
    strict_sites = []
    for d in ("marshal", "unmarshal"):
        for c in C.routine_classes(prog, d):
            for attr, slot in K.slots_of(prog, c).items():
                forms = {a.lookup for a in slot.alts}
                if "strict" in forms or "mixed" in forms:
                    strict_sites.append((c, attr))
    for d in ("marshal", "unmarshal"):
        ff = c05.factory_facts(prog, d)
        seeds = ff.get("seeds", set())
        missing = [s for s in legal if s not in seeds]
        n_strict = len([1 for c, a in strict_sites if c.qualname.startswith(C.DIRS[d][1])])
        rep.check(
            not missing or n_strict == 0, "R15.1", ff["qual"], ff["loc"],
            f"{d}: skip-set members {legal} are seeded with a pass-through routine ({n_strict} strict context[arg] lookups rely on it)",
            f"{d}: the graph emits no node for {missing}, the context is not seeded for it, and {n_strict} routine constructors look type arguments up with the raising form context[arg] (e.g. {[f'{c.name}.{a}' for c, a in strict_sites][:4]}): list[Any] / dict[str, Any] / Union[int, Any] raise KeyError at construction",
            {"strict_sites": [f"{c.qualname}.{a}" for c, a in strict_sites]}, detail=f"{d}-seeded",
        )  # fmt: skip
    # R15.2
    for d in ("marshal", "unmarshal"):
        rows = C.handlers(prog, d)
        api = C.DIRS[d][0]
        by = {r.pred_name: r for r in rows}
        for pred, wantnoop in (("isunresolvable", True), ("isnonetype", False)):
            r = by.get(pred)
            ok = r is not None and r.routine is not None
            if ok and wantnoop:
                f = C.call_of(prog, r.routine)
                ok = f is not None and all(pth.exit[0] == "return" and pth.exit[1] == ("param", "val") for pth in P.paths_of(prog, f))
            rep.check(ok, "R15.2", f"{api}._HANDLERS", rows[0].loc, f"{pred} is routed to a {'pass-through' if wantnoop else 'dedicated'} routine", f"{pred} is not routed to a {'pass-through' if wantnoop else 'dedicated'} routine: unresolvable positions fail instead of passing through", detail=pred)
        f = C.dispatcher(prog, d)
        ps = P.paths_of(prog, f)
        total = all(p.exit[0] == "return" for p in ps)
        fb = C.fallback_routine(prog, d)
        rep.check(total and fb is not None, "R15.2", f.qualname, f.loc, "dispatch is total: every path returns a routine, ending in an unconditional fallback", "dispatch is not total: a path falls off or raises", detail="total")
    nt = prog.function(f"{C.INSP}.normalize_typevar")
    rets = [r for _, r in P.returns(P.spaths(prog, nt))]
    tv = ("param", nt.params[0])
    has_bound = ("attr", tv, "__bound__") in rets
    has_any = ("ref", "typing.Any") in rets
    has_constraints = any(T.contains(r, lambda s: s == ("attr", tv, "__constraints__")) for r in rets)
    rep.check(has_bound and has_any and has_constraints, "R15.2", nt.qualname, nt.loc, "TypeVars normalise to their bound, the union of their constraints, or Any", "normalize_typevar does not cover bound / constraints / Any", detail="typevar")
    # a further attribute of the TypeVar handed out as its normal form must be told apart from "nothing declared" by the
    # sentinel the typing modules use: `typing_extensions.TypeVar("T").__default__` is `NoDefault` (an object that is neither
    # None nor false), and `default=None` is a declared default -- `is not None` / truthiness decide neither
    for pth, r in P.returns(P.spaths(prog, nt)):
        reads = [s_ for s_ in T.walk(r) if (s_[0] == "attr" and s_[1] == tv and s_[2] not in ("__bound__", "__constraints__")) or (T.is_call_to(s_, "builtins.getattr") and s_[2][:1] == (tv,) and len(s_[2]) > 1 and s_[2][1][0] == "const" and s_[2][1][1] not in ("__bound__", "__constraints__"))]
        if not reads:
            continue
        told = any(T.contains(g, lambda y: (y[0] == "ref" and y[1].rsplit(".", 1)[-1] == "NoDefault") or (y[0] == "call" and y[1][0] == "attr" and y[1][2] == "has_default")) for g, _ in pth.guards())
        nm = reads[0][2] if reads[0][0] == "attr" else reads[0][2][1][1]
        rep.check(told, "R15.2", nt.qualname, nt.loc, f"`{nm}` of a TypeVar is handed out only where the NoDefault sentinel / has_default() was consulted", f"normalize_typevar returns the TypeVar's `{nm}` without telling the `NoDefault` sentinel apart (it is neither None nor false): a free typing_extensions.TypeVar normalises to the sentinel object, and `list[T]`, `Optional[T]`, a Generic[T] class fail at construction with TypeError", detail="typevar-default-sentinel")
    af = prog.function(f"{C.INSP}.args")
    def normalises(r):
        # through the private generator helper, or spelled out: normalize_typevar applied to each element
        if T.contains(r, lambda s: T.is_call_to(s, f"{C.INSP}._normalize_typevars")):
            return True
        return T.contains(r, lambda s: s[0] == "comp" and T.contains(s[2], lambda y: T.is_call_to(y, f"{C.INSP}.normalize_typevar") and bool(y[2]) and y[2][0][0] == "elem"))

    rets_af = P.returns(P.paths_of(prog, af))
    norm = bool(rets_af) and all(normalises(r) for _, r in rets_af)
    rep.check(norm, "R15.2", af.qualname, af.loc, "args() normalises TypeVars on every path", "args() returns raw TypeVars", detail="args-normalise")
    # the bound of a TypeVar may be a reference (bound="Node"): where members are evaluated, they are normalised *first*
    is_norm = lambda s: T.is_call_to(s, f"{C.INSP}._normalize_typevars", f"{C.INSP}.normalize_typevar")  # noqa: E731
    is_eval = lambda s: T.is_call_to(s, "typelib.py.refs.evaluate")  # noqa: E731
    late = False
    seen_eval = False
    for p, r in rets_af:
        if not T.contains(r, is_eval):
            continue
        seen_eval = True
        for x in T.walk(r):
            if is_norm(x) and any(T.contains(a, is_eval) for a in x[2]):
                late = True
    if seen_eval:
        rep.check(not late, "R15.2", af.qualname, af.loc, "type variables are normalised before the members are evaluated", "args(evaluate=True) evaluates the members first and normalises type variables afterwards: a TypeVar whose bound is given as a string (TypeVar('TNode', bound='Node')) is replaced by the *unevaluated* reference, which the context refuses as a key -- marshaller / unmarshaller / codec of list[TNode] raise KeyError: ForwardRef('Node')", detail="normalise-before-evaluate")
    # unannotated constructor parameters are hinted Any (=> pass-through), whatever their default
    hs = prog.function(f"{C.INSP}._hints_from_signature")
    ok = True
    seen = False
    try:
        hs_paths = P.spaths(prog, hs)  # the loop body may live in a private helper of its own
    except AnalysisError:
        hs_paths = P.paths_of(prog, hs)
    for p in hs_paths:
        empty = any(pol and g[0] == "cmp" and g[1] in ("is", "==") and T.contains(g[3], lambda s: s[0] == "attr" and s[2] == "empty" or T.refname(s) == "inspect.Parameter.empty") and T.contains(g[2], lambda s: s[0] == "attr" and s[2] == "annotation") for g, pol in p.guards())
        if not empty:
            continue
        for e in p.events:
            if e[0] == "setitem" and e[1][0] == "dict":
                seen = True
                if e[3] != ("ref", "typing.Any"):
                    ok = False
    if not seen:
        # the per-parameter decision in a private helper whose value is what the hints hold (`hints[n] = _hint_of(n, p, …)`,
        # or the dict comprehension the loop equals): the helper answers typing.Any where the annotation is empty
        is_empty = lambda g: g[0] == "cmp" and g[1] in ("is", "==") and T.contains(g[3], lambda s: s[0] == "attr" and s[2] == "empty" or T.refname(s) == "inspect.Parameter.empty") and T.contains(g[2], lambda s: s[0] == "attr" and s[2] == "annotation")  # noqa: E731
        stored = []
        for p in P.paths_of(prog, hs):
            stored += [e[3] for e in p.events if e[0] == "setitem"]
            if p.exit[0] == "return":
                stored.append(p.exit[1])
        for c in {c for tm in stored for c in T.calls_in(tm)}:
            q = T.refname(c[1])
            h = prog.functions.get(q) if q else None
            if h is None or h.cls is not None or h.module is not hs.module or not h.name.startswith("_") or h is hs:
                continue
            for p in P.paths_of(prog, h):
                if p.exit[0] == "return" and any(pol and is_empty(g) for g, pol in p.guards()):
                    seen = True
                    if p.exit[1] != ("ref", "typing.Any"):
                        ok = False
    rep.check(ok and seen, "R15.2", hs.qualname, hs.loc, "a parameter without annotation is hinted typing.Any (pass-through)", "a parameter without annotation is hinted something other than typing.Any (e.g. the class of its default): values of another class are converted or rejected instead of passing through", detail="unannotated-any")
    # the producer/consumer pair of the graph: get_type_graph hands out a fresh sorter per call (shared with R12.2)
    from ..report import Report as _R, absorb
    from . import c12

    sub = _R("C15", tier)
    sub.rule("R12.2", "", 0)
    c12.r12_2b(prog, sub)
    for o in list(sub.obligations):
        if "typelib.graph." not in o.key and "typelib.marshals.api" not in o.key and "typelib.unmarshals.api" not in o.key and "typelib.codecs" not in o.key:
            sub.obligations.remove(o)
    absorb(rep, sub, {"R12.2": "R15.3"})
    # R15.3
    for d in ("marshal", "unmarshal"):
        ff = c05.factory_facts(prog, d)
        rep.check(ff["noop_on_empty"], "R15.3", ff["qual"], ff["loc"], "an empty graph yields a pass-through routine", "an empty node list is not answered with a pass-through routine", detail="empty-graph")
        fb = C.fallback_routine(prog, d)
        if fb is not None:
            sl = [s for s in K.slots_of(prog, fb).values() if s.kind == "dict"]
            ok = bool(sl) and sl[0].lookup == "tolerant" and sl[0].fallback_noop
            rep.check(ok, "R15.3", fb.qualname, fb.loc, "field routines are looked up tolerantly and default to a no-op", "a structured routine looks field types up with the raising form or has no no-op fallback", detail="struct-fallback")
