"""C12 — results depend only on (type, input), never on call history (effect analysis)."""

from __future__ import annotations

import ast

from .. import oracle
from .. import paths as P
from .. import terms as T
from ..model import AnalysisError, Program
from ..report import Report
from . import c14
from . import common as C
from . import effects as E

EXPLANATION = (
    "Pure effect analysis. R12.1 no call-time state that is read back: for every function reachable from a routine __call__, serdes.*, api.* or Codec.*, a "
    "location written at call time (self attribute, module global, element of a module-level container) must not be read back at call time; two reasoned "
    "write-once latches are frozen exceptions. R12.2 results of memoised functions that may be mutable containers do not escape through a routine/API "
    "return without being rebuilt (alias analysis through load()/ifexp/locals). R12.3 key granularity: memoised functions whose parameter class has coarse "
    "equality must not expose the representation (candidates computed on every run and compared with a frozen, reasoned triage table). R12.4 memoised ⇒ "
    "pure: no ambient read (frames, clock, environment) in the transitive callees of a memoised function. R12.5 hashable keys (shared with R14.3). "
    "R12.6 no mutable default that is mutated or escapes; no module-level container mutated from a function except the registered slotted() guard. "
    "R12.7 no unmarshal/serdes path mutates its input. R12.8 routines and construction-time tables are not mutated after construction (cached "
    "constructor results such as type hints are not mutated by their consumers)."
)
ASSUMPTIONS = [
    "equality of each operation with the same operation in a cold process is a history statement (ND); the rules are its structural necessary conditions",
    "functools.cache / lru_cache key on argument equality and hash",
]
TRUSTED = oracle.TRUSTED

# reasoned exceptions for R12.1 (write-then-read at call time that cannot make results history dependent)
LATCHES = {
    ("typelib.marshals.api.DelayedMarshaller.resolved", "setattr(self, …)"): "copies the resolved routine's slots once, values are functions of self.t only",
    ("typelib.unmarshals.api.DelayedUnmarshaller.resolved", "setattr(self, …)"): "copies the resolved routine's slots once, values are functions of self.t only",
    ("typelib.ctx.TypeContext.__missing__", "self[...]"): "memo of the value just looked up under the queried key (verified by R16.4)",
}

# R12.3 triage of representation-exposing memoised functions
COARSE_BENIGN = {
    "typelib.py.inspection.origin": "result is a class / special form; for ClassVar[...] only the single argument is read",
    "typelib.py.inspection.resolve_supertype": "identity on everything but NewType; unions of equal members are returned as an equal object whose order is not read by callers (they call args() on their own argument)",
    "typelib.py.inspection.normalize_typevar": "TypeVars compare by identity",
    "typelib.py.inspection.safe_get_params": "keyed by class; signatures are order-preserving per class object",
    "typelib.py.inspection.isstdlibtype": "boolean; order-insensitive all() over members",
    "typelib.py.inspection.isoptionaltype": "boolean",
    "typelib.py.inspection.isfixedtupletype": "boolean",
    "typelib.py.future.transform": "keyed by the exact annotation string",
    "typelib.serdes.dateparse": "keyed by the exact text and class",
    "typelib.serdes.strload": "keyed by the exact text (str/bytes compare by content)",
    "typelib.serdes.get_items_iter": "keyed by class identity",
    "typelib.py.refs._resolve_module_name": "keyed by exact strings (its ambient read is R12.4)",
    "typelib.py.inspection.cached_type_hints": "keyed by the class object; the returned dict is shared (mutation is R12.8)",
    "typelib.py.inspection.cached_simple_attributes": "keyed by the class object",
    "typelib.py.inspection.cached_issubclass": "boolean",
}


def entry_functions(prog: Program):
    out = []
    for d in ("marshal", "unmarshal"):
        for c in C.routine_classes(prog, d):
            f = c.methods.get("__call__")
            if f is not None and not any(x and x.endswith("abstractmethod") for x in f.decorators):
                out.append(f)
        api = C.DIRS[d][0]
        out.append(prog.function(f"{api}.{d}"))
    for q in ("typelib.api.encode", "typelib.api.decode", "typelib.codecs.Codec.encode", "typelib.codecs.Codec.decode"):
        out.append(prog.function(q))
    for q, f in prog.functions.items():
        if q.startswith(C.SERDES + ".") and f.cls is None and not f.name.startswith("_"):
            out.append(f)
    for c in prog.subclasses_of("typelib.binding.AbstractBinding"):
        f = c.methods.get("__call__")
        if f:
            out.append(f)
    out.append(prog.function("typelib.binding.BoundRoutine.__call__"))
    return out


def call_time_functions(prog: Program):
    """Everything reachable at call time, excluding what is only reachable through a memoised factory
    (construction happens once per key; its effects are construction-time)."""
    memo = prog.memoised_functions()
    factories = {q for q in memo if q.rsplit(".", 1)[-1] in ("marshaller", "unmarshaller", "codec", "static_order", "_get_binding")}
    seen = {}
    frontier = [(f, [f.qualname]) for f in entry_functions(prog)]
    while frontier:
        f, chain = frontier.pop(0)  # breadth first: the set reached within the bound does not depend on enumeration order
        if f.qualname in seen or len(chain) > 7:
            continue
        seen[f.qualname] = chain
        for cn in sorted(E.callees(prog, f)):
            if cn in factories:
                continue
            g = prog.functions.get(cn)
            if g is not None and cn not in seen:
                frontier.append((g, chain + [cn]))
    return seen


def reads_self_attr(prog, cls, attr, within: set[str]) -> list[str]:
    out = []
    for c in prog.mro(cls):
        for m in c.methods.values():
            if m.qualname not in within:
                continue
            try:
                ps = P.paths_of(prog, m)
            except AnalysisError:
                continue
            for p in ps:
                for tm in p.all_terms():
                    if T.contains(tm, lambda s: s == ("attr", C.SELF, attr)):
                        out.append(m.qualname)
    return sorted(set(out))


def write_once_latch(prog: Program, f, attr: str) -> bool:
    """`self.<attr>` is stored only on paths guarded by `self.<attr> is None`, and what is stored is a memoised routine
    factory applied to a term over self.t alone (the name of the attribute is immaterial)."""
    memo = prog.memoised_functions()
    found = False
    for p in P.paths_of(prog, f):
        for e in p.events:
            if e[0] == "setattr" and e[1] == C.SELF and e[2] == attr:
                found = True
                unset = any(val and a == ("cmp", "is", ("attr", C.SELF, attr), ("const", None)) for a, val in T.derive_atoms(p.guards()))
                v = e[3]
                # (the routine factory of the api modules; that it is memoised is not what makes the latch a function of self.t)
                fac = v[0] == "call" and (T.refname(v[1]) or "") in ("typelib.marshals.api.marshaller", "typelib.unmarshals.api.unmarshaller")
                pure = fac and all(x == C.SELF or x == ("attr", C.SELF, "t") or x[0] in ("ref", "call", "const") for a in v[2] for x in T.walk(a) if x[0] in ("param", "attr", "name", "local", "unknown"))
                if not (unset and fac and pure):
                    return False
    return found


def r12_1(prog: Program, rep: Report, ct):
    n = 0
    for q in sorted(ct):
        f = prog.functions[q]
        if f.name in ("__init__", "__post_init__", "__new__") and f.cls is not None:
            continue  # (a constructor initialises the object it is building: that is no state left by an earlier call)
        ws = E.state_writes(prog, f)
        if not ws:
            continue
        for kind, loc in ws:
            n += 1
            key = (q, loc)
            if key in LATCHES:
                rep.held("R12.1", q, f.loc, f"call-time write of {loc}: {LATCHES[key]}", detail=loc)
                continue
            if kind == "self" and loc.isidentifier() and write_once_latch(prog, f, loc):
                rep.held("R12.1", q, f.loc, f"call-time write of {loc}: write-once latch (stored only where `self.{loc} is None`) of a memoised factory applied to a function of self.t", detail="<latch>")
                continue
            if kind in ("self", "self-container") and f.cls is not None:
                attr = loc
                readers = reads_self_attr(prog, f.cls, attr, set(ct)) if attr.isidentifier() else ["<dynamic>"]
                sub_readers = []
                for sc in prog.subclasses_of(f.cls.qualname):
                    sub_readers += reads_self_attr(prog, sc, attr, set(ct)) if attr.isidentifier() else []
                if readers or sub_readers:
                    rep.violated("R12.1", q, f.loc, f"writes self.{attr} during a call and {sorted(set(readers + sub_readers))[:2]} read it back during calls: the routine is cached per type, so a later call sees what an earlier call left (reached via {' -> '.join(ct[q][-3:])})", detail=loc)
                else:
                    rep.held("R12.1", q, f.loc, f"writes self.{attr} at call time but nothing reads it back at call time", detail=loc)
            elif kind in ("module-container", "module-attr", "global"):
                if loc == "typelib.py.classes._stack":
                    rep.held("R12.1", q, f.loc, "the slotted() re-entrancy guard (acquire/release pairing is C19)", detail=loc)
                else:
                    rep.violated("R12.1", q, f.loc, f"writes module-level state {loc} during a call (reached via {' -> '.join(ct[q][-3:])}): later results can depend on earlier calls", detail=loc)
            else:
                rep.violated("R12.1", q, f.loc, f"call-time state write {kind}:{loc}", detail=loc)
    if n == 0:
        rep.held("R12.1", "call-time functions", "", f"no call-time state write in {len(ct)} call-time functions", nontrivial=True)
    rep.count("call_time_functions", len(ct))


# ------------------------------------------------------------------------------------------ R12.2
MUTABLE_CTORS = {"builtins.list", "builtins.dict", "builtins.set", "builtins.bytearray", "collections.deque", "collections.defaultdict", "collections.OrderedDict"}


def mutable_result(prog, f) -> str | None:
    """Why a memoised function's result may be a mutable container (or None)."""
    try:
        ps = P.paths_of(prog, f)
    except AnalysisError:
        return None
    for p, r in P.returns(ps):
        if r[0] in ("list", "dict", "set") or (r[0] == "comp" and r[1] in ("list", "dict", "set")):
            return f"returns a fresh {r[0] if r[0] != 'comp' else r[1]} that the cache then shares"
        n = T.refname(r[1]) if r[0] == "call" else None
        if n in MUTABLE_CTORS:
            return f"returns {n}(...)"
        if n and (n.endswith(".loads") or n == "ast.literal_eval"):
            return f"returns the decoder's result ({n}), which is a list/dict for container text"
    return None


ONE_SHOT_CTORS = {"graphlib.TopologicalSorter", "builtins.iter", "builtins.map", "builtins.filter", "builtins.zip", "builtins.reversed", "builtins.enumerate", "more_itertools.peekable", "more_itertools.more.peekable", "itertools.chain"}


def one_shot_result(prog, f) -> str | None:
    """Why a function's result can be used only once (iterator, generator, graphlib sorter)."""
    import ast as _ast

    for n in _ast.walk(f.node):
        if isinstance(n, (_ast.Yield, _ast.YieldFrom)):
            return "is a generator function"
    try:
        ps = P.paths_of(prog, f)
    except AnalysisError:
        return None
    for p, r in P.returns(ps):
        if r[0] == "comp" and r[1] == "gen":
            return "returns a generator expression"
        if r[0] == "call" and T.refname(r[1]) in ONE_SHOT_CTORS:
            return f"returns a {T.refname(r[1])} object, which can be consumed only once"
    return None


def r12_2b(prog: Program, rep: Report):
    memo = prog.memoised_functions()
    n = 0
    for q in sorted(memo):
        f = prog.functions.get(q)
        if f is None:
            d = memo[q]
            tgt = d[d.index("(") + 1 : -1] if "(" in d else None
            f = prog.functions.get(tgt) if tgt else None
            if f is None:
                continue
        why = one_shot_result(prog, f)
        n += 1
        rep.check(why is None, "R12.2", q, f.loc, "memoised result is reusable (no iterator / generator / one-shot sorter)", f"memoised, but {why}: the second consumer of the cache entry finds it exhausted (e.g. graphlib raises 'cannot prepare() more than once' when routines are rebuilt after clearing the factory caches)", detail="one-shot")
    return n


def alias_set(prog, term, memo_mut, depth=0, seen=None) -> set:
    """What the value of `term` may be *identical to*: ('cached', q), ('param', n), ('fresh',), ('other',)."""
    seen = seen or set()
    op = term[0]
    if op == "param":
        return {("param", term[1])}
    if op in ("const", "fstr", "cmp", "not", "binop", "unop"):
        return {("fresh",)}
    if op in ("list", "dict", "set", "tuple", "comp"):
        return {("fresh",)}
    if op == "ifexp":
        return alias_set(prog, term[2], memo_mut, depth, seen) | alias_set(prog, term[3], memo_mut, depth, seen)
    if op == "boolop":
        out = set()
        for v in term[2]:
            out |= alias_set(prog, v, memo_mut, depth, seen)
        return out
    if op == "call":
        n = T.refname(term[1])
        if n in memo_mut:
            return {("cached", n)}
        if n in ("copy.deepcopy",):
            return {("fresh",)}
        if n in ("copy.copy",) or n in MUTABLE_CTORS or n == "builtins.tuple":
            # shallow rebuild: the elements are still the argument's elements
            inner = alias_set(prog, term[2][0], memo_mut, depth, seen) if term[2] else set()
            return {("shallow", x[1]) for x in inner if x[0] == "cached"} | {("fresh",)}
        if n and n.startswith("typelib.") and n in prog.functions and depth < 3 and n not in seen:
            g = prog.functions[n]
            out = set()
            names = g.params
            sub = dict(zip(names, term[2]))
            sub.update({k: v for k, v in term[3] if k})
            try:
                ps = P.paths_of(prog, g)
            except AnalysisError:
                return {("other",)}
            for p, r in P.returns(ps):
                for a in alias_set(prog, r, memo_mut, depth + 1, seen | {n}):
                    if a[0] == "param" and a[1] in sub:
                        out |= alias_set(prog, sub[a[1]], memo_mut, depth + 1, seen | {n})
                    else:
                        out.add(a)
            return out
        if term[1] in (C.sattr("t"), C.sattr("origin"), C.sattr("caster")) and len(term[2]) == 1 and not term[3]:
            inner = alias_set(prog, term[2][0], memo_mut, depth, seen)
            return {("shallow", x[1]) for x in inner if x[0] == "cached"} | {("fresh",)}
        return {("other",)}
    if op in ("elem", "sub", "attr", "key", "value", "unpack"):
        inner = alias_set(prog, term[1], memo_mut, depth, seen)
        return {("element", x[1]) for x in inner if x[0] in ("cached", "shallow", "element")} | {("other",)}
    return {("other",)}


def r12_2(prog: Program, rep: Report):
    memo = prog.memoised_functions()
    memo_mut = {}
    for q in memo:
        f = prog.functions.get(q)
        if f is None:
            continue
        why = mutable_result(prog, f)
        if why:
            memo_mut[q] = why
    # internal-only memoised builders (their result is consumed, not returned) are judged by the sinks below
    routes: dict[str, list[str]] = {q: [] for q in memo_mut}
    sinks = []
    for d in ("unmarshal", "marshal"):
        for c in C.routine_classes(prog, d):
            f = c.methods.get("__call__")
            if f is not None:
                sinks.append(f)
    sinks += [prog.function(f"{C.SERDES}.load")]
    for f in sinks:
        try:
            ps = P.paths_of(prog, f)
        except AnalysisError:
            continue
        for p, r in P.returns(ps):
            for a in alias_set(prog, r, memo_mut):
                if a[0] == "cached":
                    routes[a[1]].append(f"{f.qualname} returns the cached object itself")
                elif a[0] == "shallow" and f.cls is not None and f.cls.name.startswith("Cast"):
                    routes[a[1]].append(f"{f.qualname} rebuilds only the outer container: nested containers are still the cached ones")
    for q, why in sorted(memo_mut.items()):
        f = prog.functions[q]
        rs = sorted(set(routes[q]))
        if q == f"{C.SERDES}.strload" or rs:
            rep.check(
                not rs, "R12.2", q, f.loc, f"memoised result ({why}) never reaches a routine/API return without being rebuilt",
                f"memoised function {why}; it escapes: {rs[:3]} — mutating a returned value changes what later calls return",
                {"routes": rs}, detail="escape",
            )  # fmt: skip
        else:
            rep.held("R12.2", q, f.loc, f"memoised result ({why}) is consumed internally by the routine factories", detail="escape")
    rep.count("memoised_mutable_sources", len(memo_mut))


# ------------------------------------------------------------------------------------------ R12.3
ANNOT_PARAMS = {"t", "obj", "annotation", "tvar", "hint", "tp"}


def _has_annotation(f, pname) -> bool:
    a = f.node.args
    for x in a.posonlyargs + a.args + a.kwonlyargs + ([a.vararg] if a.vararg else []) + ([a.kwarg] if a.kwarg else []):
        if x.arg == pname:
            return x.annotation is not None
    return False


def r12_3(prog: Program, rep: Report):
    memo = prog.memoised_functions()
    for q in sorted(memo):
        f = prog.functions.get(q)
        target = q
        if f is None:
            # wrapper alias: name = compat.cache(func)
            d = memo[q]
            if "(" in d:
                target = d[d.index("(") + 1 : -1]
                f = prog.functions.get(target)
            if f is None:
                continue
        reasons = []
        try:
            ps = P.paths_of(prog, f)
        except AnalysisError:
            continue
        params = [p for p in f.params if p != "self"]
        anns = {p: c14._annotation_names(prog, f, p) for p in params}
        coarse_params = [p for p in params if anns[p] & set(oracle.COARSE_EQ)]
        annot_params = [p for p in params if p in ANNOT_PARAMS or anns[p] & {"builtins.type"}]
        # a parameter without any annotation may carry values of any class, including the coarse ones
        # (an annotation that names only exact-equality classes is the one thing that makes rendering safe)
        typing_noise = {"typing.Union", "typing.Optional", "typing.Any", "typing.Hashable", "builtins.None", "typing.TypeVar"}
        unannotated = [p for p in params if p not in ANNOT_PARAMS and not ((anns[p] - typing_noise) and (anns[p] - typing_noise) <= set(oracle.EXACT_EQ))]
        for p, r in P.returns(ps):
            for up in unannotated + coarse_params:
                x = ("param", up)
                textual = (T.is_call_to(r, "builtins.str", "builtins.repr", "builtins.format") and r[2][:1] == (x,)) or (r[0] == "fstr" and T.contains(r, lambda s: s == x)) or (r[0] == "call" and r[1][0] == "attr" and r[1][1] == x and r[1][2] in ("__str__", "__repr__", "__format__"))
                if textual:
                    reasons.append(f"returns the text of {up} (values that compare equal can print differently: Decimal('1.10') == Decimal('1.1'), 0.0 == -0.0)")
            RENDER = ("isoformat", "utcoffset", "tzname", "__str__", "__repr__", "strftime", "ctime", "__format__", "as_posix", "hex")
            for cp in set(coarse_params) | set(unannotated):
                x = ("param", cp)
                if T.contains(r, lambda s: s[0] == "call" and s[1][0] == "attr" and s[1][2] in RENDER and (s[1][1] == x or x in s[2])):
                    reasons.append(f"renders {cp} through .{[s[1][2] for s in T.walk(r) if s[0] == 'call' and s[1][0] == 'attr' and s[1][2] in RENDER][0]}() (values that compare equal can render differently: the same instant at two offsets)")
            for cp in coarse_params:
                x = ("param", cp)
                if T.contains(r, lambda s: s[0] == "call" and s[1][0] == "attr" and s[1][1] == x and s[1][2] in ("isoformat", "utcoffset", "tzname", "__str__", "__repr__", "strftime")) or T.contains(r, lambda s: T.is_call_to(s, "builtins.str", "builtins.repr") and s[2] == (x,)) or T.contains(r, lambda s: s == ("attr", x, "tzinfo")):
                    reasons.append(f"renders {cp} (an aware temporal compares by instant, not by offset)")
            for ap in annot_params:
                x = ("param", ap)
                # an annotation's *text* is spelling: Optional[X] == X | None and Union[A, B] == Union[B, A] print differently
                if T.contains(r, lambda s: T.is_call_to(s, "builtins.str", "builtins.repr") and s[2] == (x,)) or any(T.contains(g, lambda s: T.is_call_to(s, "builtins.str", "builtins.repr") and s[2] == (x,)) for g, _ in p.guards()):
                    reasons.append(f"derives its answer from the text of {ap} (equal annotations print differently: Optional[X] == X | None, Union[A, B] == Union[B, A])")
                if r == x:
                    reasons.append(f"returns {ap} itself (equal annotations are distinct objects: union member order is not part of ==)")
                if T.contains(r, lambda s: (T.is_call_to(s, f"{C.INSP}.args", "typing.get_args") and s[2][:1] == (x,)) or s == ("attr", x, "__args__") or (T.is_call_to(s, "builtins.getattr") and s[2][:2] == (x, ("const", "__args__")))):
                    if r[0] != "call" or T.refname(r[1]) not in ("builtins.all", "builtins.any", "builtins.bool", "builtins.len"):
                        reasons.append(f"reads the members of {ap} into its result")
                if T.contains(r, lambda s: s[0] == "call" and T.refname(s[1]) in (f"{C.INSP}.unwrap", "typelib.graph.itertypes", "typelib.graph.static_order", "typelib.graph.get_type_graph", "typelib.marshals.api.marshaller", "typelib.unmarshals.api.unmarshaller") and (x in s[2] or x in [v for _, v in s[3]])) or T.contains(r, lambda s: T.is_call_to(s, "typelib.ctx.TypeContext")):
                    reasons.append(f"builds a member-order dependent structure from {ap}")
        if not reasons:
            # boolean / string predicates keyed by equality are not representation exposing
            continue
        reasons = sorted(set(reasons))
        if q in COARSE_BENIGN or target in COARSE_BENIGN:
            rep.held("R12.3", q, f.loc, f"candidate ({reasons[0]}) — triaged benign: {COARSE_BENIGN.get(q) or COARSE_BENIGN.get(target)}", detail="key")
        else:
            rep.violated("R12.3", q, f.loc, f"memoised on == of its arguments but {'; '.join(reasons)}: an equal-but-differently-represented argument is answered with the first caller's representation", detail="key")


def r12_4(prog: Program, rep: Report):
    memo = prog.memoised_functions()
    readers: dict[str, list[str]] = {}
    sources: dict[str, set] = {}
    for q in sorted(memo):
        f = prog.functions.get(q)
        if f is None:
            continue
        amb = E.ambient_reads(prog, f, depth=5)
        for a in amb:
            where = a.split(" in ")[-1]
            readers.setdefault(where, []).append(q)
            sources.setdefault(where, set()).add(a)
    # key findings by the memoised function *closest* to the ambient read
    culprits: dict[str, dict] = {}
    for where, callers in sorted(readers.items()):
        direct = [q for q in callers if q == where]
        nearest = direct or [q for q in callers if where in E.callees(prog, prog.functions[q])] or callers[:1]
        for q in nearest:
            d = culprits.setdefault(q, {"readers": set(), "callers": set()})
            d["readers"].add(where)
            d["callers"] |= set(callers)
    for q, d in sorted(culprits.items()):
        rep.violated(
            "R12.4", q, prog.functions[q].loc,
            f"memoised, yet its result depends on ambient state read in {sorted(d['readers'])} (call stack / clock / environment): the first caller's answer is served to every later caller; memoised transitive callers: {sorted(d['callers'])[:8]}",
            {"ambient_readers": sorted(d["readers"]), "memoised_callers": sorted(d["callers"]), "sources": sorted(set().union(*(sources.get(w, set()) for w in d["readers"])))},
            detail=E.ambient_detail(set().union(*(sources.get(w, set()) for w in d["readers"]))),
        )  # fmt: skip
    pure = [q for q in memo if q in prog.functions and not any(q in cs for cs in readers.values())]
    for q in sorted(pure):
        rep.held("R12.4", q, prog.functions[q].loc, "memoised and free of ambient reads (transitively, depth 5)", detail="ambient", nontrivial=True)


def r12_6(prog: Program, rep: Report):
    n = 0
    for q, f in sorted(prog.functions.items()):
        a = f.node.args
        defaults = list(a.defaults) + [d for d in a.kw_defaults if d is not None]
        muts = [d for d in defaults if isinstance(d, (ast.List, ast.Dict, ast.Set, ast.ListComp, ast.DictComp, ast.SetComp)) or (isinstance(d, ast.Call) and prog.resolve_expr_name(f.module, d.func) in MUTABLE_CTORS)]
        if muts:
            n += 1
            rep.violated("R12.6", q, f.loc, "mutable default argument: state survives between calls", detail="default")
    rep.held("R12.6", "typelib", "", f"{len(prog.functions)} functions scanned for mutable defaults ({n} found)", detail="defaults-scan")
    # module-level containers mutated from function bodies
    for q, f in sorted(prog.functions.items()):
        for kind, loc in E.state_writes(prog, f):
            if kind in ("module-container", "module-attr", "global"):
                if loc == "typelib.py.classes._stack":
                    rep.held("R12.6", q, f.loc, "registered re-entrancy guard of slotted() (pairing checked under C19)", detail=loc)
                else:
                    rep.violated("R12.6", q, f.loc, f"function mutates module-level state {loc}", detail=loc)


def r12_7(prog: Program, rep: Report, ct):
    for d in ("unmarshal",):
        for c in C.routine_classes(prog, d):
            f = c.methods.get("__call__")
            if f is None or any(x and x.endswith("abstractmethod") for x in f.decorators):
                continue
            mut = E.mutations_of(prog, f, ("param", "val"))
            rep.check(not mut, "R12.7", f.qualname, f.loc, "does not mutate its input", f"mutates its input: {mut[:2]}")
    for name in ("load", "decode", "strload", "iteritems", "itervalues", "isoformat", "unixtime", "dateparse"):
        f = prog.functions.get(f"{C.SERDES}.{name}")
        if f is not None and f.params:
            mut = E.mutations_of(prog, f, ("param", f.params[0]))
            rep.check(not mut, "R12.7", f.qualname, f.loc, "does not mutate its argument", f"mutates its argument: {mut[:2]}")


_MUTATED_PARAMS: dict = {}


def mutated_params(prog: Program, g) -> set:
    """Names of the parameters of `g` that `g` itself updates in place (item store / delete, mutator call, attribute store)."""
    key = (id(prog), g.qualname)
    if key in _MUTATED_PARAMS:
        return _MUTATED_PARAMS[key]
    out = set()
    try:
        gps = P.paths_of(prog, g)
    except AnalysisError:
        gps = []
    params = {("param", n): n for n in g.params}
    for pth in gps:
        for e in pth.events:
            if e[0] in ("setitem", "setattr") and e[1] in params:
                out.add(params[e[1]])
            if e[0] == "delete" and e[1][0] == "sub" and e[1][1] in params:
                out.add(params[e[1][1]])
        for c in pth.calls():
            if c[1][0] == "attr" and c[1][2] in E.MUTATORS and c[1][1] in params:
                out.add(params[c[1][1]])
    _MUTATED_PARAMS[key] = out
    return out


def r12_8(prog: Program, rep: Report):
    """Results of memoised helpers (type hints, signatures, static_order, args) are not mutated by their consumers."""
    memo = prog.memoised_functions()
    n = 0
    for q, f in sorted(prog.functions.items()):
        try:
            ps = P.paths_of(prog, f)
        except AnalysisError:
            continue
        bad = []

        def cached(base):
            """the memoised call `base` is, or is a component of (item, unpacked position, loop element)"""
            while base[0] in ("sub", "unpack", "elem", "star") and len(base) > 1 and isinstance(base[1], tuple):
                base = base[1]
            return T.refname(base[1]) if base[0] == "call" and T.refname(base[1]) in memo else None

        for p in ps:
            for e in p.events:
                if e[0] in ("setitem", "delete", "setattr"):
                    base = e[1]
                    if e[0] == "delete" and base[0] == "sub":
                        base = base[1]
                    if e[0] == "setitem" and len(e) > 4 and e[4] and cached(base) is None:
                        continue
                    if cached(base):
                        bad.append(f"{e[0]} on {'a component of ' if base[0] != 'call' else ''}the cached result of {cached(base)}")
            for c in p.calls():
                if c[1][0] == "attr" and c[1][2] in E.MUTATORS:
                    base = c[1][1]
                    if cached(base):
                        bad.append(f".{c[1][2]}() on {'a component of ' if base[0] != 'call' else ''}the cached result of {cached(base)}")
            # ... or handed to a package function that mutates that parameter (`_bind_parameters(cached_hints(...), alias)`)
            for c in p.calls():
                gq = T.refname(c[1])
                g = prog.functions.get(gq) if gq else None
                if g is None or g is f:
                    continue
                mp = mutated_params(prog, g)
                for i, a in enumerate(c[2]):
                    if i < len(g.params) and g.params[i] in mp and cached(a):
                        bad.append(f"{g.name}() mutates its parameter `{g.params[i]}`, which is the cached result of {cached(a)}")
            # `x = cached(); x -= other`: an augmented assignment updates a mutable container in place
            for e in p.events:
                if e[0] == "assign" and e[2][0] == "binop" and e[2][1].endswith("=") and e[2][1] not in ("==", "!=", "<=", ">="):
                    cq = cached(e[2][2])
                    g = prog.functions.get(cq) if cq else None
                    if g is not None and mutable_result(prog, g):
                        bad.append(f"`{e[2][1]}` on the cached result of {cq}, which {mutable_result(prog, g)}")
        if bad:
            n += 1
            rep.violated("R12.8", q, f.loc, f"mutates a memoised result in place ({sorted(set(bad))[0]}): every later consumer of that cache entry sees the change", detail="cached-mutation")
    rep.held("R12.8", "typelib", "", f"{len(prog.functions)} functions scanned for in-place mutation of memoised results ({n} found)", detail="scan")
    # closures that outlive the call that made them (returned or stored) must not write the variables they capture:
    # such a write is state carried from one call of the closure to the next
    import ast as _ast

    nclos = 0
    for q, f in sorted(prog.functions.items()):
        if isinstance(f.node, _ast.Lambda):
            continue
        inner_defs = [n for n in f.node.body if isinstance(n, _ast.FunctionDef)] + [n for st in _ast.walk(f.node) if isinstance(st, (_ast.If, _ast.Try, _ast.With, _ast.For, _ast.While)) for n in getattr(st, "body", []) + getattr(st, "orelse", []) if isinstance(n, _ast.FunctionDef)]
        if not inner_defs:
            continue
        outer_locals = set(f.params)
        for n in _ast.walk(f.node):
            if isinstance(n, _ast.Name) and isinstance(n.ctx, _ast.Store):
                outer_locals.add(n.id)
        escaping = set()
        for n in _ast.walk(f.node):
            if isinstance(n, _ast.Return) and n.value is not None:
                escaping |= {x.id for x in _ast.walk(n.value) if isinstance(x, _ast.Name)}
            if isinstance(n, _ast.Assign) and any(isinstance(tg, (_ast.Attribute, _ast.Subscript)) for tg in n.targets):
                escaping |= {x.id for x in _ast.walk(n.value) if isinstance(x, _ast.Name)}
        for d in inner_defs:
            if d.name not in escaping:
                continue
            nclos += 1
            own = {a.arg for a in d.args.posonlyargs + d.args.args + d.args.kwonlyargs}
            if d.args.vararg:
                own.add(d.args.vararg.arg)
            if d.args.kwarg:
                own.add(d.args.kwarg.arg)
            nonlocals = set()
            for n in _ast.walk(d):
                if isinstance(n, _ast.Nonlocal):
                    nonlocals |= set(n.names)
                if isinstance(n, _ast.Name) and isinstance(n.ctx, _ast.Store):
                    own.add(n.id)
                if isinstance(n, _ast.comprehension):
                    own |= {x.id for x in _ast.walk(n.target) if isinstance(x, _ast.Name)}
            own -= nonlocals
            captured = (outer_locals - own) | nonlocals
            writes = []
            for n in _ast.walk(d):
                if isinstance(n, _ast.Call) and isinstance(n.func, _ast.Attribute) and isinstance(n.func.value, _ast.Name) and n.func.value.id in captured and n.func.attr in E.MUTATORS:
                    writes.append(f"{n.func.value.id}.{n.func.attr}()")
                if isinstance(n, (_ast.Assign, _ast.AugAssign, _ast.AnnAssign)):
                    tgs = n.targets if isinstance(n, _ast.Assign) else [n.target]
                    for tg in tgs:
                        if isinstance(tg, _ast.Subscript) and isinstance(tg.value, _ast.Name) and tg.value.id in captured:
                            writes.append(f"{tg.value.id}[…] = …")
                        if isinstance(tg, _ast.Name) and tg.id in nonlocals:
                            writes.append(f"nonlocal {tg.id} = …")
                if isinstance(n, _ast.Delete):
                    for tg in n.targets:
                        if isinstance(tg, _ast.Subscript) and isinstance(tg.value, _ast.Name) and tg.value.id in captured:
                            writes.append(f"del {tg.value.id}[…]")
            # ... nor read a captured *one-shot* iterator: a generator (or map/filter/zip/iter/reversed object) bound in the
            # enclosing call is exhausted by the closure's first use, every later use sees it empty
            used = {x.id for x in _ast.walk(d) if isinstance(x, _ast.Name) and isinstance(x.ctx, _ast.Load)} & captured

            def one_shot(v):
                if isinstance(v, _ast.GeneratorExp):
                    return True
                if isinstance(v, _ast.IfExp):
                    return one_shot(v.body) or one_shot(v.orelse)
                if isinstance(v, _ast.Call) and isinstance(v.func, _ast.Name) and v.func.id in ("map", "filter", "zip", "iter", "reversed", "enumerate"):
                    return True
                return False

            shots = []
            for n in _ast.walk(f.node):
                if isinstance(n, (_ast.Assign, _ast.AnnAssign)) and n.value is not None and not any(n is m for m in _ast.walk(d)):
                    tgs = n.targets if isinstance(n, _ast.Assign) else [n.target]
                    for tg in tgs:
                        if isinstance(tg, _ast.Name) and tg.id in used and one_shot(n.value):
                            shots.append(tg.id)
            rep.check(not shots, "R12.8", f"{q}.<locals>.{d.name}", f"{f.module.relpath}:{d.lineno}", "the escaping closure captures no one-shot iterator", f"the closure outlives {f.name}() and reads `{(shots or [''])[0]}`, which that call bound to a generator / one-shot iterator: the first use of the closure exhausts it and every later use finds it empty -- the field iterator cached per class yields the fields of the first instance only, then nothing", detail="closure-one-shot")
            rep.check(not writes, "R12.8", f"{q}.<locals>.{d.name}", f"{f.module.relpath}:{d.lineno}", "the escaping closure does not write the variables it captures", f"the closure outlives {f.name}() and writes captured state ({(sorted(set(writes)) or [''])[0]}): what an earlier call stored decides what a later call returns (the closure is cached per type)", detail="closure-state")
    rep.count("escaping_closures", nclos)
    # routine attributes are written only by constructors and the two proxy latches
    for d in ("marshal", "unmarshal"):
        for c in C.routine_classes(prog, d):
            for name, m in c.methods.items():
                if name in ("__init__",) or (c.qualname.rsplit(".", 1)[-1].startswith("Delayed") and name == "resolved"):
                    continue
                ws = [w for w in E.state_writes(prog, m) if w[0].startswith("self")]
                rep.check(not ws, "R12.8", m.qualname, m.loc, "routine state is construction-time only", f"{name} writes routine state {ws[:2]} outside the constructor: the cached routine changes between calls", detail="routine-state")


def r12_9(prog: Program, rep: Report):
    """Running out of stack or memory is a fact about the *call*, not about its arguments.  A memoised function that swallows
    RecursionError / MemoryError and returns a fallback stores that fallback for good: the same arguments give a different
    answer depending on how deep the stack was when they were first seen."""
    memo = prog.memoised_functions()
    transient = ("builtins.RecursionError", "builtins.MemoryError")
    n = 0
    for q in sorted(memo):
        f = prog.functions.get(q)
        if f is None:
            continue
        try:
            ps = P.paths_of(prog, f)
        except AnalysisError:
            continue
        bad = set()
        for p in ps:
            if p.exit[0] != "return":
                continue
            for names in P.abandoned(p):
                for tname in transient:
                    if oracle.exc_covered(tname, names):
                        bad.add(tname.rsplit(".", 1)[1])
        n += 1
        rep.check(not bad, "R12.9", q, f.loc, "no exit remembers an answer reached by swallowing RecursionError / MemoryError", f"memoised, and an exit returns after swallowing {sorted(bad)}: whether the parser ran out of stack depends on how deep the caller already was, yet the fallback is cached -- unmarshal(tuple, TEXT) returns the characters of TEXT for the rest of the process once TEXT was first seen 150 frames deep", detail="transient-error-remembered")
    return n


def r12_10(prog: Program, rep: Report):
    """A lazy proxy holds a reference (name, module).  References compare by their text, so handing the reference itself to
    the memoised factory finds the routine of whatever class bore that name when the entry was made.  The proxy must hand
    over what the reference names *now* (refs.evaluate), which is keyed by the class object."""
    n = 0
    for d in ("marshal", "unmarshal"):
        rows = C.handlers(prog, d)
        first = rows[0] if rows else None
        if first is None or first.pred_name != "isforwardref" or first.routine is None:
            continue
        api = C.DIRS[d][0]
        factory = f"{api}.{'marshaller' if d == 'marshal' else 'unmarshaller'}"
        res = prog.lookup_method(first.routine, "resolved")
        if res is None:
            continue
        raw = evaluated = False
        for p in P.paths_of(prog, res):
            for tm in p.all_terms():
                for x in T.walk(tm):
                    if T.is_call_to(x, factory) and x[2]:
                        if x[2][0] == C.sattr("t"):
                            raw = True
                        if T.is_call_to(x[2][0], "typelib.py.refs.evaluate") and x[2][0][2][:1] == (C.sattr("t"),):
                            evaluated = True
        n += 1
        rep.check(evaluated and not raw, "R12.10", first.routine.qualname, res.loc, "the proxy resolves the class its reference names now (the factory is keyed by that class)", f"the proxy hands its reference to the memoised {factory.rsplit('.', 1)[-1]}(): references compare by (text, module), so the entry made for an earlier class of that name is served -- after a class is re-defined (importlib.reload, a re-run notebook cell) the nested members of the new class are built as instances of the old one, new fields dropped", detail="reference-key")
    return n


def memo_unbounded(prog: Program, rep: Report, rule: str):
    """A memo is invisible only while it never forgets: typing makes equal keys of annotations that the functions tell apart
    (`K | None == Optional[K]`, `Union[int, str] == Union[str, int]`), so the answer for such a key is the one of the spelling
    seen first -- for good, as long as the entry stays.  With a bounded memo the entry is evicted after enough other types
    have been inspected, the other spelling is seen "first" the next time, and the same call gives another answer than it gave
    before.  A bound is harmless only where equal keys are interchangeable inputs: functions of exact text."""
    import ast as _ast

    n = 0
    sites: list[tuple[str, object, object, object]] = []  # (name, module, memoiser expression, memoised function or None)
    for f in prog.functions.values():
        if prog.is_memoised(f):
            for dn in f.node.decorator_list:
                nm = prog.resolve_expr_name(f.module, dn.func if isinstance(dn, _ast.Call) else dn)
                if nm in ("functools.cache", "functools.lru_cache") or prog._memo_wrapper(nm):
                    sites.append((f.qualname, f.module, dn, f))
    for m in prog.modules.values():
        for nm, v in m.assigns.items():
            if isinstance(v, _ast.Call) and v.args:
                fn = prog.resolve_expr_name(m, v.func)
                if fn in ("functools.cache", "functools.lru_cache") or prog._memo_wrapper(fn):
                    target = prog.resolve_expr_name(m, v.args[0])
                    sites.append((f"{m.name}.{nm}", m, v.func, prog.functions.get(target or "")))
    for q, mod, expr, f in sorted(sites, key=lambda x: x[0]):
        bound = prog.memo_bound(mod, expr)
        n += 1
        if bound == "unknown":
            rep.undecided(rule, q, getattr(f, "loc", ""), "the size of this memo cannot be read from the source", detail="memo-unbounded")
            continue
        text_keyed = False
        if f is not None:
            a = f.node.args
            ps = a.posonlyargs + a.args + a.kwonlyargs
            text_keyed = bool(ps) and not a.vararg and not a.kwarg and all(p.annotation is not None and _ast.unparse(p.annotation) in ("str", "'str'") for p in ps)
        rep.check(bound is None or text_keyed, rule, q, getattr(f, "loc", ""), "the memo never forgets (or is keyed by exact text)", f"the memo keeps {bound} entries and is keyed by annotations: typing makes equal keys of spellings the function tells apart (K | None == Optional[K]; Union[int, str] == Union[str, int]), so after enough other types have been inspected the entry is evicted and the same call answers for the other spelling -- origin(K | None) is types.UnionType, later typing.Union", detail="memo-unbounded")
    return n


def run(prog: Program, rep: Report, tier: str):
    rep.rule("R12.10", "lazy proxies resolve the class their reference names now", floor=2)
    r12_10(prog, rep)
    rep.rule("R12.9", "memoised functions do not remember answers reached by swallowing transient resource errors", floor=30)
    r12_9(prog, rep)
    rep.rule("R12.11", "no answer is taken from the memo typing keeps on the ForwardRef objects it shares between modules", floor=2)
    from . import c11 as _c11

    _c11.shared_reference_memo(prog, rep, "R12.11")
    rep.rule("R12.12", "memos keyed by annotations never forget", floor=30)
    memo_unbounded(prog, rep, "R12.12")
    rep.rule("R12.1", "no call-time state write that is read back (frozen latches excepted)", floor=3)
    rep.rule("R12.2", "memoised mutable results do not escape through routine/API returns; no memoised one-shot objects", floor=30)
    rep.rule("R12.3", "key granularity of memoised functions (triaged candidates)", floor=1)
    rep.rule("R12.4", "memoised functions are free of ambient reads", floor=15)
    rep.rule("R12.5", "memoised decoders receive hashable carriers (shared with R14.3)", floor=1)
    rep.rule("R12.6", "no mutable defaults; no module-level container mutated from a function (slotted guard excepted)", floor=1)
    rep.rule("R12.7", "no unmarshal/serdes path mutates its input", floor=25)
    rep.rule("R12.8", "memoised results, routine state and state captured by escaping closures are never written after construction", floor=40)
    ct = call_time_functions(prog)
    r12_1(prog, rep, ct)
    r12_2(prog, rep)
    r12_2b(prog, rep)
    r12_3(prog, rep)
    r12_4(prog, rep)
    # R12.5
    import io

    sub = Report("C12", rep.tier)
    sub.rules = rep.rules
    before = len(rep.obligations)
    sub.rule("R14.3", "", 0)
    c14.r14_3(prog, sub)
    for o in sub.obligations:
        o.rule = "R12.5"
        o.key = o.key.replace("R14.3@", "R12.5@")
        rep.obligations.append(o)
        rep.rules["R12.5"]["instances"] += 1
    rep.rules.pop("R14.3", None)
    del io, before
    r12_6(prog, rep)
    r12_7(prog, rep, ct)
    r12_8(prog, rep)
