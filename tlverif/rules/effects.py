"""Effect summaries over paths: mutation of a value, ambient reads, state writes, call graph."""

from __future__ import annotations

from .. import paths as P
from .. import terms as T
from ..model import AnalysisError, FuncInfo, Program
from . import common as C

MUTATORS = {
    "append", "appendleft", "extend", "extendleft", "insert", "pop", "popleft", "popitem", "remove", "clear", "update",
    "setdefault", "sort", "reverse", "add", "discard", "difference_update", "intersection_update",
    "symmetric_difference_update", "__setitem__", "__delitem__", "rotate",
}  # fmt: skip

AMBIENT = {
    "time.time", "time.time_ns", "time.monotonic", "time.perf_counter", "time.localtime", "time.gmtime",
    "datetime.datetime.now", "datetime.datetime.today", "datetime.datetime.utcnow", "datetime.date.today",
    "os.environ", "os.getenv", "os.getcwd", "os.getpid", "random.random", "random.randint", "random.choice",
    "uuid.uuid4", "uuid.uuid1", "inspect.currentframe", "inspect.stack", "sys._getframe", "sys.modules",
    "socket.gethostname", "locale.getlocale", "time.tzname", "time.timezone",
    "pendulum.parse",  # third-party fact: "now" and time-only text are completed from the current clock/date
}  # fmt: skip


def ambient_family(src: str) -> str:
    """Coarse kind of an ambient source ("<source> in <function>" accepted): findings are keyed by the kinds involved."""
    src = src.split(" in ")[0]
    if src.startswith(("frame.", "inspect.", "sys._getframe")):
        return "stack"
    if src == "sys.modules":
        return "modules"
    if src.startswith(("time.", "datetime.", "pendulum.")):
        return "clock"
    if src.startswith(("random.", "uuid.")):
        return "random"
    return "environment"


def ambient_detail(reads) -> str:
    """Obligation detail for an ambient-read finding: plain "ambient" for the call-stack family alone (the recorded
    finding), otherwise the families spelled out, so that a *new* kind of ambient dependence is a different finding."""
    fams = sorted({ambient_family(a) for a in reads})
    return "ambient" if fams in ([], ["stack"]) else "ambient-" + "+".join(fams)


def derives(term, root) -> bool:
    """Is `term` the root or reached from it by projections that do not copy (attr/sub/elem/…/load/decode)?"""
    seen = 0
    while seen < 20:
        seen += 1
        if term == root:
            return True
        op = term[0]
        if op in ("attr", "sub", "elem", "key", "value", "unpack", "star", "index", "zipelem"):
            term = term[1]
            continue
        if op == "call":
            n = T.refname(term[1])
            if n in (f"{C.SERDES}.load", f"{C.SERDES}.decode") and term[2]:
                term = term[2][0]
                continue
            if term[1][0] == "attr" and term[1][2] in ("items", "values", "keys", "__iter__") and not term[2]:
                term = term[1][1]
                continue
            if n in ("builtins.iter", "builtins.enumerate", "builtins.reversed", f"{C.SERDES}.iteritems", f"{C.SERDES}.itervalues", "builtins.vars", "builtins.zip") and term[2]:
                return any(derives(a, root) for a in term[2])
            return False
        if op == "ifexp":
            return derives(term[2], root) or derives(term[3], root)
        return False
    return False


def mutations_of(prog: Program, f: FuncInfo, root) -> list[str]:
    out = []
    for p in P.paths_of(prog, f):
        for e in p.events:
            if e[0] in ("setitem", "setattr") and derives(e[1], root):
                out.append(f"{e[0]} on {T.show(e[1])[:50]}")
            if e[0] == "delete" and derives(e[1], root) and e[1] != root:
                out.append(f"del {T.show(e[1])[:50]}")
        for c in p.calls():
            if c[1][0] == "attr" and c[1][2] in MUTATORS and derives(c[1][1], root):
                out.append(f".{c[1][2]}() on {T.show(c[1][1])[:50]}")
            n = T.refname(c[1])
            if n in ("builtins.setattr", "builtins.delattr", "object.__setattr__") and c[2] and derives(c[2][0], root):
                out.append(f"{n} on {T.show(c[2][0])[:50]}")
    return sorted(set(out))


def callees(prog: Program, f: FuncInfo) -> set[str]:
    """Resolved in-package callees (functions; methods via self.<m>; classes -> __init__)."""
    out = set()
    try:
        ps = P.paths_of(prog, f)
    except AnalysisError:
        return out
    for p in ps:
        for tm in p.all_terms():
            for s in T.walk(tm):
                if s[0] == "call":
                    n = T.refname(s[1])
                    if n and n.startswith("typelib."):
                        if n in prog.functions:
                            out.add(n)
                        else:
                            c = prog.class_of(n)
                            if c:
                                m = prog.lookup_method(c[0], "__init__")
                                if m:
                                    out.add(m.qualname)
                            else:
                                # memoised wrapper alias: name = compat.cache(func)
                                mn, _, nm = n.rpartition(".")
                                mod = prog.modules.get(mn)
                                if mod and nm in mod.assigns:
                                    import ast as _ast

                                    v = mod.assigns[nm]
                                    if isinstance(v, _ast.Call) and v.args:
                                        tgt = prog.resolve_expr_name(mod, v.args[0])
                                        if tgt in prog.functions:
                                            out.add(tgt)
                    elif s[1][0] == "attr" and s[1][1] == C.SELF and f.cls is not None:
                        m = prog.lookup_method(f.cls, s[1][2])
                        if m:
                            out.add(m.qualname)
                elif s[0] == "attr" and s[1] == C.SELF and f.cls is not None:
                    # property access
                    m = prog.lookup_method(f.cls, s[2])
                    if m and any(d and d.endswith("property") for d in m.decorators):
                        out.add(m.qualname)
    return out


def direct_ambient(prog: Program, f: FuncInfo) -> set[str]:
    out = set()
    try:
        ps = P.paths_of(prog, f)
    except AnalysisError:
        return out
    for p in ps:
        for tm in p.all_terms():
            for s in T.walk(tm):
                if s[0] == "ref" and s[1] in AMBIENT:
                    out.add(s[1])
                elif s[0] == "ref" and any(s[1].startswith(a + ".") for a in ("sys.modules", "os.environ")):
                    out.add(s[1].rsplit(".", 1)[0])  # a method of the ambient mapping (`sys.modules.get`)
                if s[0] == "call" and s[1][0] == "attr" and s[1][2] in ("now", "today", "utcnow") and s[1][1] in (C.sattr("t"), C.sattr("origin")):
                    out.add("datetime.now (via self.t)")
                if s[0] == "attr" and s[2] in ("f_back", "f_globals", "f_locals"):
                    out.add("frame." + s[2])
    return out


_DIRECT_AMBIENT: dict = {}


def ambient_reads(prog: Program, f: FuncInfo, depth: int = 3, _seen=None) -> set[str]:
    """Ambient sources read by `f` or by any in-package function it reaches through at most `depth` calls.  Breadth first, so
    the set is the same whatever order the callees are enumerated in (a depth-limited depth-first walk with a shared
    visited set is not: a function first met deep down would be cut short and never re-explored from a shorter chain)."""
    out: set[str] = set()
    seen = {f.qualname}
    frontier = [f]
    for level in range(depth + 1):
        nxt = []
        for g in frontier:
            key = (id(prog), g.qualname)
            if key not in _DIRECT_AMBIENT:
                _DIRECT_AMBIENT[key] = direct_ambient(prog, g)
            out |= {f"{a} in {g.qualname}" for a in _DIRECT_AMBIENT[key]}
            if level < depth:
                for cn in sorted(callees(prog, g)):
                    h = prog.functions.get(cn)
                    if h is not None and cn not in seen:
                        seen.add(cn)
                        nxt.append(h)
        frontier = nxt
        if not frontier:
            break
    return out


def reachable(prog: Program, start: FuncInfo, depth: int = 6) -> dict[str, list[str]]:
    """qualname -> call chain from start (BFS over resolved in-package callees)."""
    chains = {start.qualname: [start.qualname]}
    frontier = [start]
    for _ in range(depth):
        nxt = []
        for f in frontier:
            for cn in callees(prog, f):
                if cn not in chains and cn in prog.functions:
                    chains[cn] = chains[f.qualname] + [cn]
                    nxt.append(prog.functions[cn])
        frontier = nxt
        if not frontier:
            break
    return chains


def state_writes(prog: Program, f: FuncInfo) -> list[tuple[str, str]]:
    """(kind, location) of call-time writes: self attributes, globals/nonlocals, module-level containers."""
    out = []
    try:
        ps = P.paths_of(prog, f)
    except AnalysisError:
        return out
    scoped = set()
    for p in ps:
        for e in p.events:
            if e[0] == "scope":
                scoped |= set(e[2])
    for p in ps:
        for e in p.events:
            if e[0] == "setattr" and e[1] == C.SELF:
                out.append(("self", e[2]))
            elif e[0] == "setattr" and e[1][0] == "ref" and e[1][1].startswith("typelib."):
                out.append(("module-attr", f"{e[1][1]}.{e[2]}"))
            elif e[0] == "setitem" and e[1][0] == "ref" and e[1][1].startswith("typelib."):
                out.append(("module-container", e[1][1]))
            elif e[0] == "setitem" and e[1] == C.SELF:
                out.append(("self-item", "self[...]"))
            elif e[0] in ("setitem", "setattr") and e[1][0] == "attr" and e[1][1] == C.SELF:
                out.append(("self-container", e[1][2]))
            elif e[0] == "delete" and T.contains(e[1], lambda s: s[0] == "attr" and s[1] == C.SELF):
                a = [s for s in T.walk(e[1]) if s[0] == "attr" and s[1] == C.SELF]
                out.append(("self-container", a[0][2]))
            elif e[0] == "assign" and e[1] in scoped:
                out.append(("global", e[1]))
        for c in p.calls():
            if c[1][0] == "attr" and c[1][2] in MUTATORS:
                b = c[1][1]
                if b[0] == "ref" and b[1].startswith("typelib."):
                    out.append(("module-container", b[1]))
                if b[0] == "attr" and b[1] == C.SELF:
                    out.append(("self-container", b[2]))
            n = T.refname(c[1])
            if n == "builtins.setattr" and c[2] and c[2][0] == C.SELF:
                out.append(("self", "setattr(self, …)"))
    return sorted(set(out))
